(* Props.v (C12) — statements only.  Proofs: C12/Lemmas.v; model: C12/Batch.v.

   Reading.  A batch is a list `fs : list (src frame)` of what the reader thread
   queued (image, frame_idx, video_idx).  `detect`, `value`, `crop_infer`,
   `group`, `cmaps`, `rough`, `refine` are the per-sample computations (ANY
   functions: the theorems hold for all of them).  `topdown_batch mi fs` is what
   TopDownInferenceModel returns for the batch (one record
   (frame_idx, video_idx, instances) per frame with at least one kept peak);
   `topdown_one mi s` is the same computed from frame s alone:
   the peaks `kept mi (detect (s_img s))`, each through the instance stage. *)
From Coq Require Import List Arith QArith Permutation.
Import ListNotations.
From SV Require Import C12.Batch C12.Lemmas.

Section Statements.
  Variables frame peak inst chan : Type.
  Variable detect : frame -> list peak.
  Variable value : peak -> Q.
  Variable crop_infer : frame -> peak -> inst.
  Variable group : frame -> list peak -> list inst.
  Variable cmaps : frame -> list chan.
  Variable rough : chan -> option peak.
  Variable refine : chan -> peak -> inst.
  Variable ginst : Type.
  Variable gmatch : frame -> peak -> option ginst.

  Notation co_batch := (centroid_only_batch frame peak detect value ginst gmatch).
  Notation co_one := (centroid_only_one frame peak detect value ginst gmatch).
  Notation strip := (strip_padding peak ginst).
  Notation td_batch := (topdown_batch frame peak inst detect value crop_infer).
  Notation td_one := (topdown_one frame peak inst detect value crop_infer).
  Notation td_stream := (topdown_stream frame peak inst detect value crop_infer).
  Notation bu_batch := (bottomup_batch frame peak inst detect group).
  Notation bu_one := (bottomup_one frame peak inst detect group).

  (* the peaks attributed to sample b of a batch are exactly frame b's own peaks
     ((peak_sample_inds == b) split of the flat peak list) *)
  Theorem c12_split_by_sample : forall xs b x, nth_error xs b = Some x ->
    split_sample peak (flat_peaks frame peak detect 0%nat xs) b = detect x.
  Proof. exact (split_flat_nth frame peak detect). Qed.

  (* (a) top-down: the batch result is the concatenation of the per-frame results,
     for max_instances = None (per-batch maximum + NaN padding) and Some k (top-k) *)
  Theorem c12_topdown_batch_is_per_frame : forall mi fs, td_batch mi fs = flat_map (td_one mi) fs.
  Proof. exact (topdown_batch_is_per_frame frame peak inst detect value crop_infer). Qed.

  Theorem c12_topdown_independent_of_batch_mates : forall mi xs1 x xs2,
    td_batch mi (xs1 ++ [x] ++ xs2) = td_batch mi xs1 ++ td_batch mi [x] ++ td_batch mi xs2.
  Proof. exact (topdown_batch_mates frame peak inst detect value crop_infer). Qed.

  (* any batch size (the chunking done by _predict_generator) gives the same stream *)
  Theorem c12_topdown_independent_of_batch_size : forall mi n fs,
    (0 < n)%nat -> td_stream mi n fs = flat_map (td_one mi) fs.
  Proof. exact (topdown_stream_any_batch_size frame peak inst detect value crop_infer). Qed.

  (* (b) order of frames within the batch *)
  Theorem c12_topdown_permutation : forall mi fs fs',
    Permutation fs fs' -> Permutation (td_batch mi fs) (td_batch mi fs').
  Proof. exact (topdown_batch_perm frame peak inst detect value crop_infer). Qed.

  (* every output record carries the indices of the frame it was computed from *)
  Theorem c12_topdown_indices : forall mi fs f v insts,
    In (f, v, insts) (td_batch mi fs) ->
    exists s, In s fs /\ f = s_fidx frame s /\ v = s_vidx frame s /\
              insts = map (crop_infer (s_img frame s)) (kept peak value mi (detect (s_img frame s))) /\
              kept peak value mi (detect (s_img frame s)) <> [].
  Proof. exact (topdown_indices frame peak inst detect value crop_infer). Qed.

  (* (c) a frame without detections yields nothing and does not disturb the others *)
  Theorem c12_topdown_empty_frame : forall mi xs1 x xs2,
    detect (s_img frame x) = [] ->
    td_batch mi [x] = [] /\ td_batch mi (xs1 ++ [x] ++ xs2) = td_batch mi (xs1 ++ xs2).
  Proof. exact (topdown_empty_frame frame peak inst detect value crop_infer). Qed.

  (* (d) max_instances = k keeps the k highest-valued peaks (any valid top-k on ties) *)
  Theorem c12_max_instances_keeps_highest : forall k l, (k < length l)%nat ->
    exists dropped,
      Permutation l (kept peak value (Some k) l ++ dropped) /\ length (kept peak value (Some k) l) = k /\
      (forall a b, In a (kept peak value (Some k) l) -> In b dropped -> Qle (value b) (value a)).
  Proof. exact (kept_topk peak value). Qed.

  Theorem c12_max_instances_not_exceeded_keeps_all : forall mi l,
    match mi with Some k => (length l <= k)%nat | None => True end -> kept peak value mi l = l.
  Proof. exact (kept_all peak value). Qed.

  Theorem c12_topk_in_decreasing_order : forall k l a b t1 t2,
    topk peak value k l = t1 ++ a :: b :: t2 -> Qle (value b) (value a).
  Proof. exact (topk_sorted peak value). Qed.

  (* centroid-only output (return_crops = False): each frame's row = its own kept
     peaks, up to NaN padding rows *)
  Theorem c12_centroid_table_up_to_nan_padding : forall mi xs rows,
    centroid_rows frame peak detect value mi xs = Some rows ->
    length rows = length xs /\
    map (@somes peak) rows = map (fun x => kept peak value mi (detect x)) xs.
  Proof. exact (centroid_rows_up_to_padding frame peak detect value). Qed.

  (* bottom-up: the inference model's batch (before _make_labeled_frames_from_generator; the LabeledFrame records with
     the all-NaN drop and max_instances are Flat.bottomup_frames, c12_bottomup_frames_* below) *)
  Theorem c12_bottomup_batch_is_per_frame : forall fs, bu_batch fs = map bu_one fs.
  Proof. exact (bottomup_batch_is_per_frame frame peak inst detect group). Qed.

  Theorem c12_bottomup_independent_of_batch_mates : forall xs1 x xs2,
    bu_batch (xs1 ++ [x] ++ xs2) = bu_batch xs1 ++ bu_batch [x] ++ bu_batch xs2.
  Proof. exact (bottomup_batch_mates frame peak inst detect group). Qed.

  Theorem c12_bottomup_permutation : forall fs fs',
    Permutation fs fs' -> Permutation (bu_batch fs) (bu_batch fs').
  Proof. exact (bottomup_batch_perm frame peak inst detect group). Qed.

  (* crop index sample * channels + channel addresses the peak's own sample and channel.
     An arithmetic fact about the flattened map list (`patch_source`); the pipelines that USE this index are
     Flat.local_flat (find_local_peaks: c12_local_peaks_refined_on_own_map) and Flat.global_flat (find_global_peaks:
     c12_global_peaks_flat_is_per_frame) below, both proved through it *)
  Theorem c12_crop_index_own_sample : forall xs C b c x,
    (forall y, In y xs -> length (cmaps y) = C) -> (c < C)%nat -> nth_error xs b = Some x ->
    patch_source frame chan cmaps xs C b c = nth_error (cmaps x) c.
  Proof. exact (patch_source_own frame chan cmaps). Qed.

  (* single instance, CLOSED FORM (`_def`): `single_batch` reads the rough peak and the patch of entry (b, c) through the
     same index b * C + c written down directly, so this theorem is the index arithmetic above and nothing about the
     valid_idx gather / scatter of find_global_peaks.  The code's path (flatten -> valid_idx -> crop -> scatter ->
     reshape) is Flat.global_flat; c12_global_peaks_flat_is_per_frame proves the per-frame statement about THAT
     definition and c12_global_peaks_flat_is_closed_form that it equals this closed form *)
  Theorem c12_single_batch_is_per_frame : forall C xs,
    (forall y, In y xs -> length (cmaps y) = C) ->
    single_batch frame peak inst chan cmaps rough refine C xs
    = map (single_one frame peak inst chan cmaps rough refine) xs.
  Proof. exact (single_batch_is_per_frame frame peak inst chan cmaps rough refine). Qed.
  (* centroid-only top-down (centered-instance model = None): CentroidCrop(return_crops=False)
     + FindInstancePeaksGroundTruth.  `gmatch img p` = the labelled instance of the SAME sample
     nearest to centroid p (ANY function); M = width of the labels file's instance table.
     The batch output (one dictionary; entry b = (frame_idx, video_idx, centroid row, instance
     rows)) is, up to the NaN padding of the centroid row, the list of per-frame results:
     the sequential counts / parsed walk gives every sample its own matches. *)
  Theorem c12_centroid_only_batch_is_per_frame : forall mi M fs,
    map strip (co_batch mi M fs) = map (co_one mi M) fs.
  Proof. exact (centroid_only_batch_is_per_frame frame peak detect value ginst gmatch). Qed.

  Theorem c12_centroid_only_independent_of_batch_mates : forall mi M xs1 x xs2,
    map strip (co_batch mi M (xs1 ++ [x] ++ xs2))
    = map strip (co_batch mi M xs1) ++ map strip (co_batch mi M [x]) ++ map strip (co_batch mi M xs2).
  Proof. exact (centroid_only_mates frame peak detect value ginst gmatch). Qed.

  Theorem c12_centroid_only_independent_of_batch_size : forall mi M n fs, (0 < n)%nat ->
    map strip (centroid_only_stream frame peak detect value ginst gmatch mi M n fs) = map (co_one mi M) fs.
  Proof. exact (centroid_only_stream_any_batch_size frame peak detect value ginst gmatch). Qed.

  Theorem c12_centroid_only_permutation : forall mi M fs fs', Permutation fs fs' ->
    Permutation (map strip (co_batch mi M fs)) (map strip (co_batch mi M fs')).
  Proof. exact (centroid_only_perm frame peak detect value ginst gmatch). Qed.

  (* entry b carries frame b's indices; its instance rows are the matches of frame b's own kept
     centroids (a frame without detections: all-NaN rows, its batch-mates untouched) *)
  Theorem c12_centroid_only_indices : forall mi M fs b s,
    nth_error fs b = Some s ->
    exists row, nth_error (co_batch mi M fs) b
                = Some (s_fidx frame s, s_vidx frame s, row,
                        pad_to ginst M (somes (map (gmatch (s_img frame s))
                                                   (kept peak value mi (detect (s_img frame s))))))
                /\ somes row = kept peak value mi (detect (s_img frame s)).
  Proof. exact (centroid_only_indices frame peak detect value ginst gmatch). Qed.

  (* FindInstancePeaksGroundTruth alone, for ANY centroid table: sample b's rows are the matches
     of row b with image b (NaN-padded / cut to M) *)
  Theorem c12_gt_peaks_split_by_sample : forall M rows imgs, length rows = length imgs ->
    gt_parse ginst M (gt_flat frame peak ginst gmatch 0%nat rows imgs) 0%nat 0%nat (length imgs)
    = map (fun r : list (option peak) * frame =>
             pad_to ginst M (row_matches frame peak ginst gmatch (snd r) (fst r))) (combine rows imgs).
  Proof. exact (gt_parse_is_per_row frame peak ginst gmatch). Qed.

  Theorem c12_pad_to_keeps_first : forall M l,
    length (pad_to ginst M l) = M /\ somes (pad_to ginst M l) = firstn M l.
  Proof. intros. split; [apply pad_to_length|apply somes_pad_to]. Qed.

  (* ---- round 4: frames with MORE matched centroids than the M instance rows (a centroid that is detected
     but has no labelled instance of its own is still matched to the nearest labelled instance of its frame,
     so a frame can have more matches than rows).
     The walk in closed form, for ANY flat (sample, instance) list: turn i reads at `gt_pointer all i` = the
     number of entries of ALL earlier samples (every match counted: the pointer moves by the TRUE count),
     takes counts[i] entries and emits exactly M rows (NaN-padded or cut). *)
  Theorem c12_gt_walk_closed_form : forall M (all : list (nat * ginst)) n,
    gt_parse ginst M all 0%nat 0%nat n = map (gt_turn ginst M all) (seq 0%nat n)
    /\ (forall i, length (gt_turn ginst M all i) = M).
  Proof. intros. split; [apply gt_parse_closed_form|intros; apply gt_turn_length]. Qed.

  Theorem c12_gt_pointer_advances_by_true_count : forall (all : list (nat * ginst)) i,
    gt_pointer ginst all 0%nat = 0%nat
    /\ gt_pointer ginst all (S i) = (gt_pointer ginst all i + gt_count ginst all i)%nat.
  Proof. intros. split; [apply gt_pointer_0|apply gt_pointer_step]. Qed.

  (* the rows emitted for sample b are exactly M, and their non-NaN part is a PREFIX of sample b's OWN
     matches (row b with image b) — for every centroid table, i.e. whatever the other samples' counts are,
     larger than M or not *)
  Theorem c12_gt_walk_emits_own_prefix : forall M rows imgs b row img,
    length rows = length imgs -> nth_error rows b = Some row -> nth_error imgs b = Some img ->
    exists out, nth_error (gt_parse ginst M (gt_flat frame peak ginst gmatch 0%nat rows imgs) 0%nat 0%nat (length imgs)) b
                = Some out
                /\ length out = M
                /\ somes out = firstn M (row_matches frame peak ginst gmatch img row)
                /\ out = pad_to ginst M (row_matches frame peak ginst gmatch img row).
  Proof. exact (gt_walk_emits_own_prefix frame peak ginst gmatch). Qed.

  Theorem c12_gt_walk_independent_of_other_counts : forall M rows imgs rows' imgs' b b' row img,
    length rows = length imgs -> length rows' = length imgs' ->
    nth_error rows b = Some row -> nth_error imgs b = Some img ->
    nth_error rows' b' = Some row -> nth_error imgs' b' = Some img ->
    nth_error (gt_parse ginst M (gt_flat frame peak ginst gmatch 0%nat rows imgs) 0%nat 0%nat (length imgs)) b
    = nth_error (gt_parse ginst M (gt_flat frame peak ginst gmatch 0%nat rows' imgs') 0%nat 0%nat (length imgs')) b'.
  Proof. exact (gt_walk_independent_of_other_counts frame peak ginst gmatch). Qed.

  (* the whole centroid-only batch: a frame with at least M matches (over-detection included) reports the
     first M of its OWN matches, no padding, under its own indices — at any position, next to any batch-mates *)
  Theorem c12_centroid_only_overdetecting_frame : forall mi M fs b s,
    nth_error fs b = Some s ->
    (M <= length (somes (map (gmatch (s_img frame s)) (kept peak value mi (detect (s_img frame s))))))%nat ->
    exists row, nth_error (co_batch mi M fs) b
                = Some (s_fidx frame s, s_vidx frame s, row,
                        map Some (firstn M (somes (map (gmatch (s_img frame s))
                                                       (kept peak value mi (detect (s_img frame s)))))))
                /\ somes row = kept peak value mi (detect (s_img frame s)).
  Proof. exact (centroid_only_overdetecting_frame frame peak detect value ginst gmatch). Qed.
End Statements.

Print Assumptions c12_split_by_sample.
Print Assumptions c12_topdown_batch_is_per_frame.
Print Assumptions c12_topdown_independent_of_batch_mates.
Print Assumptions c12_topdown_independent_of_batch_size.
Print Assumptions c12_topdown_permutation.
Print Assumptions c12_topdown_indices.
Print Assumptions c12_topdown_empty_frame.
Print Assumptions c12_max_instances_keeps_highest.
Print Assumptions c12_max_instances_not_exceeded_keeps_all.
Print Assumptions c12_topk_in_decreasing_order.
Print Assumptions c12_centroid_table_up_to_nan_padding.
Print Assumptions c12_bottomup_batch_is_per_frame.
Print Assumptions c12_bottomup_independent_of_batch_mates.
Print Assumptions c12_bottomup_permutation.
Print Assumptions c12_crop_index_own_sample.
Print Assumptions c12_single_batch_is_per_frame.
Print Assumptions c12_centroid_only_batch_is_per_frame.
Print Assumptions c12_centroid_only_independent_of_batch_mates.
Print Assumptions c12_centroid_only_independent_of_batch_size.
Print Assumptions c12_centroid_only_permutation.
Print Assumptions c12_centroid_only_indices.
Print Assumptions c12_gt_peaks_split_by_sample.
Print Assumptions c12_pad_to_keeps_first.
Print Assumptions c12_gt_walk_closed_form.
Print Assumptions c12_gt_pointer_advances_by_true_count.
Print Assumptions c12_gt_walk_emits_own_prefix.
Print Assumptions c12_gt_walk_independent_of_other_counts.
Print Assumptions c12_centroid_only_overdetecting_frame.

(* non-vacuity: a concrete mixed batch through the executable model *)
Example ex_stream :
  run (CStream (Some 1%nat) 2%nat
         [(7%nat, 0%nat, [(0%nat, 1 # 2); (1%nat, 3 # 4)]); (8%nat, 1%nat, []); (9%nat, 0%nat, [(0%nat, 1 # 3)])])
  = RStream [(7%nat, 0%nat, [1%nat]); (9%nat, 0%nat, [0%nat])].
Proof. vm_compute. reflexivity. Qed.

(* centroid-only batch: frame 8 has no detection (all-NaN rows), frame 7 has two centroids with
   max_instances = 1 (the higher one is kept and matched), M = 2 instance rows *)
Example ex_centroid_only :
  run (CGt (Some 1%nat) 2%nat 2%nat
         [(7%nat, 0%nat, [(0%nat, 1 # 2); (1%nat, 3 # 4)]); (8%nat, 1%nat, []); (9%nat, 0%nat, [(0%nat, 1 # 3)])])
  = RGt [(7%nat, 0%nat, [Some 1%nat], [Some 1%nat; None]); (8%nat, 1%nat, [None], [None; None]);
         (9%nat, 0%nat, [Some 0%nat], [Some 0%nat; None])].
Proof. vm_compute. reflexivity. Qed.

(* an over-detecting frame in the MIDDLE of a batch (M = 2 instance rows, batch of 3, no max_instances):
   frame 8 has four detected centroids — two labelled animals (instances 0, 1), one detected-but-unlabelled
   centroid with the highest value (nearest labelled instance: 1) and one more (nearest: 0) — so four matches
   for two rows: it reports its first two, and frames 7 and 9 keep their own rows *)
Example ex_centroid_only_overdetection :
  run (CGtM None 2%nat 3%nat
         [(7%nat, 0%nat, [(0%nat, 1 # 2, Some 0%nat)]);
          (8%nat, 0%nat, [(0%nat, 3 # 4, Some 0%nat); (1%nat, 9 # 10, Some 1%nat); (2%nat, 2 # 3, Some 1%nat);
                          (3%nat, 1 # 3, Some 0%nat)]);
          (9%nat, 1%nat, [(0%nat, 1 # 4, Some 1%nat); (1%nat, 1 # 5, Some 0%nat)])])
  = RGt [(7%nat, 0%nat, [Some 0%nat; None; None; None], [Some 0%nat; None]);
         (8%nat, 0%nat, [Some 0%nat; Some 1%nat; Some 2%nat; Some 3%nat], [Some 0%nat; Some 1%nat]);
         (9%nat, 1%nat, [Some 0%nat; Some 1%nat; None; None], [Some 1%nat; Some 0%nat])].
Proof. vm_compute. reflexivity. Qed.

(* the same frames one by one, and with max_instances = 3 > M (top-3 by value of frame 8: ids 1, 0, 2) *)
Example ex_centroid_only_overdetection_alone :
  run (CGtM None 2%nat 1%nat
         [(7%nat, 0%nat, [(0%nat, 1 # 2, Some 0%nat)]);
          (8%nat, 0%nat, [(0%nat, 3 # 4, Some 0%nat); (1%nat, 9 # 10, Some 1%nat); (2%nat, 2 # 3, Some 1%nat);
                          (3%nat, 1 # 3, Some 0%nat)]);
          (9%nat, 1%nat, [(0%nat, 1 # 4, Some 1%nat); (1%nat, 1 # 5, Some 0%nat)])])
  = RGt [(7%nat, 0%nat, [Some 0%nat], [Some 0%nat; None]);
         (8%nat, 0%nat, [Some 0%nat; Some 1%nat; Some 2%nat; Some 3%nat], [Some 0%nat; Some 1%nat]);
         (9%nat, 1%nat, [Some 0%nat; Some 1%nat], [Some 1%nat; Some 0%nat])].
Proof. vm_compute. reflexivity. Qed.

Example ex_centroid_only_overdetection_topk :
  run (CGtM (Some 3%nat) 2%nat 3%nat
         [(8%nat, 0%nat, [(0%nat, 3 # 4, Some 0%nat); (1%nat, 9 # 10, Some 1%nat); (2%nat, 2 # 3, Some 1%nat);
                          (3%nat, 1 # 3, Some 0%nat)]);
          (7%nat, 0%nat, []);
          (9%nat, 1%nat, [(0%nat, 1 # 4, Some 1%nat); (1%nat, 1 # 5, Some 0%nat)])])
  = RGt [(8%nat, 0%nat, [Some 1%nat; Some 0%nat; Some 2%nat], [Some 1%nat; Some 0%nat]);
         (7%nat, 0%nat, [None; None; None], [None; None]);
         (9%nat, 1%nat, [Some 0%nat; Some 1%nat; None], [Some 1%nat; Some 0%nat])].
Proof. vm_compute. reflexivity. Qed.

(* The theorems above separate the code's walk from one that moves its pointer by the count CLAMPED to M
   (`gt_parse_clamped`, NOT the code): with three matches of sample 0 and M = 2, the clamped walk hands
   sample 0's third match (12) to sample 1 as its first instance and sample 1 loses a row of its own —
   `gt_parse` does not. *)
Theorem c12_clamped_pointer_reads_batch_mates :
  let all := [(0%nat, 10%nat); (0%nat, 11%nat); (0%nat, 12%nat); (1%nat, 20%nat); (1%nat, 21%nat)] in
  gt_parse nat 2%nat all 0%nat 0%nat 2%nat = [[Some 10%nat; Some 11%nat]; [Some 20%nat; Some 21%nat]]
  /\ gt_parse_clamped nat 2%nat all 0%nat 0%nat 2%nat = [[Some 10%nat; Some 11%nat]; [Some 12%nat; Some 20%nat]]
  /\ gt_pointer nat all 1%nat = 3%nat.
Proof. vm_compute. repeat split; reflexivity. Qed.
Print Assumptions c12_clamped_pointer_reads_batch_mates.

(* ================================================================== the per-frame size-matching factor
   (eff_scale) in a batch whose frames have DIFFERENT sizes (model C12/Scale.v, proofs C12/LemmasScale.v).
   `assemble qs` = the five lists `_predict_generator` appends in step for the queue items `qs`
   (`sizematch` = apply_sizematcher on one image, ANY function of that image alone); `samples b` = what the
   zips of the inference models see; `*_scaled` = the three inference models (+ centroid-only) on an
   assembled batch, per-sample computations abstract and taking the sample's factor; `*_scaled_one q` =
   the same for frame q alone (its own image through apply_sizematcher, its own factor). *)
From SV Require Import C12.Scale C12.LemmasScale.

Section ScaleStatements.
  Variables image frame size peak inst ginst : Type.
  Variable sizematch : image -> frame * Q.
  Variable orig_size : image -> size.
  Variable detect : frame -> list peak.
  Variable value : peak -> Q.
  Variable crop_infer_s : frame -> Q -> peak -> inst.
  Variable group_s : frame -> Q -> list peak -> list inst.
  Variable decode_s : frame -> Q -> inst.
  Variable gmatch_s : frame -> Q -> peak -> option ginst.

  Notation assemble := (assemble image frame size sizematch orig_size).
  Notation td := (topdown_scaled frame size peak inst detect value crop_infer_s).
  Notation td1 := (topdown_scaled_one image frame sizematch peak inst detect value crop_infer_s).
  Notation bu := (bottomup_scaled frame size peak inst detect group_s).
  Notation bu1 := (bottomup_scaled_one image frame sizematch peak inst detect group_s).
  Notation si := (single_scaled frame size inst decode_s).
  Notation si1 := (single_scaled_one image frame sizematch inst decode_s).
  Notation co := (centroid_only_scaled frame size peak detect value ginst gmatch_s).
  Notation co1 := (centroid_only_scaled_one image frame sizematch peak detect value ginst gmatch_s).
  Notation stream := (scaled_stream image frame size sizematch orig_size).

  (* the five lists are aligned: entry b of each comes from queue item b *)
  Theorem c12_batch_lists_in_step : forall qs : list (qitem image),
    b_imgs _ _ (assemble qs) = map (fun q => fst (sizematch (q_img _ q))) qs /\
    b_fidx _ _ (assemble qs) = map (q_fidx _) qs /\
    b_vidx _ _ (assemble qs) = map (q_vidx _) qs /\
    b_size _ _ (assemble qs) = map (fun q => orig_size (q_img _ q)) qs /\
    b_eff _ _ (assemble qs) = map (fun q => snd (sizematch (q_img _ q))) qs.
  Proof. exact (assemble_lists image frame size sizematch orig_size). Qed.

  (* the dictionary handed to the models: entry b = (frame_idx, video_idx, eff_scale) of frame b itself,
     for every batch size *)
  Theorem c12_eff_scale_is_the_frames_own : forall n (qs : list (qitem image)), (0 < n)%nat ->
    stream (eff_entries frame size) n qs
    = map (fun q => (q_fidx _ q, q_vidx _ q, snd (sizematch (q_img _ q)))) qs.
  Proof. exact (eff_entries_any_batch_size image frame size sizematch orig_size). Qed.

  (* (a) the batch result is the list of per-frame results, every frame with its own factor *)
  Theorem c12_topdown_scaled_is_per_frame : forall mi qs, td mi (assemble qs) = flat_map (td1 mi) qs.
  Proof. exact (topdown_scaled_is_per_frame image frame size sizematch orig_size peak inst detect value crop_infer_s). Qed.

  Theorem c12_bottomup_scaled_is_per_frame : forall qs, bu (assemble qs) = map bu1 qs.
  Proof. exact (bottomup_scaled_is_per_frame image frame size sizematch orig_size peak inst detect group_s). Qed.

  (* the five c12_single_scaled_* theorems have ONE content: `single_scaled` is `map` of an abstract per-sample
     `decode_s image factor` over `samples (assemble qs)`, i.e. the alignment of the five lists; the inside of
     decode_s (find_global_peaks on the batch) is Flat.global_flat / c12_single_frames_* *)
  Theorem c12_single_scaled_is_per_frame : forall qs, si (assemble qs) = map si1 qs.
  Proof. exact (single_scaled_is_per_frame image frame size sizematch orig_size inst decode_s). Qed.

  Theorem c12_centroid_only_scaled_is_per_frame : forall mi M qs,
    map (strip_padding peak ginst) (co mi M (assemble qs)) = map (co1 mi M) qs.
  Proof. exact (centroid_only_scaled_is_per_frame image frame size sizematch orig_size peak detect value ginst gmatch_s). Qed.

  (* batch-mates *)
  Theorem c12_topdown_scaled_independent_of_batch_mates : forall mi xs1 x xs2,
    td mi (assemble (xs1 ++ [x] ++ xs2)) = td mi (assemble xs1) ++ td mi (assemble [x]) ++ td mi (assemble xs2).
  Proof. exact (topdown_scaled_mates image frame size sizematch orig_size peak inst detect value crop_infer_s). Qed.

  Theorem c12_bottomup_scaled_independent_of_batch_mates : forall xs1 x xs2,
    bu (assemble (xs1 ++ [x] ++ xs2)) = bu (assemble xs1) ++ bu (assemble [x]) ++ bu (assemble xs2).
  Proof. exact (bottomup_scaled_mates image frame size sizematch orig_size peak inst detect group_s). Qed.

  Theorem c12_single_scaled_independent_of_batch_mates : forall xs1 x xs2,
    si (assemble (xs1 ++ [x] ++ xs2)) = si (assemble xs1) ++ si (assemble [x]) ++ si (assemble xs2).
  Proof. exact (single_scaled_mates image frame size sizematch orig_size inst decode_s). Qed.

  (* batch size *)
  Theorem c12_topdown_scaled_independent_of_batch_size : forall mi n qs, (0 < n)%nat ->
    stream (td mi) n qs = flat_map (td1 mi) qs.
  Proof. exact (topdown_scaled_any_batch_size image frame size sizematch orig_size peak inst detect value crop_infer_s). Qed.

  Theorem c12_bottomup_scaled_independent_of_batch_size : forall n qs, (0 < n)%nat ->
    stream bu n qs = map bu1 qs.
  Proof. exact (bottomup_scaled_any_batch_size image frame size sizematch orig_size peak inst detect group_s). Qed.

  Theorem c12_single_scaled_independent_of_batch_size : forall n qs, (0 < n)%nat ->
    stream si n qs = map si1 qs.
  Proof. exact (single_scaled_any_batch_size image frame size sizematch orig_size inst decode_s). Qed.

  (* order *)
  Theorem c12_topdown_scaled_permutation : forall mi qs qs', Permutation qs qs' ->
    Permutation (td mi (assemble qs)) (td mi (assemble qs')).
  Proof. exact (topdown_scaled_perm image frame size sizematch orig_size peak inst detect value crop_infer_s). Qed.

  Theorem c12_bottomup_scaled_permutation : forall qs qs', Permutation qs qs' ->
    Permutation (bu (assemble qs)) (bu (assemble qs')).
  Proof. exact (bottomup_scaled_perm image frame size sizematch orig_size peak inst detect group_s). Qed.

  Theorem c12_single_scaled_permutation : forall qs qs', Permutation qs qs' ->
    Permutation (si (assemble qs)) (si (assemble qs')).
  Proof. exact (single_scaled_perm image frame size sizematch orig_size inst decode_s). Qed.

  (* every record carries the indices of one queued frame and was computed from THAT frame's size-matched
     image with THAT frame's factor *)
  Theorem c12_topdown_scaled_indices : forall mi qs f v insts,
    In (f, v, insts) (td mi (assemble qs)) ->
    exists q, In q qs /\ f = q_fidx _ q /\ v = q_vidx _ q /\
      insts = map (crop_infer_s (fst (sizematch (q_img _ q))) (snd (sizematch (q_img _ q))))
                  (kept peak value mi (detect (fst (sizematch (q_img _ q))))) /\
      kept peak value mi (detect (fst (sizematch (q_img _ q)))) <> [].
  Proof. exact (topdown_scaled_indices image frame size sizematch orig_size peak inst detect value crop_infer_s). Qed.

  Theorem c12_single_scaled_indices : forall qs b q, nth_error qs b = Some q ->
    nth_error (si (assemble qs)) b
    = Some (q_fidx _ q, q_vidx _ q, decode_s (fst (sizematch (q_img _ q))) (snd (sizematch (q_img _ q)))).
  Proof. exact (single_scaled_indices image frame size sizematch orig_size inst decode_s). Qed.

  Theorem c12_bottomup_scaled_indices : forall qs b q, nth_error qs b = Some q ->
    nth_error (bu (assemble qs)) b
    = Some (q_fidx _ q, q_vidx _ q,
            group_s (fst (sizematch (q_img _ q))) (snd (sizematch (q_img _ q))) (detect (fst (sizematch (q_img _ q))))).
  Proof. exact (bottomup_scaled_indices image frame size sizematch orig_size peak inst detect group_s). Qed.
End ScaleStatements.

(* "one factor for the whole batch" (the factor of the last frame read) makes a frame's factor depend
   on its batch-mates: frame 7 gets 2 alone and 3 next to frame 8; the lists built in step give 2 and 3 *)
Theorem c12_one_factor_per_batch_depends_on_batch_mates :
  let ents := fun qs => eff_entries nat nat (assemble_last_eff nat nat nat toy_sizematch (fun n => n) qs) in
  ents [toy_q 2 7] = [(7%nat, 0%nat, inject_Z 2)] /\
  ents [toy_q 2 7; toy_q 3 8] = [(7%nat, 0%nat, inject_Z 3); (8%nat, 0%nat, inject_Z 3)] /\
  eff_entries nat nat (assemble nat nat nat toy_sizematch (fun n => n) [toy_q 2 7; toy_q 3 8])
  = [(7%nat, 0%nat, inject_Z 2); (8%nat, 0%nat, inject_Z 3)].
Proof. exact last_eff_depends_on_batch_mates. Qed.

Print Assumptions c12_batch_lists_in_step.
Print Assumptions c12_eff_scale_is_the_frames_own.
Print Assumptions c12_topdown_scaled_is_per_frame.
Print Assumptions c12_bottomup_scaled_is_per_frame.
Print Assumptions c12_single_scaled_is_per_frame.
Print Assumptions c12_centroid_only_scaled_is_per_frame.
Print Assumptions c12_topdown_scaled_independent_of_batch_mates.
Print Assumptions c12_bottomup_scaled_independent_of_batch_mates.
Print Assumptions c12_single_scaled_independent_of_batch_mates.
Print Assumptions c12_topdown_scaled_independent_of_batch_size.
Print Assumptions c12_bottomup_scaled_independent_of_batch_size.
Print Assumptions c12_single_scaled_independent_of_batch_size.
Print Assumptions c12_topdown_scaled_permutation.
Print Assumptions c12_bottomup_scaled_permutation.
Print Assumptions c12_single_scaled_permutation.
Print Assumptions c12_topdown_scaled_indices.
Print Assumptions c12_single_scaled_indices.
Print Assumptions c12_bottomup_scaled_indices.
Print Assumptions c12_one_factor_per_batch_depends_on_batch_mates.

(* non-vacuity: a 96x96 and a 144x160 frame size-matched to 144x160 in one batch of the executable entry:
   factors 3/2 and 1 next to the frames' own indices and original sizes *)
Example ex_mixed_sizes :
  srun (CEff (Some 144%Z) (Some 160%Z) 2%nat [(0%nat, 0%nat, (96%Z, 96%Z)); (0%nat, 1%nat, (144%Z, 160%Z))])
  = [[(0%nat, 0%nat, 144 # 96, (96%Z, 96%Z)); (0%nat, 1%nat, 1, (144%Z, 160%Z))]].
Proof. vm_compute. reflexivity. Qed.

(* ================================================================== round 4 (review of the proof half): the paths that
   were inside abstract per-sample functions or fixed by fiat, now explicit (model C12/Flat.v, proofs C12/LemmasFlat.v;
   harness entry `frun`, evaluated against the real Single-instance / BottomUp inference models on every run).

   Domain note (review finding 5): every theorem of this file that quantifies over `mi : option nat` holds of the MODEL
   for `Some 0` too, but the model is tied to the code for max_instances = None or >= 1 only (with max_instances = 0
   CentroidCrop builds (0, 2) rows that `_generate_crops` does not skip and crop_bboxes raises IndexError); the harness
   declares "max_instances >= 1" in its assumptions. *)
From SV Require Import C12.Flat C12.LemmasFlat.

Section FlatStatements.
  Variables frame chan rpeak off peak : Type.
  Variable cmaps : frame -> list chan.
  Variable rough : chan -> option rpeak.
  Variable plain : rpeak -> peak.
  Variable offset : chan -> rpeak -> off.
  Variable add : peak -> off -> peak.
  Variable lpeak : Type.
  Variable lrough : frame -> list (nat * rpeak).
  Variable lplain : nat -> rpeak -> lpeak.
  Variable lrefine : chan -> nat -> rpeak -> lpeak.

  Notation gflat := (global_flat frame chan rpeak off peak cmaps rough plain offset add).
  Notation gone := (global_one frame chan rpeak off peak cmaps rough plain offset add).
  Notation sframes := (single_frames frame chan rpeak off peak cmaps rough plain offset add).
  Notation sframes1 := (single_frames_one frame chan rpeak off peak cmaps rough plain offset add).
  Notation lflat := (local_flat frame chan rpeak cmaps lpeak lrough lplain lrefine).
  Notation lone := (local_one frame chan rpeak cmaps lpeak lrough lplain lrefine).

  (* find_global_peaks, every step explicit: maps flattened to (samples*channels), rough peak per entry,
     valid_idx = positions of the non-NaN entries (so every position depends on the NaN pattern of ALL samples),
     patches gathered at valid_idx, offsets scattered back at valid_idx, reshape.  The batch result is every frame's
     channels by themselves, with and without refinement, including the early return when the WHOLE batch is NaN. *)
  Theorem c12_global_peaks_flat_is_per_frame : forall refinement C xs,
    (forall y, In y xs -> length (cmaps y) = C) ->
    gflat refinement C xs = map (gone refinement) xs.
  Proof. apply global_flat_is_per_frame. Qed.

  (* entry (b, c) of the reshaped result: the rough peak of channel c of sample b plus the offset computed on a patch
     of THAT map — whatever the other samples' NaN pattern *)
  Theorem c12_global_peaks_entry_refined_on_own_map : forall C xs b c x ch p,
    (forall y, In y xs -> length (cmaps y) = C) ->
    nth_error xs b = Some x -> nth_error (cmaps x) c = Some ch -> rough ch = Some p ->
    exists row, nth_error (gflat true C xs) b = Some row /\
                nth_error row c = Some (Some (add (plain p) (offset ch p))).
  Proof. apply global_flat_entry. Qed.

  (* the closed form of Batch.v (`single_batch`, patch index b * C + c written down directly; the theorem
     c12_single_batch_is_per_frame above is about that closed form and is definitional) is what the explicit path computes *)
  Theorem c12_global_peaks_flat_is_closed_form : forall C xs,
    (forall y, In y xs -> length (cmaps y) = C) ->
    gflat true C xs = single_batch frame rpeak peak chan cmaps rough (fun ch p => add (plain p) (offset ch p)) C xs.
  Proof. apply global_flat_is_single_batch. Qed.

  (* find_local_peaks with refinement (the `detect` of the top-down centroid stage and of bottom-up): the crop index
     box_sample_inds = sample * channels + channel (c12_crop_index_own_sample: `patch_source`) applied to the batch's flat
     rough peak list gives the flat list (Batch.flat_peaks) of every sample's OWN peaks, each refined on the sample's own
     map of the peak's channel; so `detect := local_one refinement` in the top-down / bottom-up theorems above *)
  Theorem c12_local_peaks_refined_on_own_map : forall refinement C xs,
    (forall y, In y xs -> length (cmaps y) = C) ->
    (forall y c p, In y xs -> In (c, p) (lrough y) -> (c < C)%nat) ->
    lflat refinement C xs
    = map (fun e => (fst e, Some (snd e))) (flat_peaks frame lpeak (lone refinement) 0%nat xs).
  Proof. apply local_flat_is_per_sample. Qed.

  Theorem c12_local_peaks_split_by_sample : forall refinement C xs b x,
    (forall y, In y xs -> length (cmaps y) = C) ->
    (forall y c p, In y xs -> In (c, p) (lrough y) -> (c < C)%nat) ->
    nth_error xs b = Some x ->
    map snd (filter (fun e => fst e =? b) (lflat refinement C xs)) = map Some (lone refinement x).
  Proof. apply local_flat_split. Qed.

  (* ---- SingleInstancePredictor: records (frame_idx, video_idx, [instance]) of a batch; fx = false is the code of
     the pinned tree (before fix 8463f22, historic), fx = true the CURRENT tree (repair C12_F62 = 8463f22) *)
  Theorem c12_single_frames_is_per_frame : forall fx rf C (fs : list (src frame)),
    (forall s, In s fs -> length (cmaps (s_img frame s)) = C) ->
    sframes fx rf C fs = flat_map (sframes1 fx rf) fs.
  Proof. apply single_frames_is_per_frame. Qed.

  Theorem c12_single_frames_independent_of_batch_mates : forall fx rf C (xs1 : list (src frame)) x xs2,
    (forall s, In s (xs1 ++ [x] ++ xs2) -> length (cmaps (s_img frame s)) = C) ->
    sframes fx rf C (xs1 ++ [x] ++ xs2) = sframes fx rf C xs1 ++ sframes fx rf C [x] ++ sframes fx rf C xs2.
  Proof. apply single_frames_mates. Qed.

  Theorem c12_single_frames_independent_of_batch_size : forall fx rf C n (fs : list (src frame)), (0 < n)%nat ->
    (forall s, In s fs -> length (cmaps (s_img frame s)) = C) ->
    single_frames_stream frame chan rpeak off peak cmaps rough plain offset add fx rf C n fs
    = flat_map (sframes1 fx rf) fs.
  Proof. apply single_frames_any_batch_size. Qed.

  Theorem c12_single_frames_permutation : forall fx rf C (fs fs' : list (src frame)),
    (forall s, In s fs -> length (cmaps (s_img frame s)) = C) -> Permutation fs fs' ->
    Permutation (sframes fx rf C fs) (sframes fx rf C fs').
  Proof. apply single_frames_perm. Qed.

  Theorem c12_single_frames_indices : forall fx rf C (fs : list (src frame)) f v insts,
    (forall s, In s fs -> length (cmaps (s_img frame s)) = C) ->
    In (f, v, insts) (sframes fx rf C fs) ->
    exists s, In s fs /\ f = s_fidx frame s /\ v = s_vidx frame s /\ insts = [gone rf (s_img frame s)].
  Proof. apply single_frames_indices. Qed.

  (* "frames with no detections yield no instances", single-instance models.  Unrepaired code: FALSE (finding F62,
     c12_single_empty_frame_refuted below).  Strongest true statement: a record whose frame is outside the selector
     (selector_F62 = code unrepaired AND every node NaN) comes from a frame with at least one detection. *)
  Theorem c12_single_empty_frame_partial : forall fx rf C (fs : list (src frame)) f v insts,
    (forall s, In s fs -> length (cmaps (s_img frame s)) = C) ->
    In (f, v, insts) (sframes fx rf C fs) ->
    exists s, In s fs /\ f = s_fidx frame s /\ v = s_vidx frame s /\
      (selector_F62 peak fx (gone rf (s_img frame s)) = false ->
       exists ch p, In ch (cmaps (s_img frame s)) /\ rough ch = Some p).
  Proof. apply single_empty_frame_partial. Qed.

  (* with the repair the clause holds in full: no record for the empty frame, batch-mates' records unchanged *)
  Theorem c12_single_empty_frame_repaired : forall rf C (xs1 : list (src frame)) x xs2,
    (forall s, In s (xs1 ++ [x] ++ xs2) -> length (cmaps (s_img frame s)) = C) ->
    (forall ch, In ch (cmaps (s_img frame x)) -> rough ch = None) ->
    sframes true rf C [x] = [] /\
    sframes true rf C (xs1 ++ [x] ++ xs2) = sframes true rf C (xs1 ++ xs2).
  Proof. apply single_empty_frame_repaired. Qed.
End FlatStatements.

(* F62: single-instance model, unrepaired code, batch of two frames: frame 8 has no detection on either node and still
   yields one (all-NaN) instance; with the repair it yields no record and frame 7's record is the same *)
Theorem c12_single_empty_frame_refuted :
  let sf := fun fx => single_frames sframe (nat * bool) nat nat (nat * option nat) (fun x => x) h_rough
                        (fun p => (p, None)) (fun ch _ => fst ch) (fun i o => (fst i, Some o)) fx true 2%nat
                        (map mk_ssrc [(7%nat, 0%nat, [(0%nat, true); (1%nat, false)]);
                                      (8%nat, 0%nat, [(2%nat, false); (3%nat, false)])]) in
  (forall ch, In ch [(2%nat, false); (3%nat, false)] -> h_rough ch = None) /\
  sf false = [(7%nat, 0%nat, [[Some (0%nat, Some 0%nat); None]]); (8%nat, 0%nat, [[None; None]])] /\
  sf true = [(7%nat, 0%nat, [[Some (0%nat, Some 0%nat); None]])].
Proof.
  split; [|split]; [|vm_compute; reflexivity|vm_compute; reflexivity].
  intros ch [<-|[<-|[]]]; reflexivity.
Qed.

Section BottomUpStatements.
  Variables frame peak inst : Type.
  Variable detect : frame -> list peak.
  Variable group : frame -> list peak -> list inst.
  Variable visible : inst -> bool.
  Variable score : inst -> Q.
  Notation buf := (bottomup_frames frame peak inst detect group visible score).
  Notation buf1 := (bottomup_frames_one frame peak inst detect group visible score).
  Notation limit := (bu_limit inst score).

  (* BottomUpPredictor records after _make_labeled_frames_from_generator (all-NaN instances dropped, max_instances) *)
  Theorem c12_bottomup_frames_is_per_frame : forall mi (fs : list (src frame)), buf mi fs = map (buf1 mi) fs.
  Proof. apply bottomup_frames_is_per_frame. Qed.

  Theorem c12_bottomup_frames_independent_of_batch_mates : forall mi (xs1 : list (src frame)) x xs2,
    buf mi (xs1 ++ [x] ++ xs2) = buf mi xs1 ++ buf mi [x] ++ buf mi xs2.
  Proof. apply bottomup_frames_mates. Qed.

  Theorem c12_bottomup_frames_independent_of_batch_size : forall mi n (fs : list (src frame)), (0 < n)%nat ->
    bottomup_frames_stream frame peak inst detect group visible score mi n fs = map (buf1 mi) fs.
  Proof. apply bottomup_frames_any_batch_size. Qed.

  Theorem c12_bottomup_frames_permutation : forall mi (fs fs' : list (src frame)), Permutation fs fs' ->
    Permutation (buf mi fs) (buf mi fs').
  Proof. apply bottomup_frames_perm. Qed.

  Theorem c12_bottomup_frames_indices : forall mi (fs : list (src frame)) b s, nth_error fs b = Some s ->
    nth_error (buf mi fs) b
    = Some (s_fidx frame s, s_vidx frame s,
            bu_frame inst visible score mi (group (s_img frame s) (detect (s_img frame s)))).
  Proof. apply bottomup_frames_indices. Qed.

  (* max_instances = k (bottom-up: stable descending sort by score + slice, per frame): the min(k, n) highest-scoring
     instances, in decreasing order; k >= n keeps all (re-ordered) *)
  Theorem c12_bottomup_max_instances_keeps_highest : forall k l,
    exists dropped,
      Permutation l (limit (Some k) l ++ dropped) /\ length (limit (Some k) l) = Nat.min k (length l) /\
      (forall a b, In a (limit (Some k) l) -> In b dropped -> Qle (score b) (score a)).
  Proof. apply bu_limit_keeps_highest. Qed.

  Theorem c12_bottomup_max_instances_in_decreasing_order : forall k l a b t1 t2,
    limit (Some k) l = t1 ++ a :: b :: t2 -> Qle (score b) (score a).
  Proof. apply bu_limit_sorted. Qed.

  Theorem c12_bottomup_max_instances_not_exceeded_keeps_all : forall k l,
    (length l <= k)%nat -> Permutation l (limit (Some k) l).
  Proof. apply bu_limit_all. Qed.

  (* a frame without peaks yields a record without instances and leaves its batch-mates' records unchanged.
     `forall img, group img [] = []` (PAFScorer.predict on no peaks returns no instance) is a hypothesis about the
     per-sample code here (generic `group`); it is DISCHARGED from property C08's model of PAFScorer.predict in the
     round-6 block below: c12_bottomup_empty_frame_from_c08 *)
  Theorem c12_bottomup_empty_frame : forall mi (xs1 : list (src frame)) x xs2,
    (forall img, group img [] = []) -> detect (s_img frame x) = [] ->
    buf mi [x] = [(s_fidx frame x, s_vidx frame x, [])] /\
    buf mi (xs1 ++ [x] ++ xs2) = buf mi xs1 ++ [(s_fidx frame x, s_vidx frame x, [])] ++ buf mi xs2.
  Proof. apply bottomup_empty_frame. Qed.
End BottomUpStatements.

(* centroid-only top-down: the empty frame (review finding 4 i) *)
Theorem c12_centroid_only_empty_frame : forall (frame peak : Type) (detect : frame -> list peak) (value : peak -> Q)
    (ginst : Type) (gmatch : frame -> peak -> option ginst) mi M (fs : list (src frame)) b s,
  nth_error fs b = Some s -> detect (s_img frame s) = [] ->
  exists row, nth_error (centroid_only_batch frame peak detect value ginst gmatch mi M fs) b
              = Some (s_fidx frame s, s_vidx frame s, row, repeat None M)
              /\ somes row = [].
Proof. exact centroid_only_empty_frame. Qed.

Print Assumptions c12_global_peaks_flat_is_per_frame.
Print Assumptions c12_global_peaks_entry_refined_on_own_map.
Print Assumptions c12_global_peaks_flat_is_closed_form.
Print Assumptions c12_local_peaks_refined_on_own_map.
Print Assumptions c12_local_peaks_split_by_sample.
Print Assumptions c12_single_frames_is_per_frame.
Print Assumptions c12_single_frames_independent_of_batch_mates.
Print Assumptions c12_single_frames_independent_of_batch_size.
Print Assumptions c12_single_frames_permutation.
Print Assumptions c12_single_frames_indices.
Print Assumptions c12_single_empty_frame_partial.
Print Assumptions c12_single_empty_frame_repaired.
Print Assumptions c12_single_empty_frame_refuted.
Print Assumptions c12_bottomup_frames_is_per_frame.
Print Assumptions c12_bottomup_frames_independent_of_batch_mates.
Print Assumptions c12_bottomup_frames_independent_of_batch_size.
Print Assumptions c12_bottomup_frames_permutation.
Print Assumptions c12_bottomup_frames_indices.
Print Assumptions c12_bottomup_max_instances_keeps_highest.
Print Assumptions c12_bottomup_max_instances_in_decreasing_order.
Print Assumptions c12_bottomup_max_instances_not_exceeded_keeps_all.
Print Assumptions c12_bottomup_empty_frame.
Print Assumptions c12_centroid_only_empty_frame.

(* non-vacuity.  Bottom-up, batch of 3 (batch size 3), max_instances 1: frame 8 has no peak; frame 7 has peaks 0 1 2 and
   instances 0 (score 1/2), 1 (3/4); frame 9 one instance *)
Example ex_bottomup_frames :
  frun (CBu (Some 1%nat) 3%nat
          [(7%nat, 0%nat, ([0%nat; 1%nat; 2%nat], [(0%nat, 1 # 2); (1%nat, 3 # 4)]));
           (8%nat, 1%nat, ([], []));
           (9%nat, 0%nat, ([0%nat; 1%nat], [(0%nat, 1 # 3)]))])
  = RBu [[(7%nat, 0%nat, [0%nat; 1%nat; 2%nat], [1%nat]); (8%nat, 1%nat, [], []); (9%nat, 0%nat, [0%nat; 1%nat], [0%nat])]].
Proof. vm_compute. reflexivity. Qed.

(* single instance, refinement on, 2 nodes, batch size 2: the NaN node of frame 7 shifts valid_idx of frame 9's nodes
   (flat positions 2 and 3 are gathered as crops 1 and 2) and every node is still refined on its own map; frame 8
   (second batch) is all-NaN: no crop call, one all-NaN instance (unrepaired) *)
Example ex_single_frames :
  frun (CSi false true 2%nat 2%nat
          [(7%nat, 0%nat, [(70%nat, true); (71%nat, false)]); (9%nat, 0%nat, [(90%nat, true); (91%nat, true)]);
           (8%nat, 1%nat, [(80%nat, false); (81%nat, false)])])
  = RSi [([0%nat; 2%nat; 3%nat],
          [(7%nat, 0%nat, [[Some (70%nat, Some 70%nat); None]]);
           (9%nat, 0%nat, [[Some (90%nat, Some 90%nat); Some (91%nat, Some 91%nat)]])]);
         ([], [(8%nat, 1%nat, [[None; None]])])].
Proof. vm_compute. reflexivity. Qed.

Example ex_box_sample_inds :
  frun (CBox 3%nat [[0%nat; 2%nat]; []; [1%nat; 1%nat; 2%nat]]) = RBox [0%nat; 2%nat; 7%nat; 7%nat; 8%nat].
Proof. vm_compute. reflexivity. Qed.

(* ================================================================== round 6: the bottom-up empty-frame clause WITHOUT
   the hypothesis `group img [] = []` — derived from property C08's model of PAFScorer.predict (C08/Grouping.v,
   imported read-only; tied to the real PAFScorer by harness/props/c08.py incl. empty frames).  C12/EmptyFromC08.v:
   C12's `group` is instantiated by `group_c08 img ps` = the (row, score) pairs of
   `predict_sample lsa fx big n_nodes edges mip mls ps (line_scores img ps)`; peak = (channel, payload) as in C08,
   `line_scores` (score_paf_lines, C03: not modelled in C08 either) any function of the frame and ITS peaks.
   Remaining hypotheses: the skeleton passed PAFScorer's construction (`toposort edges = Some _`) and the
   assignment oracle meets C08's `lsa_contract` (a theorem for the brute-force oracle: `_bf` variant). *)
From SV Require Import C17.Toposort C08.Grouping C08.Lemmas C12.EmptyFromC08.

(* PAFScorer.predict on one sample (C08's model): no match passes `>= min_line_scores` -> no instance, no exception —
   whatever the peaks, scores, min_instance_peaks, oracle *)
Theorem c12_paf_grouping_no_accepted_match_no_instances : forall (P : Type) lsa fx big n_nodes edges m mls sorted
    (peaks : list (nat * P)) scores ms,
  toposort edges = Some sorted ->
  match_sample lsa fx big (length edges) (sample_cands edges peaks scores) = Ok ms ->
  filter (accept mls) ms = [] ->
  predict_sample lsa fx big n_nodes edges m mls peaks scores = Ok ([], []).
Proof. intros P. apply (@predict_no_accepted_match P). Qed.

(* no candidate connection at all (no edge with peaks at both ends) *)
Theorem c12_paf_grouping_no_candidates_no_instances : forall (P : Type) lsa fx big n_nodes edges m mls sorted
    (peaks : list (nat * P)) scores,
  lsa_contract lsa -> toposort edges = Some sorted -> sample_cands edges peaks scores = [] ->
  predict_sample lsa fx big n_nodes edges m mls peaks scores = Ok ([], []).
Proof. intros P. apply (@predict_no_candidates P). Qed.

(* no peak: `forall img, group img [] = []` for C08's model *)
Theorem c12_paf_grouping_no_peaks_no_instances : forall (P : Type) lsa fx big n_nodes edges m mls sorted scores,
  lsa_contract lsa -> toposort edges = Some sorted ->
  predict_sample lsa fx big n_nodes edges m mls (@nil (nat * P)) scores = Ok ([], []).
Proof. intros P. apply (@predict_no_peaks P). Qed.

Section BottomUpFromC08Statements.
  Variables frame P : Type.
  Variable detect : frame -> list (nat * P).
  Variable line_scores : frame -> list (nat * P) -> list Grouping.score.
  Variables (fx : bool) (big : Q) (n_nodes : nat) (edges : list edge) (m : mip) (mls : Q).
  Notation buf8 lsa := (bottomup_frames frame (nat * P) (inst08 P) detect
                          (group_c08 frame P line_scores lsa fx big n_nodes edges m mls) (visible08 P) (score08 P)).

  (* a frame without peaks yields a record without instances under its own indices and leaves its batch-mates'
     records unchanged — no hypothesis about the per-sample grouping code *)
  Theorem c12_bottomup_empty_frame_from_c08 : forall lsa sorted mi (xs1 : list (src frame)) x xs2,
    lsa_contract lsa -> toposort edges = Some sorted ->
    detect (s_img frame x) = [] ->
    buf8 lsa mi [x] = [(s_fidx frame x, s_vidx frame x, [])] /\
    buf8 lsa mi (xs1 ++ [x] ++ xs2) = buf8 lsa mi xs1 ++ [(s_fidx frame x, s_vidx frame x, [])] ++ buf8 lsa mi xs2.
  Proof. intros lsa. apply bottomup_empty_frame_c08. Qed.

  (* with the executable brute-force oracle the contract is discharged as well *)
  Theorem c12_bottomup_empty_frame_from_c08_bf : forall sorted mi (xs1 : list (src frame)) x xs2,
    toposort edges = Some sorted ->
    detect (s_img frame x) = [] ->
    buf8 lsa_bf mi [x] = [(s_fidx frame x, s_vidx frame x, [])] /\
    buf8 lsa_bf mi (xs1 ++ [x] ++ xs2)
    = buf8 lsa_bf mi xs1 ++ [(s_fidx frame x, s_vidx frame x, [])] ++ buf8 lsa_bf mi xs2.
  Proof. intros sorted mi xs1 x xs2. apply bottomup_empty_frame_c08. apply lsa_bf_contract. Qed.

  (* and it is not the adapter's `Err -> []` branch that empties the frame: PAFScorer raises nothing there *)
  Theorem c12_bottomup_empty_frame_no_exception : forall lsa sorted, lsa_contract lsa -> toposort edges = Some sorted ->
    forall img, predict_sample lsa fx big n_nodes edges m mls (@nil (nat * P)) (line_scores img []) = Ok ([], []).
  Proof. intros lsa. apply group_c08_no_peaks_no_exception. Qed.

  (* stronger: a frame WITH peaks none of whose matches passes min_line_scores (NaN included) — same record *)
  Theorem c12_bottomup_no_accepted_match_from_c08 : forall lsa sorted mi (xs1 : list (src frame)) x xs2 ms,
    toposort edges = Some sorted ->
    match_sample lsa fx big (length edges)
      (sample_cands edges (detect (s_img frame x)) (line_scores (s_img frame x) (detect (s_img frame x)))) = Ok ms ->
    filter (accept mls) ms = [] ->
    buf8 lsa mi [x] = [(s_fidx frame x, s_vidx frame x, [])] /\
    buf8 lsa mi (xs1 ++ [x] ++ xs2) = buf8 lsa mi xs1 ++ [(s_fidx frame x, s_vidx frame x, [])] ++ buf8 lsa mi xs2.
  Proof. intros lsa. apply bottomup_no_accepted_match_c08. Qed.
End BottomUpFromC08Statements.

Print Assumptions c12_paf_grouping_no_accepted_match_no_instances.
Print Assumptions c12_paf_grouping_no_candidates_no_instances.
Print Assumptions c12_paf_grouping_no_peaks_no_instances.
Print Assumptions c12_bottomup_empty_frame_from_c08.
Print Assumptions c12_bottomup_empty_frame_from_c08_bf.
Print Assumptions c12_bottomup_empty_frame_no_exception.
Print Assumptions c12_bottomup_no_accepted_match_from_c08.

(* non-vacuity: skeleton 0 -> 1, batch of 3, brute-force oracle, current tree (fixed_F3 = true, big = 1e6),
   min_line_scores 1/20.  Frame 7: two peaks per node, line scores .9 .1 .2 .8 -> two instances (the adapter
   does produce instances); frame 8: no peak -> empty record (c12_bottomup_empty_frame_from_c08_bf); frame 9: one
   peak per node, NaN line score -> empty record (c12_bottomup_no_accepted_match_from_c08).  max_instances 1
   keeps frame 7's .9 instance. *)
Definition exframe8 := (list (nat * nat) * list Grouping.score)%type.
Definition exbuf8 := bottomup_frames exframe8 (nat * nat) (inst08 nat) (@fst _ _)
   (group_c08 exframe8 nat (fun x _ => snd x) lsa_bf true 1000000 2%nat [(0%nat, 1%nat)] (MipInt 0) (1 # 20))
   (visible08 nat) (score08 nat).
Definition exfs8 : list (src exframe8) :=
  [ {| s_img := ([(0, 10); (0, 11); (1, 20); (1, 21)]%nat, [Some (9 # 10); Some (1 # 10); Some (2 # 10); Some (8 # 10)]);
       s_fidx := 7%nat; s_vidx := 0%nat |};
    {| s_img := ([], []); s_fidx := 8%nat; s_vidx := 1%nat |};
    {| s_img := ([(0, 30); (1, 40)]%nat, [None]); s_fidx := 9%nat; s_vidx := 0%nat |} ].
Example ex_bottomup_from_c08 :
  toposort [(0%nat, 1%nat)] = Some [0%nat] /\
  exbuf8 None exfs8 = [(7%nat, 0%nat, [([Some 10%nat; Some 20%nat], 9 # 10); ([Some 11%nat; Some 21%nat], 8 # 10)]);
                       (8%nat, 1%nat, []); (9%nat, 0%nat, [])] /\
  exbuf8 (Some 1%nat) exfs8 = [(7%nat, 0%nat, [([Some 10%nat; Some 20%nat], 9 # 10)]); (8%nat, 1%nat, []); (9%nat, 0%nat, [])].
Proof. vm_compute. repeat split; reflexivity. Qed.

(* ================================================================== round 6: max_instances WITH the tie-breaking.
   The earlier theorems say: the kept ones are k highest (every kept >= every dropped), in decreasing order.  That
   leaves the choice among EQUAL scores open.  The bottom-up code is literally
   `sorted(instances, key=score, reverse=True)[:k]` (CPython: stable, equal keys keep their input order);
   C12/SortModel.v `sorted_desc` is that sort, and the evaluated selection model `topk` (Batch.v; `bu_limit`/`bu_frame`
   of Flat.v, `kept` of the top-down path) equals the sort followed by the slice.  (Top-down: torch.topk's order among
   equal values is not specified by torch — trusted base, the harness skips equal values there; for the bottom-up
   records the tie order is part of the code's semantics and compared as sets only on equal scores.) *)
From SV Require Import C12.SortModel C12.LemmasSort.

Section MaxInstancesTieBreaking.
  Variable inst : Type.
  Variable visible : inst -> bool.
  Variable score : inst -> Q.

  (* `sorted_desc` is THE stable descending sort: a permutation, decreasing, equal scores keep the input order
     (these three determine the list) *)
  Theorem c12_sorted_desc_is_stable_descending_sort : forall l,
    Permutation l (sorted_desc inst score l) /\
    (forall a b t1 t2, sorted_desc inst score l = t1 ++ a :: b :: t2 -> Qle (score b) (score a)) /\
    (forall v, with_key inst score v (sorted_desc inst score l) = with_key inst score v l).
  Proof.
    intros l. split; [apply sorted_desc_perm|]. split; [apply sorted_desc_decreasing|].
    intros v. apply sorted_desc_stable.
  Qed.

  (* the selection model = sort + slice, every k, every list (equality of lists: order and ties included) *)
  Theorem c12_topk_is_stable_sort_then_slice : forall k l,
    topk inst score k l = firstn k (sorted_desc inst score l).
  Proof. apply topk_is_sorted_prefix. Qed.

  (* the bottom-up record of a frame with max_instances = k: drop all-NaN instances, sort, slice *)
  Theorem c12_bottomup_max_instances_is_stable_sort_then_slice : forall k l,
    bu_frame inst visible score (Some k) l = firstn k (sorted_desc inst score (filter visible l)).
  Proof. apply bu_frame_is_sorted_slice. Qed.

  (* the tie-breaking in words: of the instances with one score value v, the kept ones are the first j of the frame
     (in PAFScorer order), in that order — never a later one instead of an earlier one *)
  Theorem c12_max_instances_ties_keep_earliest : forall v k l,
    exists j, with_key inst score v (topk inst score k l) = firstn j (with_key inst score v l).
  Proof. apply topk_ties_keep_earliest. Qed.
End MaxInstancesTieBreaking.

Print Assumptions c12_sorted_desc_is_stable_descending_sort.
Print Assumptions c12_topk_is_stable_sort_then_slice.
Print Assumptions c12_bottomup_max_instances_is_stable_sort_then_slice.
Print Assumptions c12_max_instances_ties_keep_earliest.

(* non-vacuity, on the evaluated entry: scores 1/2 3/4 1/2 3/4, max_instances 3 -> ids 1 3 0 (the later 1/2 is dropped) *)
Example ex_bottomup_tie_breaking :
  frun (CBu (Some 3%nat) 1%nat
          [(7%nat, 0%nat, ([0%nat; 1%nat], [(0%nat, 1 # 2); (1%nat, 3 # 4); (2%nat, 1 # 2); (3%nat, 3 # 4)]))])
  = RBu [[(7%nat, 0%nat, [0%nat; 1%nat], [1%nat; 3%nat; 0%nat])]] /\
  sorted_desc (nat * Q) snd [(0%nat, 1 # 2); (1%nat, 3 # 4); (2%nat, 1 # 2); (3%nat, 3 # 4)]
  = [(1%nat, 3 # 4); (3%nat, 3 # 4); (0%nat, 1 # 2); (2%nat, 1 # 2)].
Proof. vm_compute. split; reflexivity. Qed.

(* ================================================================== round 6: "the per-sample code depends on the sample
   alone" as a THEOREM for the peak-finding stage.  Until here `detect : frame -> list peak` was a parameter and the
   batch call was `flat_peaks detect 0 xs` — per-sample by typing.  Property C06's `local_peaks_p cms thr p`
   (C06/Peaks.v, read-only; tied to the real find_local_peaks by harness/props/c06.py) models the BATCH call: dims read
   off the batch, torch.where over (sample, y, x, channel), refinement on entry sample*C+channel of the flattened batch.
   C12/DetectFromC06.v defines `detect06 thr p chans` := that model run on the one-sample batch [chans] and proves that
   the batch call equals `flat_peaks detect06`, order included.  Remaining typing assumptions: the network
   (`cms_of`) and `group`. *)
From SV Require Import C06.Peaks C06.Lemmas C12.DetectFromC06.

(* find_local_peaks on a batch (C06's model) = the per-sample finder applied to every sample, tagged, concatenated *)
Theorem c12_batch_peak_finding_is_per_sample : forall cms thr p C H W,
  dims cms = (C, H, W) -> C06.Lemmas.rect C H W cms ->
  map untag (local_peaks_p cms thr p) = flat_peaks (list cmap) speak (detect06 thr p) 0%nat cms.
Proof. exact batch_peaks_are_per_sample. Qed.

(* the split `peaks[(peak_sample_inds == b)]` of the batch call = the peaks of sample b computed alone *)
Theorem c12_batch_peak_finding_split_is_own_sample : forall cms thr p C H W b chans,
  dims cms = (C, H, W) -> C06.Lemmas.rect C H W cms -> nth_error cms b = Some chans ->
  split_sample speak (map untag (local_peaks_p cms thr p)) b = detect06 thr p chans.
Proof. exact batch_peaks_split_by_sample. Qed.

Section BottomUpOnC06Statements.
  Variables frame inst : Type.
  Variable cms_of : frame -> list cmap.
  Variable group : frame -> list speak -> list inst.
  Variables (thr : Q) (p : nat).

  (* the bottom-up inference model with C06's batch call in place of flat_peaks IS the C12 model instantiated with
     the per-sample finder, hence per-frame; `stackable` = the samples' maps have one shape (torch.stack) *)
  Theorem c12_bottomup_on_c06_is_the_model : forall fs, stackable frame cms_of fs ->
    bottomup_batch06 frame inst cms_of group thr p fs
    = bottomup_batch frame speak inst (fun x => detect06 thr p (cms_of x)) group fs.
  Proof. apply bottomup_batch06_is_model. Qed.

  Theorem c12_bottomup_on_c06_is_per_frame : forall fs, stackable frame cms_of fs ->
    bottomup_batch06 frame inst cms_of group thr p fs = map (bottomup_one06 frame inst cms_of group thr p) fs.
  Proof. apply bottomup_batch06_is_per_frame. Qed.

  Theorem c12_bottomup_on_c06_independent_of_batch_mates : forall xs1 x xs2, stackable frame cms_of (xs1 ++ [x] ++ xs2) ->
    bottomup_batch06 frame inst cms_of group thr p (xs1 ++ [x] ++ xs2)
    = map (bottomup_one06 frame inst cms_of group thr p) xs1 ++ [bottomup_one06 frame inst cms_of group thr p x]
      ++ map (bottomup_one06 frame inst cms_of group thr p) xs2.
  Proof. apply bottomup_batch06_mates. Qed.
End BottomUpOnC06Statements.

Section TopDownOnC06Statements.
  Variables frame inst : Type.
  Variable cms_of : frame -> list cmap.
  Variable crop_infer : frame -> speak -> inst.
  Variables (thr : Q) (p : nat).

  (* top-down: CentroidCrop.forward + _generate_crops + FindInstancePeaks with C06's batch call for the centroid peaks
     (`centroid_rows06`: Batch.centroid_rows with `flat_peaks detect` replaced by `local_peaks_p` on the stacked maps)
     IS the C12 top-down model instantiated with the per-sample finder, hence per-frame *)
  Theorem c12_topdown_on_c06_is_the_model : forall mi fs, stackable frame cms_of fs ->
    topdown_batch06 frame inst cms_of crop_infer thr p mi fs
    = topdown_batch frame speak inst (fun x => detect06 thr p (cms_of x)) value06 crop_infer mi fs.
  Proof. apply topdown_batch06_is_model. Qed.

  Theorem c12_topdown_on_c06_is_per_frame : forall mi fs, stackable frame cms_of fs ->
    topdown_batch06 frame inst cms_of crop_infer thr p mi fs
    = flat_map (topdown_one frame speak inst (fun x => detect06 thr p (cms_of x)) value06 crop_infer mi) fs.
  Proof. apply topdown_batch06_is_per_frame. Qed.
End TopDownOnC06Statements.

Print Assumptions c12_topdown_on_c06_is_the_model.
Print Assumptions c12_topdown_on_c06_is_per_frame.
Print Assumptions c12_batch_peak_finding_is_per_sample.
Print Assumptions c12_batch_peak_finding_split_is_own_sample.
Print Assumptions c12_bottomup_on_c06_is_the_model.
Print Assumptions c12_bottomup_on_c06_is_per_frame.
Print Assumptions c12_bottomup_on_c06_independent_of_batch_mates.

(* non-vacuity: 3 samples x 2 channels x 3 x 3, threshold 1/2, patch 3; the middle sample has no peak.  The batch
   call reports sample 0's two peaks, then sample 2's one; each sample alone reports the same *)
Definition ex6_s0 : list cmap := [ [[0;0;0];[0;1;0];[0;0;0]] ; [[3;1;0];[0;0;0];[0;0;0]] ]%Q.
Definition ex6_s1 : list cmap := [ [[0;0;0];[0;0;0];[0;0;0]] ; [[0;0;0];[0;0;0];[0;0;0]] ]%Q.
Definition ex6_s2 : list cmap := [ [[0;0;0];[0;0;0];[0;0;0]] ; [[0;0;0];[0;0;0];[0;0;2]] ]%Q.
Example ex_batch_peak_finding_per_sample :
  dims [ex6_s0; ex6_s1; ex6_s2] = (2%nat, 3%nat, 3%nat) /\
  map untag (local_peaks_p [ex6_s0; ex6_s1; ex6_s2] (1 # 2) 3)
  = [(0%nat, (Some (1 # 4, 0 # 4), 3, 1%nat)); (0%nat, (Some (1, 1), 1, 0%nat)); (2%nat, (Some (4 # 2, 4 # 2), 2, 1%nat))]%Q /\
  detect06 (1 # 2) 3 ex6_s0 = [(Some (1 # 4, 0 # 4), 3, 1%nat); (Some (1, 1), 1, 0%nat)]%Q /\
  detect06 (1 # 2) 3 ex6_s1 = [] /\
  detect06 (1 # 2) 3 ex6_s2 = [(Some (4 # 2, 4 # 2), 2, 1%nat)]%Q.
Proof. vm_compute. repeat split; reflexivity. Qed.

Example ex_stackable : stackable (list cmap) (fun x => x)
  (map (fun x => {| s_img := x; s_fidx := 0%nat; s_vidx := 0%nat |}) [ex6_s0; ex6_s1; ex6_s2]).
Proof.
  exists 2%nat, 3%nat, 3%nat. split; [reflexivity|].
  repeat constructor.
Qed.

(* ================================================================== round 6: single-instance models on property C07's
   model of the BATCH call find_global_peaks (`global_peaks_p`, C07/Global.v, read-only; tied to the real function by
   harness/props/c07.py): argmax per map, flattening to samples*channels, valid_idx, patches from `concat cms`, scatter,
   reshape.  C12/SingleFromC07.v builds the SingleInstancePredictor records (`Flat.si_record`, as in `frun CSi`) on it.
   `same_channels` = the samples can be stacked.  Remaining typing assumption: the network (`cms_of`). *)
From SV Require Import C07.Global C12.SingleFromC07.

Section SingleOnC07Statements.
  Variable frame : Type.
  Variable cms_of : frame -> list cmap.
  Variables (fixed : bool) (thr : Q) (refine : option nat).
  Notation sf7 := (single_frames07 frame cms_of fixed thr refine).
  Notation so7 := (single_one07 frame cms_of fixed thr refine).

  (* the records of a batch = every frame's maps alone (rough argmax + refinement on its own map), both trees *)
  Theorem c12_single_on_c07_is_per_frame : forall fx fs, same_channels frame cms_of fs ->
    sf7 fx fs = flat_map (so7 fx) fs.
  Proof. apply single_frames07_is_per_frame. Qed.

  Theorem c12_single_on_c07_independent_of_batch_mates : forall fx xs1 x xs2,
    same_channels frame cms_of (xs1 ++ [x] ++ xs2) ->
    sf7 fx (xs1 ++ [x] ++ xs2) = flat_map (so7 fx) xs1 ++ so7 fx x ++ flat_map (so7 fx) xs2.
  Proof. apply single_frames07_mates. Qed.

  (* empty frame (no map of the frame reaches the threshold), CURRENT tree: no record, batch-mates' records their own *)
  Theorem c12_single_on_c07_empty_frame : forall xs1 x xs2, same_channels frame cms_of (xs1 ++ [x] ++ xs2) ->
    (forall m, In m (cms_of (s_img frame x)) -> fst (global_rough fixed m thr) = None) ->
    so7 true x = [] /\
    sf7 true (xs1 ++ [x] ++ xs2) = flat_map (so7 true) xs1 ++ flat_map (so7 true) xs2.
  Proof. apply single07_empty_frame. Qed.

  (* the same frame in the PINNED tree: one instance, every node NaN (finding F62, fixed in /repo 8463f22) *)
  Theorem c12_single_on_c07_empty_frame_pinned : forall x,
    (forall m, In m (cms_of (s_img frame x)) -> fst (global_rough fixed m thr) = None) ->
    so7 false x = [(s_fidx frame x, s_vidx frame x, [row07 frame cms_of fixed thr refine (s_img frame x)])] /\
    all_nan npeak (row07 frame cms_of fixed thr refine (s_img frame x)) = true.
  Proof. apply single07_empty_frame_pinned. Qed.
End SingleOnC07Statements.

Print Assumptions c12_single_on_c07_is_per_frame.
Print Assumptions c12_single_on_c07_independent_of_batch_mates.
Print Assumptions c12_single_on_c07_empty_frame.
Print Assumptions c12_single_on_c07_empty_frame_pinned.

(* non-vacuity: 3 frames x 2 channels x 3 x 3, threshold 1/2, patch 3, current argmax (C07 fixed = true); frame 8 is
   empty: no record in the current tree, one all-NaN instance in the pinned tree; frame 9's channel 0 is NaN *)
Definition ex7_fs : list (src (list cmap)) :=
  [ {| s_img := ex6_s0; s_fidx := 7%nat; s_vidx := 0%nat |}; {| s_img := ex6_s1; s_fidx := 8%nat; s_vidx := 1%nat |};
    {| s_img := ex6_s2; s_fidx := 9%nat; s_vidx := 0%nat |} ].
Example ex_single_on_c07 :
  same_channels (list cmap) (fun x => x) ex7_fs /\
  single_frames07 (list cmap) (fun x => x) true (1 # 2) (Some 3%nat) true ex7_fs
  = [(7%nat, 0%nat, [[Some (1, 1, 1); Some (1 # 4, 0 # 4, 3)]]); (9%nat, 0%nat, [[None; Some (4 # 2, 4 # 2, 2)]])]%Q /\
  single_frames07 (list cmap) (fun x => x) true (1 # 2) (Some 3%nat) false ex7_fs
  = [(7%nat, 0%nat, [[Some (1, 1, 1); Some (1 # 4, 0 # 4, 3)]]); (8%nat, 1%nat, [[None; None]]);
     (9%nat, 0%nat, [[None; Some (4 # 2, 4 # 2, 2)]])]%Q.
Proof. split; [repeat constructor|]. vm_compute. split; reflexivity. Qed.
