(* Scale.v (C12) — executable model (definitions only) of how `Predictor._predict_generator`
   assembles ONE batch from the queue and how the inference models consume the per-frame
   size-matching factor `eff_scale`:

     sleap_nn/inference/predictors.py:261-333   the loop over one batch
          frame["image"], eff_scale = apply_sizematcher(frame["image"], max_h, max_w)
          eff_scales.append(eff_scale); imgs.append(...); fidxs.append(...); vidxs.append(...);
          org_szs.append(...)                                   five lists appended IN STEP
     sleap_nn/inference/single_instance.py      peaks[b] / inputs["eff_scale"][b]
     sleap_nn/inference/topdown.py              _generate_crops: zip(rows, images, frame_idx,
          video_idx, orig_size, eff_scale); FindInstancePeaks / eff_scale of the crop's sample;
          return_crops=False table / eff_scale[b]; FindInstancePeaksGroundTruth * and / eff_scale[b]
     sleap_nn/inference/bottomup.py             p / inputs["eff_scale"][idx]  (idx of the sample)

   `sizematch` (apply_sizematcher on one queued image: the size-matched image and the factor) is
   ANY function of that image alone.  The batch is a record of parallel lists; the inference
   models see the zip of those lists (`samples`).  What they compute per sample is delegated to
   the batch models of C12/Batch.v, instantiated at samples = (size-matched image, factor). *)
From Coq Require Import List Arith Bool QArith.
Import ListNotations.
From SV Require Import C12.Batch.

Section ScaleModel.
  Variables image frame size : Type.
  Variable sizematch : image -> frame * Q.      (* apply_sizematcher: (image, eff_scale) *)
  Variable orig_size : image -> size.           (* frame["orig_size"] *)

  (* what the reader thread queued for one frame *)
  Record qitem := { q_img : image; q_fidx : nat; q_vidx : nat }.

  (* the five lists of the loop *)
  Record batch := { b_imgs : list frame; b_fidx : list nat; b_vidx : list nat;
                    b_size : list size; b_eff : list Q }.

  Definition empty_batch : batch := {| b_imgs := []; b_fidx := []; b_vidx := []; b_size := []; b_eff := [] |}.

  (* one turn of `for _ in range(batch_size)` *)
  Definition push (b : batch) (q : qitem) : batch :=
    {| b_imgs := b_imgs b ++ [fst (sizematch (q_img q))];
       b_fidx := b_fidx b ++ [q_fidx q];
       b_vidx := b_vidx b ++ [q_vidx q];
       b_size := b_size b ++ [orig_size (q_img q)];
       b_eff := b_eff b ++ [snd (sizematch (q_img q))] |}.

  Definition assemble (qs : list qitem) : batch := fold_left push qs empty_batch.

  (* the (mis)construction "one factor for the whole batch": the factor of the last frame read *)
  Definition assemble_last_eff (qs : list qitem) : batch :=
    let b := assemble qs in
    {| b_imgs := b_imgs b; b_fidx := b_fidx b; b_vidx := b_vidx b; b_size := b_size b;
       b_eff := repeat (last (b_eff b) 1) (length (b_imgs b)) |}.

  (* what the inference models' zips see: sample b = (image b, factor b) with indices b *)
  Definition samples (b : batch) : list (src (frame * Q)) :=
    map (fun r : frame * (Q * (nat * nat)) =>
           {| s_img := (fst r, fst (snd r)); s_fidx := fst (snd (snd r)); s_vidx := snd (snd (snd r)) |})
        (combine (b_imgs b) (combine (b_eff b) (combine (b_fidx b) (b_vidx b)))).

  (* the per-frame meaning: the frame alone through apply_sizematcher *)
  Definition sample_of (q : qitem) : src (frame * Q) :=
    {| s_img := sizematch (q_img q); s_fidx := q_fidx q; s_vidx := q_vidx q |}.

  (* ---- the three inference models on an assembled batch; per-sample computations abstract *)
  Variables peak inst : Type.
  Variable detect : frame -> list peak.
  Variable value : peak -> Q.
  Variable crop_infer_s : frame -> Q -> peak -> inst.     (* crop + FindInstancePeaks, / eff_scale of the sample *)
  Variable group_s : frame -> Q -> list peak -> list inst. (* PAF grouping, / eff_scale[idx] *)
  Variable decode_s : frame -> Q -> inst.                  (* single instance: global peaks / eff_scale[b] *)
  Variable ginst : Type.
  Variable gmatch_s : frame -> Q -> peak -> option ginst.  (* GT matching: centroids * and / eff_scale[b] *)

  Definition detect' (x : frame * Q) : list peak := detect (fst x).
  Definition crop_infer' (x : frame * Q) (p : peak) : inst := crop_infer_s (fst x) (snd x) p.
  Definition group' (x : frame * Q) (ps : list peak) : list inst := group_s (fst x) (snd x) ps.
  Definition gmatch' (x : frame * Q) (p : peak) : option ginst := gmatch_s (fst x) (snd x) p.

  Definition topdown_scaled (mi : option nat) (b : batch) : list (nat * nat * list inst) :=
    topdown_batch (frame * Q) peak inst detect' value crop_infer' mi (samples b).
  Definition bottomup_scaled (b : batch) : list (nat * nat * list inst) :=
    bottomup_batch (frame * Q) peak inst detect' group' (samples b).
  Definition single_scaled (b : batch) : list (nat * nat * inst) :=
    map (fun s : src (frame * Q) => (s_fidx _ s, s_vidx _ s, decode_s (fst (s_img _ s)) (snd (s_img _ s)))) (samples b).
  Definition centroid_only_scaled (mi : option nat) (M : nat) (b : batch) :=
    centroid_only_batch (frame * Q) peak detect' value ginst gmatch' mi M (samples b).

  (* per-frame meanings *)
  Definition topdown_scaled_one (mi : option nat) (q : qitem) : list (nat * nat * list inst) :=
    topdown_one (frame * Q) peak inst detect' value crop_infer' mi (sample_of q).
  Definition bottomup_scaled_one (q : qitem) : nat * nat * list inst :=
    bottomup_one (frame * Q) peak inst detect' group' (sample_of q).
  Definition single_scaled_one (q : qitem) : nat * nat * inst :=
    (q_fidx q, q_vidx q, decode_s (fst (sizematch (q_img q))) (snd (sizematch (q_img q)))).
  Definition centroid_only_scaled_one (mi : option nat) (M : nat) (q : qitem) :=
    centroid_only_one (frame * Q) peak detect' value ginst gmatch' mi M (sample_of q).

  (* _predict_generator: one assembled batch per chunk of batch_size queue items *)
  Definition scaled_stream {R} (run_batch : batch -> list R) (batch_size : nat) (qs : list qitem) : list R :=
    flat_map (fun ch => run_batch (assemble ch)) (chunks (length qs) batch_size qs).

  (* the (frame_idx, video_idx, eff_scale) entries of the dictionaries handed to the models *)
  Definition eff_entries (b : batch) : list (nat * nat * Q) :=
    map (fun s : src (frame * Q) => (s_fidx _ s, s_vidx _ s, snd (s_img _ s))) (samples b).
End ScaleModel.

(* ---- harness entry: images are their sizes (H, W); apply_sizematcher as modelled for C02
   (ratios, `if hratio > wratio`, eff_scale); output = per assembled batch, per sample, the entries
   (frame_idx, video_idx, eff_scale, orig_size) of the dictionary handed to the inference model *)
From Coq Require Import ZArith.
From SV Require Import C02.Decode.

Definition hw_sizematch (mh mw : option Z) (hw : Z * Z) : (Z * Z) * Q :=
  let g := sizematch (fst hw) (snd hw) mh mw in ((sm_h g, sm_w g), sm_eff g).

Inductive scase := CEff (mh mw : option Z) (batch_size : nat) (fs : list (nat * nat * (Z * Z))).  (* (frame_idx, video_idx, (H, W)) *)

Definition srun (c : scase) : list (list (nat * nat * Q * (Z * Z))) :=
  match c with
  | CEff mh mw bs fs =>
      let qs := map (fun r : nat * nat * (Z * Z) => {| q_img := snd r; q_fidx := fst (fst r); q_vidx := snd (fst r) |}) fs in
      map (fun ch => let b := assemble (Z * Z) (Z * Z) (Z * Z) (hw_sizematch mh mw) (fun x => x) ch in
                     map (fun r : src ((Z * Z) * Q) * (Z * Z) =>
                            (s_fidx _ (fst r), s_vidx _ (fst r), snd (s_img _ (fst r)), snd r))     (* orig_size entry *)
                         (combine (samples (Z * Z) (Z * Z) b) (b_size _ _ b)))
          (chunks (length qs) bs qs)
  end.

From SV Require Import Base.Render.
Definition rsres (r : list (list (nat * nat * Q * (Z * Z)))) : rdr :=
  rlist (rlist (fun e : nat * nat * Q * (Z * Z) =>
                  rlist (fun x => x) [rnat (fst (fst (fst e))); rnat (snd (fst (fst e))); rQ (snd (fst e));
                                      rZ (fst (snd e)); rZ (snd (snd e))])) r.
