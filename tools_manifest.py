#!/usr/bin/env python3
"""Regenerate MANIFEST.json from harness/manifest_data.py (single source of truth)."""
import json, sys
sys.path.insert(0, "/verif")
from harness.manifest_data import CHECKS, NOT_APPLICABLE, NOTES
props = [json.loads(l) for l in open("/verif/properties.jsonl")]
ids = [p["id"] for p in props]
checks = []
for pid in ids:
    if pid in CHECKS:
        c = CHECKS[pid]
        checks.append({
            "property_id": pid,
            "quick_cmd": f"./check {pid} --tier quick",
            "thorough_cmd": f"./check {pid} --tier thorough",
            "evidence_file": f"/verif/evidence/{pid}.json",
            "replay_cmd_template": f"./check {pid} --replay {{path}}",
            "engine": "coq-model+correspondence",
            "level_claimed": {"category": "proof", "text": c["text"], "design_ref": c.get("design_ref", "DESIGN.md §5 " + pid)},
            "level_note": c["note"],
            "technique": c["technique"],
        })
na = [{"property_id": pid, "reason": NOT_APPLICABLE.get(pid, "check not built yet in this round; see DESIGN.md §5 for the planned model")}
      for pid in ids if pid not in CHECKS]
m = {
    "version": 1,
    "setup_cmd": "./setup.sh",
    "hooks": {
        "guard": "SLEAP_NN_VERIF",
        "enable": "no hooks are compiled into /repo: the harness observes the code from outside (subclassing, wrapping, injected queue objects); SLEAP_NN_VERIF is reserved and unused",
        "baseline_off_cmd": "cd /repo && /venv/bin/python -m pytest -ra -q -p no:cacheprovider --timeout=900 --continue-on-collection-errors",
        "source_commits": [],
        "add_only": True,
    },
    "engines": [{"name": "coq-model+correspondence", "path": "/verif/coq, /verif/harness",
                 "serves_properties": [c["property_id"] for c in checks],
                 "kind_free_text": "Coq 8.16.1 theorems over executable Gallina models; models tied to /repo by per-run differential execution (vm_compute vs the Python implementation) and by ast translators whose output is re-checked by Coq on every run"}],
    "checks": checks,
    "notes": NOTES,
    "not_applicable": na,
}
json.dump(m, open("/verif/MANIFEST.json", "w"), indent=1)
print("checks:", [c["property_id"] for c in checks], "not_applicable:", [n["property_id"] for n in na])
