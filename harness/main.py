"""Entry point: ./check Cxx [--tier quick|thorough] [--replay file]."""
import argparse
import importlib
import os
import sys
import traceback

from . import core


def main():
    ap = argparse.ArgumentParser()
    ap.add_argument("prop")
    ap.add_argument("--tier", default=os.environ.get("VERIF_TIER", "quick"), choices=["quick", "thorough"])
    ap.add_argument("--replay", default=None)
    a = ap.parse_args()
    seed = int(os.environ.get("VERIF_SEED", "0") or 0)
    prop = a.prop.upper()
    mod = importlib.import_module(f"harness.props.{prop.lower()}")
    if a.replay:
        a.replay = os.path.abspath(a.replay)     # cwd changes below
    # one run per property at a time: a check rebuilds its Coq targets and (C11, C13, C19, C20)
    # regenerates coq/theories/Gen/* from the repository under test, so two concurrent runs of the
    # same property (e.g. against two different worktrees) must not interleave
    import fcntl
    lock_dir = core.VERIF / ".scratch"
    lock_dir.mkdir(exist_ok=True)
    lock = open(lock_dir / f"lock_{prop}", "w")
    fcntl.flock(lock, fcntl.LOCK_EX)
    run = core.Run(prop, a.tier, seed)
    scratch = core.scratch_dir("sv_cwd_")
    os.chdir(scratch)          # repo code writes into cwd by default; never dirty /repo or /verif
    # watchdog: a changed implementation may loop for ever; the check must still end and report.
    # Quick checks need 20 s - 3 min on this machine (x3 under heavy load), thorough ones <= 20 min.
    import signal
    limit = float(os.environ.get("VERIF_WATCHDOG_S", "1500" if a.tier == "quick" else "5400"))

    class CheckTimeout(Exception):
        pass

    def on_alarm(signum, frame):
        raise CheckTimeout(f"the check did not finish within {limit:.0f} s (an implementation call does not return?)")
    signal.signal(signal.SIGALRM, on_alarm)
    signal.setitimer(signal.ITIMER_REAL, limit)
    try:
        if a.replay:
            rc = mod.replay(run, a.replay)
        else:
            rc = mod.check(run)
        signal.setitimer(signal.ITIMER_REAL, 0)
    except Exception:
        signal.setitimer(signal.ITIMER_REAL, 0)
        traceback.print_exc()
        run.obligation("check ran to completion", False, traceback.format_exc()[-1500:])
        rc = run.finish()
    finally:
        os.chdir("/")
        import shutil
        shutil.rmtree(scratch, ignore_errors=True)
    sys.exit(rc)


if __name__ == "__main__":
    main()
