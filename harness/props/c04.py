"""C04 — images and keypoints stay registered through all geometric preprocessing.

Model: coq/theories/C04/Geometry.v (per-axis affine content map A / keypoint map K
plus exact integer sizes for size matcher, resizer, stride pad, crop, over-crop +
re-crop; list model of the augmentation wrappers; find_instance_crop_size).
Theorems: coq/theories/C04/Props.v.

Tie (every run): the real functions of sleap_nn/data/{resizing,instance_cropping,
augmentation,custom_datasets}.py are run on generated inputs whose images are RAMP
images (channel 0 = original x, channel 1 = original y, channel 2 = 1 = valid mask;
for grayscale paths three single-channel frames).  Compared with the model: output
sizes / eff_scale / paddings / bbox corners (exact or 1e-9), keypoints (float32
tolerance) and the CONTENT map fitted from the ramp of the real output image.

Oracle (the property itself, model-independent): output sizes are the requested
ones, the valid region is a top-left anchored rectangle (padding bottom/right only,
original pixels untouched by stride padding), the image content that was at a
keypoint (located through the ramp) is found within < 1 output px (per axis) of the
keypoint the code returns, intensity augmentation returns the keypoints unchanged,
geometric augmentation moves content and keypoints by the same transform.
"""
from __future__ import annotations

import json
import math
from fractions import Fraction as F

from .. import core

PROP_FILES = [core.THEORIES / "C04" / "Props.v"]
PREAMBLE = ("From SV Require Import C04.Geometry.\nFrom Coq Require Import List ZArith QArith.\n"
            "Import ListNotations.\nOpen Scope Q_scope.\n")
RENDER = "ropt (rtriple (rlist rZ) (rlist rQ) (rlist (rlist (ropt (rpair rQ rQ)))))"

KP_ATOL, KP_RTOL = 2e-4, 3e-6       # float32 keypoint arithmetic on coordinates up to ~1000
CONTENT_TOL = 0.12                  # measured vs model content position (output px) + fit residual
SEL_F11 = "resize_total_factor_ge_3"
SEL_F11B = "resize_rounded_size_far_edge"
SEL_F11C = "resize_offset_amplified_by_augmentation"
SEL_F04K = "kornia_affine_align_corners_nonsquare"
SEL_F04P = "kornia_augmenter_datapipe_align_corners_nonsquare"
OP_NAMES = {"RandomAffine": "affine", "RandomErasing": "erase", "RandomMixUpV2": "mixup",
            "RandomUniformNoise": "uniform", "RandomGaussianNoise": "gaussian", "RandomContrast": "contrast",
            "RandomBrightness": "brightness"}
OP_COQ = {"erase": "OpErase", "mixup": "OpMixup", "uniform": "OpUniformNoise", "gaussian": "OpGaussianNoise",
          "contrast": "OpContrast", "brightness": "OpBrightness"}

PRIMES = [17, 19, 23, 29, 31, 37, 41, 43, 47, 53, 59, 61, 67, 71, 73, 79, 83, 89, 97, 101, 103, 107, 109,
          113, 127, 131, 137, 139, 149, 151, 157, 163, 167, 173, 179, 181, 191, 193, 197, 199]
SCALES = [F(1, 4), F(3, 8), F(1, 2), F(5, 8), F(3, 4), F(1), F(1), F(5, 4), F(3, 2), F(2), F(5, 2), F(3), F(4)]
STRIDES = [1, 2, 8, 16, 32]


# =============================================================================
# exact Python mirror of the affine bookkeeping (only used for the selectors and
# for locating where the model says the content is; cross-checked against Coq)
def hp(s):
    return (s, (s - 1) / 2)


def comp(g, f):
    return (g[0] * f[0], g[0] * f[1] + g[1])


def ap(m, x):
    return m[0] * x + m[1]


def py_sizematcher(H, W, mh, mw):
    mh = H if mh is None else mh
    mw = W if mw is None else mw
    if H == mh and W == mw:
        return (H, W, H, W, F(1))
    hr, wr = F(mh, H), F(mw, W)
    eff = wr if hr > wr else hr
    th, tw = round(H * eff), round(W * eff)          # Fraction.__round__ is half-to-even
    if th <= 0 or tw <= 0:
        return None
    return (th, tw, mh, mw, eff)


SEL_MARGIN = F(9, 10)      # classification of a MEASURED failure (>= 1 px) allows 0.1 px of measurement tolerance


def py_pipe(H, W, mh, mw, s):
    """Python mirror of Geometry.pipe_pre's bookkeeping: factor k, exactness, original sides, SIZE DEFECTS
    (actual minus nominal side of the resized content, from the four sizes only)."""
    r = py_sizematcher(H, W, mh, mw)
    if r is None:
        return None
    th, tw, oh, ow, eff = r
    nh = oh if s == 1 else math.floor(oh * s)
    nw = ow if s == 1 else math.floor(ow * s)
    if nh <= 0 or nw <= 0:
        return None
    k = eff * s
    exact = (F(tw) == W * eff and F(th) == H * eff and F(nw) == ow * s and F(nh) == oh * s)
    return {"k": k, "exact": exact, "nx": W, "ny": H,
            "dx": F(tw * nw, ow) - W * k, "dy": F(th * nh, oh) - H * k}


def py_perr(d, k, n, x):
    """Geometry.perr: closed form of the pipeline's registration error, d * t + (k - 1)/2"""
    return d * ((x + F(1, 2)) / n) + (k - 1) / 2


def py_band(d, k, t, margin=F(1)):
    """Geometry.band for margin = 1:  d*t >= (3-k)/2  or  d*t <= -(1+k)/2  (sizes / position only)"""
    return d * t >= (2 * margin + 1 - k) / 2 or d * t <= -(2 * margin - 1 + k) / 2


def py_selectors(H, W, mh, mw, s, pts, margin=SEL_MARGIN):
    """-> (F11?, [F11b? per keypoint]) for the pipelines size matcher -> resizer -> (crop/pad).
    margin=1 is exactly Geometry.selector_F11b (cross-checked against Coq per keypoint)."""
    pp = py_pipe(H, W, mh, mw, s)
    if pp is None:
        return False, [False] * len(pts)
    f11 = pp["k"] >= 3
    out = []
    for p in pts:
        if p is None or f11 or pp["exact"]:
            out.append(False)
            continue
        out.append(py_band(pp["dx"], pp["k"], (p[0] + F(1, 2)) / pp["nx"], margin)
                   or py_band(pp["dy"], pp["k"], (p[1] + F(1, 2)) / pp["ny"], margin))
    return f11, out


def py_sel_f11c(H, W, mh, mw, s, m, pts, margin=SEL_MARGIN):
    """Geometry.selector_F11c per keypoint (margin = 1): outside F11 / F11b(margin 1 in Coq; here the same margin
    as the classification), the closed-form pipeline error multiplied by the linear part of m reaches `margin`."""
    pp = py_pipe(H, W, mh, mw, s)
    if pp is None:
        return [False] * len(pts)
    f11, f11b = py_selectors(H, W, mh, mw, s, pts, margin)
    out = []
    for p, b in zip(pts, f11b):
        if p is None or f11 or b:
            out.append(False)
            continue
        ex, ey = py_perr(pp["dx"], pp["k"], pp["nx"], p[0]), py_perr(pp["dy"], pp["k"], pp["ny"], p[1])
        out.append(abs(m[0] * ex + m[1] * ey) >= margin or abs(m[3] * ex + m[4] * ey) >= margin)
    return out


def mat_comp(g, f):
    a, b, tx, c, d, ty = g
    a2, b2, tx2, c2, d2, ty2 = f
    return [a * a2 + b * c2, a * b2 + b * d2, a * tx2 + b * ty2 + tx,
            c * a2 + d * c2, c * b2 + d * d2, c * tx2 + d * ty2 + ty]


def mat_xy(m, p):
    return (m[0] * p[0] + m[1] * p[1] + m[2], m[3] * p[0] + m[4] * p[1] + m[5])


def py_warp_content(fixed, H, W, m):
    """where kornia's RandomAffine (align_corners=False unless fixed) puts the image content"""
    if fixed:
        return list(m)
    D = [F(W, W - 1), F(0), F(-1, 2), F(0), F(H, H - 1), F(-1, 2)]
    Di = [F(W - 1, W), F(0), F(W - 1, 2 * W), F(0), F(H - 1, H), F(H - 1, 2 * H)]
    return mat_comp(D, mat_comp(list(m), Di))


def py_sel_f04k(H, W, m, p):
    c, k = mat_xy(py_warp_content(False, H, W, m), p), mat_xy(m, p)
    return max(abs(c[0] - k[0]), abs(c[1] - k[1])) >= F(9, 10)


# =============================================================================
# ramp images and content measurement
def ramp3(torch, H, W):
    ys, xs = torch.meshgrid(torch.arange(H, dtype=torch.float32), torch.arange(W, dtype=torch.float32),
                            indexing="ij")
    return torch.stack([xs, ys, torch.ones_like(xs)])[None]          # (1,3,H,W)


def ramp_gray(torch, H, W):
    r = ramp3(torch, H, W)
    return [r[:, 0:1], r[:, 1:2], r[:, 2:3]]                           # three (1,1,H,W) frames


def as_xym(np, imgs):
    """imgs: one (1,3,h,w) tensor or three (1,1,h,w) tensors -> X, Y, M float64 arrays (h,w)."""
    if isinstance(imgs, (list, tuple)):
        a = [im[0, 0].double().numpy() for im in imgs]
        return a[0], a[1], a[2]
    a = imgs[0].double().numpy()
    return a[0], a[1], a[2]


def fit_content(np, X, Y, M, src_hw, unit=1.0):
    """Fit the affine map output pixel (j,i) -> source position (x,y) on the fully valid
    interior of a transformed ramp; returns the forward map source -> output as
    (L 2x2, t 2, n_used, resid_out_px) or None when there is not enough valid interior.
    Pixels whose footprint touches the source border (where the resampling kernels are
    clamped and the ramp is no longer linear) are left out of the fit."""
    H, W = src_hw
    X, Y = X / unit, Y / unit          # the mask channel is 1.0 in both encodings
    valid = M > 0.999
    ii, jj = np.nonzero(valid)
    if len(ii) < 6:
        return None
    keep = np.ones(len(ii), bool)
    sol = None
    for _ in range(3):
        if keep.sum() < 6 or len(set(ii[keep])) < 2 or len(set(jj[keep])) < 2:
            return None
        Amat = np.stack([jj[keep], ii[keep], np.ones(keep.sum())], 1).astype(float)
        sx, *_ = np.linalg.lstsq(Amat, X[ii[keep], jj[keep]], rcond=None)
        sy, *_ = np.linalg.lstsq(Amat, Y[ii[keep], jj[keep]], rcond=None)
        J = np.array([[sx[0], sx[1]], [sy[0], sy[1]]])
        if abs(np.linalg.det(J)) < 1e-9:
            return None
        f = max(1.0, float(np.linalg.svd(J, compute_uv=False).max()))
        t = 0.75 + 1.25 * f
        xs, ys = X[ii, jj], Y[ii, jj]
        keep = (xs >= t) & (xs <= W - 1 - t) & (ys >= t) & (ys <= H - 1 - t)
        sol = (sx, sy, J)
    if keep.sum() < 6 or len(set(ii[keep])) < 2 or len(set(jj[keep])) < 2:
        return None
    Amat = np.stack([jj[keep], ii[keep], np.ones(keep.sum())], 1).astype(float)
    sx, *_ = np.linalg.lstsq(Amat, X[ii[keep], jj[keep]], rcond=None)
    sy, *_ = np.linalg.lstsq(Amat, Y[ii[keep], jj[keep]], rcond=None)
    J = np.array([[sx[0], sx[1]], [sy[0], sy[1]]])
    if abs(np.linalg.det(J)) < 1e-9:
        return None
    res_src = max(np.abs(Amat @ sx - X[ii[keep], jj[keep]]).max(), np.abs(Amat @ sy - Y[ii[keep], jj[keep]]).max())
    L = np.linalg.inv(J)
    t0 = -L @ np.array([sx[2], sy[2]])
    resid = float(res_src * np.abs(L).sum(axis=1).max())
    ju, iu = jj[keep], ii[keep]
    centre = ((ju.min() + ju.max()) / 2.0, (iu.min() + iu.max()) / 2.0)
    radius = (max(1.0, (ju.max() - ju.min()) / 2.0), max(1.0, (iu.max() - iu.min()) / 2.0))
    return L, t0, int(keep.sum()), resid, centre, radius


def fit_unc(fit, a):
    """uncertainty (output px) of the located content position a: the fit residual, amplified
    when a lies outside the fitted region (extrapolation), plus float slack"""
    lever = max(1.0, abs(a[0] - fit[4][0]) / fit[5][0], abs(a[1] - fit[4][1]) / fit[5][1])
    if lever > 4.0:                       # content far outside the output: not located at all
        return float("inf")
    return fit[3] * (1.0 + 2.0 * lever) + 0.03


def fwd(fit, p):
    L, t0 = fit[0], fit[1]
    return (L[0, 0] * p[0] + L[0, 1] * p[1] + t0[0], L[1, 0] * p[0] + L[1, 1] * p[1] + t0[1])


def valid_rect(np, M, blur=0):
    """The valid region of a padded image must be a top-left anchored rectangle of ones
    followed by zeros (padding only at the bottom / right).  `blur` > 0: the padded image
    was resampled afterwards, so the edge between content and padding is interpolated over
    up to `blur` pixels; exactness is then only required away from that edge.
    Returns (rows, cols) or a reason string."""
    m = M
    lo, hi = (m > 0.5, m > 0.5) if blur == 0 else (m > 0.25, m > 0.75)
    rows, cols = int(hi.any(axis=1).sum()), int(hi.any(axis=0).sum())
    rows_lo, cols_lo = int(lo.any(axis=1).sum()), int(lo.any(axis=0).sum())
    if not lo[:rows, :cols].all() or hi[rows_lo:, :].any() or hi[:, cols_lo:].any():
        return "valid region is not a top-left anchored rectangle (padding not only bottom/right)"
    r0, c0, r1, c1 = max(0, rows - blur), max(0, cols - blur), rows_lo + blur, cols_lo + blur
    if (r0 and c0 and np.abs(m[:r0, :c0] - 1).max() > 1e-4) or (r1 < m.shape[0] and np.abs(m[r1:, :]).max() > 1e-6) \
            or (c1 < m.shape[1] and np.abs(m[:, c1:]).max() > 1e-6):
        return "padding is not zero / content mask not one"
    return rows, cols


# =============================================================================
# generation
def gen_size(rng):
    t = rng.random()
    if t < 0.3:
        return rng.choice(PRIMES)
    if t < 0.45:
        return rng.choice([32, 64, 96, 128, 160, 192, 48, 80, 200, 24])
    return rng.randint(17, 200)


def gen_hw(rng):
    t = rng.random()
    if t < 0.12:
        return rng.randint(17, 26), rng.randint(150, 200)
    if t < 0.24:
        return rng.randint(150, 200), rng.randint(17, 26)
    return gen_size(rng), gen_size(rng)


def gen_coord(rng, n):
    t = rng.random()
    if t < 0.12:
        return F(0)
    if t < 0.30:
        return F(n - 1) - F(rng.randrange(0, 9), 8)          # far-edge band
    if t < 0.38:
        return F(rng.randrange(0, 17), 8)                      # near-edge band
    return F(rng.randrange(0, 8 * (n - 1) + 1), 8)


def gen_pts(rng, H, W, n, p_nan=0.1):
    return [None if rng.random() < p_nan else (gen_coord(rng, W), gen_coord(rng, H)) for _ in range(n)]


def gen_near(rng, cx, cy, w, h, n):
    """keypoints within about one crop of a centre (so that their content is in the crop)"""
    w, h = max(1, int(6 * w)), max(1, int(6 * h))
    return [(cx + F(rng.randrange(-w, w + 1), 8), cy + F(rng.randrange(-h, h + 1), 8)) for _ in range(n)]


def clamp_pts(pts, H, W):
    return [None if p is None else (min(max(p[0], F(0)), F(W - 1)), min(max(p[1], F(0)), F(H - 1))) for p in pts]


def gen_max(rng, n):
    t = rng.random()
    if t < 0.2:
        return None
    if t < 0.3:
        return n
    if t < 0.65:
        return rng.randint(n + 1, min(3 * n, 420))
    return rng.randint(max(8, n // 3), n - 1)


def float_round_agrees(H, W, mh, mw):
    """The code computes int(round(H * (max/W))) in float64; the model in exact rationals.
    Cases where the two could differ (exact ties perturbed by float rounding) are avoided."""
    mh_ = H if mh is None else mh
    mw_ = W if mw is None else mw
    if H == mh_ and W == mw_:
        return True
    hr, wr = mh_ / H, mw_ / W
    r = wr if hr > wr else hr
    ex = py_sizematcher(H, W, mh, mw)
    got = (int(round(H * r)), int(round(W * r)))
    if ex is None:
        return got[0] <= 0 or got[1] <= 0
    return got == (ex[0], ex[1])


def gen_tie(rng, lo=17, hi=200):
    """TIE / BOUNDARY stream of the size matcher -> (H, W, mh, mw, tag): the image has EXACTLY the aspect ratio of
    (max_height, max_width) but another size (hratio == wratio != 1, enlarging and reducing, square and not), one
    maximum 1 px off such a tie (the binding side flips, the loose side gets 1-2 px of padding), or one ratio
    exactly 1 with the other side larger / smaller."""
    for _ in range(200):
        if rng.random() < 0.3:
            a = b = 1                                          # square frames matched to another square
            g = rng.randint(lo, hi)
        else:
            a, b = rng.randint(1, 9), rng.randint(1, 9)
            gmin, gmax = -(-lo // min(a, b)), hi // max(a, b)
            if gmin > gmax:
                continue
            g = rng.randint(gmin, gmax)
        H, W = a * g, b * g
        t = rng.random()
        # another multiple m != g of the primitive shape (a, b): ratio m/g from about 1/3 to just under 3,
        # often next to 1 (g +- 1: the 1 px resize) and the round factors 2 and 1/2
        cands = [g - 1, g + 1, 2 * g, g // 2 if g % 2 == 0 else g + 2, rng.randint(max(1, g // 3), 3 * g - 1)]
        m = rng.choice(cands)
        if m == g or m < 1 or max(a, b) * m > 420 or min(a, b) * m < 8:
            continue
        mh, mw = a * m, b * m
        if t < 0.55:
            tag = "tie_up" if m > g else "tie_down"
        elif t < 0.8:
            tag = "near_tie"
            if rng.random() < 0.5:
                mh += rng.choice([-1, 1])
            else:
                mw += rng.choice([-1, 1])
        else:
            tag = "one_ratio_1"
            if rng.random() < 0.5:
                mh = H
            else:
                mw = W
        if min(mh, mw) < 8 or not float_round_agrees(H, W, mh, mw) or py_sizematcher(H, W, mh, mw) is None:
            continue
        return H, W, mh, mw, tag
    raise RuntimeError("gen_tie: no case")


P_TIE = 0.3


def gen_maxes(rng, c, p_none=0.0):
    """maxima of one case: the independent stream (gen_max per side, practically never a tie), or -- P_TIE of the
    cases -- the tie / boundary stream, which also chooses the image size.  -> (H, W)"""
    if rng.random() < P_TIE:
        c["H"], c["W"], c["mh"], c["mw"], c["sm_stream"] = gen_tie(rng)
    else:
        c["mh"], c["mw"] = gen_max(rng, c["H"]), gen_max(rng, c["W"])
        c["sm_stream"] = "independent"
        if rng.random() < p_none:
            c["mh"], c["mw"] = None, None
    return c["H"], c["W"]


def gen_mx_via(rng, chunks):
    """how max_height / max_width reach a dataset: the max_hw ARGUMENT (config values None), the CONFIG
    (data_config.preprocessing.max_height / max_width; the argument then carries other numbers, which the documented
    precedence ignores), MIXED (height from the config, width from the argument), or config keys ABSENT (the
    torch datasets read them with .get and fall back to the argument; the chunk functions read the attributes)"""
    return rng.choice(["arg", "arg", "cfg", "cfg", "mixed"] + ([] if chunks else ["absent"]))


def gen_case(rng, kind, thorough):
    H, W = gen_hw(rng)
    gray = rng.random() < 0.4
    c = {"kind": kind, "H": H, "W": W, "gray": gray}
    if kind == "sizematch":
        H0, W0 = H, W
        while True:
            c["H"], c["W"] = H0, W0
            gen_maxes(rng, c)
            if rng.random() < 0.04:                       # degenerate: a fitted side rounds to 0 px
                c["H"], c["W"], c["mh"], c["mw"] = rng.randint(120, 200), rng.randint(3, 6), rng.randint(8, 14), 31
            if float_round_agrees(c["H"], c["W"], c["mh"], c["mw"]):
                break
        c["pts"] = gen_pts(rng, c["H"], c["W"], 4)
    elif kind == "resize":
        c["s"] = rng.choice(SCALES)
        c["pts"] = gen_pts(rng, H, W, 4)
    elif kind == "pad":
        c["stride"] = rng.choice(STRIDES + [3, 64])
    elif kind in ("crop", "bbox"):
        c["h"], c["w"] = rng.choice([(8, 8), (16, 16), (9, 11), (32, 24), (5, 7), (64, 64), (2, 2), (40, 17)])
        t = rng.random()
        if t < 0.4:                                         # near / across a border
            cx = rng.choice([F(rng.randrange(0, 33), 8), F(W - 1) - F(rng.randrange(0, 33), 8), F(-2), F(W + 1)])
            cy = rng.choice([F(rng.randrange(0, 33), 8), F(H - 1) - F(rng.randrange(0, 33), 8), F(-1), F(H)])
        else:
            cx, cy = F(rng.randrange(0, 8 * W), 8), F(rng.randrange(0, 8 * H), 8)
        if rng.random() < 0.4:
            cx, cy = F(round(cx)), F(round(cy))
        c["cx"], c["cy"] = cx, cy
        c["pts"] = gen_pts(rng, H, W, 1) + gen_near(rng, cx, cy, c["w"], c["h"], 2) + [(cx, cy)]
    elif kind in ("full", "ds_full", "centered", "ds_centered"):
        H0, W0 = H, W
        while True:
            c["H"], c["W"] = H0, W0
            H, W = gen_maxes(rng, c, p_none=0.35)
            c["s"] = rng.choice(SCALES)
            r = py_sizematcher(H, W, c["mh"], c["mw"])
            if r is None or not float_round_agrees(H, W, c["mh"], c["mw"]):
                continue
            if max(r[2], r[3]) * c["s"] > 640 or min(r[2], r[3]) * c["s"] < 6:
                continue
            break
        c["stride"] = rng.choice(STRIDES)
        c["pts"] = gen_pts(rng, H, W, 3, p_nan=0.0 if "centered" in kind else 0.1)
        if "centered" in kind:
            c["ch"], c["cw"] = rng.choice([(16, 16), (32, 32), (24, 24), (20, 28), (48, 48), (10, 10), (64, 64)])
            k = c["s"] * py_sizematcher(H, W, c["mh"], c["mw"])[4]
            c["pts"] = clamp_pts(c["pts"][:1] + gen_near(rng, c["pts"][0][0], c["pts"][0][1],
                                                          F(c["cw"]) / k, F(c["ch"]) / k, 2), H, W)
        if kind.startswith("ds"):
            c["ds"] = rng.choice(["bottomup", "single", "centroid"]) if kind == "ds_full" else "centered"
            c["n_inst"] = 1 if c["ds"] == "single" else rng.randint(1, 3)
            c["pts"] = [gen_pts(rng, H, W, 3, p_nan=0.08) for _ in range(c["n_inst"])]
            if kind == "ds_centered":
                for inst in c["pts"]:
                    a0 = inst[0] or (gen_coord(rng, W), gen_coord(rng, H))
                    inst[:] = [a0] + [None if rng.random() < 0.08 else q for q in
                                      clamp_pts(gen_near(rng, a0[0], a0[1], F(c["cw"]) / k, F(c["ch"]) / k, 2), H, W)]
            for inst in c["pts"]:                           # the anchor (node 0) stays visible: F5 is C11's business
                if inst[0] is None:
                    inst[0] = (gen_coord(rng, W), gen_coord(rng, H))
            c["anchor"] = rng.choice([0, None])
            c["chunks"] = rng.random() < 0.25              # also through the np_chunks (npz + PIL round trip) path
            c["mx_via"] = gen_mx_via(rng, c["chunks"])
            c["conv"] = rng.random() < 0.3                  # channel conversion: gray frames -> is_rgb, RGB frames -> grayscale
            c["aug"] = rng.choice([None, None, "geometric", "intensity"])
            if c["aug"] == "geometric":
                c["aug_cfg"] = {"rotation": rng.choice([0.0, 15.0, 45.0, 180.0]),
                                "scale": rng.choice([None, (0.9, 1.1), (0.75, 1.25)]),
                                "translate_width": rng.choice([0.0, 0.02, 0.2]),
                                "translate_height": rng.choice([0.0, 0.02, 0.2]),
                                "affine_p": 1.0,
                                "erase_p": rng.choice([0.0, 0.0, 1.0]), "mixup_p": rng.choice([0.0, 0.0, 1.0]),
                                "mixup_lambda": None}
                if c["aug_cfg"]["scale"] is None:
                    del c["aug_cfg"]["scale"]
                if rng.random() < 0.4:
                    # enlarging pipelines (factor 2 .. 3) under strong rotations / zoom: the pipeline's half-pixel
                    # offset of up to just under 1 px is multiplied by the matrix (finding F11c lives here)
                    c["mh"], c["mw"], c["sm_stream"] = None, None, "none"
                    c["s"] = rng.choice([F(2), F(5, 2), F(5, 2)])
                    c["H"], c["W"] = H, W = rng.randint(24, 72), rng.randint(24, 72)
                    c["aug_cfg"]["rotation"] = rng.choice([45.0, 90.0, 180.0])
                    c["pts"] = [gen_pts(rng, H, W, 3, p_nan=0.0) for _ in range(c["n_inst"])]
                    if kind == "ds_centered":
                        k = c["s"]
                        for inst in c["pts"]:
                            inst[1:] = clamp_pts(gen_near(rng, inst[0][0], inst[0][1], F(c["cw"]) / k, F(c["ch"]) / k, 2), H, W)
            elif c["aug"] == "intensity":
                c["aug_cfg"] = {"uniform_noise_p": rng.choice([0.0, 1.0]), "gaussian_noise_p": rng.choice([0.0, 1.0]),
                                "contrast_p": 1.0, "brightness": 0.2, "brightness_p": rng.choice([0.0, 1.0])}
            c["aug_seed"] = rng.randrange(1 << 30)
    elif kind == "ds_multi":
        # label sets over SEVERAL VIDEOS: a different image per video (own size, own ramp offsets), the same
        # frame indices labelled in every video (mostly), several instances per frame, scale != 1 (mostly),
        # labelled frames in video-major / interleaved / shuffled order, indices read in a shuffled order
        c["ds"] = rng.choice(["centered", "centered", "bottomup", "single", "centroid"])
        nv = rng.choice([2, 2, 3])
        H0, W0 = H, W
        while True:
            H, W = H0, W0
            if rng.random() < P_TIE:
                # the same scene recorded at several resolutions (2x video in a multi-video project): every video
                # is a multiple of one primitive shape, the maxima are those of the largest video (what
                # get_max_height_width computes) or another multiple: EVERY video is a tie, most with ratio != 1
                a, b = rng.choice([(1, 1), (1, 1), (3, 4), (4, 3), (2, 3), (9, 16), (5, 4), (1, 2)])
                gs = [rng.randint(-(-17 // min(a, b)), 200 // max(a, b)) for _ in range(nv)]
                if rng.random() < 0.5:
                    gs[1] = 2 * gs[0] if 2 * gs[0] * max(a, b) <= 200 else max(gs[0] // 2, -(-17 // min(a, b)))
                sizes = [(a * g, b * g) for g in gs]
                m = max(gs) if rng.random() < 0.7 else rng.randint(max(1, min(gs) // 2), 2 * max(gs))
                H, W = sizes[0]
                c["mh"], c["mw"], c["sm_stream"] = a * m, b * m, "tie_multi"
            else:
                sizes = [(H, W)] + [((H, W) if rng.random() < 0.5 else gen_hw(rng)) for _ in range(nv - 1)]
                c["mh"], c["mw"], c["sm_stream"] = gen_max(rng, H), gen_max(rng, W), "independent"
                if rng.random() < 0.35:
                    c["mh"], c["mw"] = None, None
            c["H"], c["W"] = H, W
            c["s"] = rng.choice([x for x in SCALES if x != 1] if rng.random() < 0.8 else SCALES)
            ok = True
            for (h_, w_) in sizes:
                r = py_sizematcher(h_, w_, c["mh"], c["mw"])
                if r is None or not float_round_agrees(h_, w_, c["mh"], c["mw"]) or \
                        max(r[2], r[3]) * c["s"] > 640 or min(r[2], r[3]) * c["s"] < 6:
                    ok = False
            if ok:
                break
        c["stride"] = rng.choice(STRIDES)
        c["ch"], c["cw"] = rng.choice([(16, 16), (32, 32), (24, 24), (20, 28), (48, 48), (10, 10), (64, 64)])
        c["anchor"] = rng.choice([0, None])
        c["conv"] = rng.random() < 0.3
        c["chunks"] = rng.random() < 0.2
        c["mx_via"] = gen_mx_via(rng, c["chunks"])
        c["aug"] = None
        room_x, room_y = 255 - max(w_ for _, w_ in sizes), 255 - max(h_ for h_, _ in sizes)
        same_fidx = rng.random() < 0.75
        c["videos"] = []
        for v, (h_, w_) in enumerate(sizes):
            k = c["s"] * py_sizematcher(h_, w_, c["mh"], c["mw"])[4]
            n_inst = 1 if c["ds"] == "single" else rng.choice([1, 2, 2, 3])
            insts = []
            for _ in range(n_inst):
                a0 = (gen_coord(rng, w_), gen_coord(rng, h_))
                if c["ds"] == "centered":
                    rest = clamp_pts(gen_near(rng, a0[0], a0[1], F(c["cw"]) / k, F(c["ch"]) / k, 2), h_, w_)
                else:
                    rest = gen_pts(rng, h_, w_, 2, p_nan=0.0)
                insts.append([a0] + [None if rng.random() < 0.08 else q for q in rest])
            if c["ds"] != "single" and rng.random() < 0.3:     # an unlabelled (all-NaN) instance among them: no sample
                insts.insert(rng.randrange(len(insts) + 1), [None, None, None])
            c["videos"].append({"H": h_, "W": w_, "pts": insts,
                                "off": (v * (room_x // (nv - 1)), (nv - 1 - v) * (room_y // (nv - 1))),
                                "fidx": 0 if same_fidx else rng.randrange(0, 4)})
        nfr = 3 if three_frames(c) else 1
        t = rng.random()
        order = [(v, k) for v in range(nv) for k in range(nfr)]            # video-major
        if t < 0.45:
            order = [(v, k) for k in range(nfr) for v in range(nv)]        # the same frame of every video in a row
        elif t < 0.75:
            rng.shuffle(order)
        c["order"] = [list(x) for x in order]
        c["read_seed"] = rng.randrange(1 << 30)
        c["reread"] = rng.random() < 0.5
    elif kind == "smdp":
        # SizeMatcher DataPipe: pad-only, stateful maxima, raises when an image is larger
        n = rng.randint(1, 3)
        sizes = [(H, W)] + [gen_hw(rng) for _ in range(n - 1)]
        t = rng.random()
        if t < 0.5:                                         # everything fits
            mh = rng.choice([None, max(a for a, _ in sizes) + rng.choice([0, 0, 5, 16])])
            mw = rng.choice([None, max(b for _, b in sizes) + rng.choice([0, 0, 3, 32])])
            if mh is None:
                sizes = [(min(a, sizes[0][0]), b) for a, b in sizes]
            if mw is None:
                sizes = [(a, min(b, sizes[0][1])) for a, b in sizes]
        else:
            mh, mw = gen_max(rng, H), gen_max(rng, W)
        c["sizes"], c["mh"], c["mw"] = [list(x) for x in sizes], mh, mw
        c["provider"] = mh is not None and mw is not None and rng.random() < 0.4   # maxima through provider.max_height_and_width
        c["pts"] = gen_pts(rng, sizes[0][0], sizes[0][1], 3)
    elif kind == "cropper":
        c["h"], c["w"] = rng.choice([(8, 8), (16, 16), (9, 11), (32, 24), (5, 7), (64, 64), (2, 2), (40, 17)])
        c["n_inst"] = rng.randint(1, 3)
        c["n_pad"] = rng.choice([0, 0, 1, 2])              # NaN-padded instances beyond num_instances
        c["n_nodes"] = rng.randint(1, 3)
        c["insts"], c["cents"] = [], []
        for _ in range(c["n_inst"]):
            if rng.random() < 0.4:
                cx = rng.choice([F(rng.randrange(0, 33), 8), F(W - 1) - F(rng.randrange(0, 33), 8), F(-2), F(W + 1)])
                cy = rng.choice([F(rng.randrange(0, 33), 8), F(H - 1) - F(rng.randrange(0, 33), 8), F(-1), F(H)])
            else:
                cx, cy = F(rng.randrange(0, 8 * W), 8), F(rng.randrange(0, 8 * H), 8)
            if rng.random() < 0.4:
                cx, cy = F(round(cx)), F(round(cy))
            c["cents"].append((cx, cy))
            inst = gen_near(rng, cx, cy, c["w"], c["h"], c["n_nodes"])
            c["insts"].append([None if rng.random() < 0.15 else q for q in inst])
    elif kind == "aug1":
        # augmentation options ONE AT A TIME (and a few combinations), probabilities < 1, batches of 2,
        # through the wrapper functions and through the KorniaAugmenter DataPipe
        n_nodes = rng.randint(1, 4)
        c["n_nodes"] = n_nodes
        c["rank4"] = rng.random() < 0.6
        c["batch"] = rng.choice([1, 1, 2])
        c["via"] = rng.choice(["fn", "fn", "dp"])
        n_i = rng.randint(1, 3) if c["rank4"] else 1
        c["insts"] = [[[(F(rng.randrange(1, W - 1)), F(rng.randrange(1, H - 1))) if rng.random() > 0.12 else None
                        for _ in range(n_nodes)] for _ in range(n_i)] for _ in range(c["batch"])]
        ops = ["affine", "erase", "mixup", "uniform", "gaussian", "contrast", "brightness"]
        t = rng.random()
        if t < 0.7:
            chosen = [rng.choice(ops)]
        elif c["via"] == "dp":
            chosen = rng.sample(ops, rng.randint(2, 7))
        else:
            chosen = rng.sample(ops[:3], rng.randint(2, 3)) if rng.random() < 0.5 else rng.sample(ops[3:], rng.randint(2, 4))
        if c["via"] == "fn":
            c["which"] = "geometric" if chosen[0] in ops[:3] else "intensity"
        pv = lambda: rng.choice([1.0, 1.0, 0.5])
        cfg = {}
        if "affine" in chosen:
            cfg.update({"rotation": rng.choice([0.0, 15.0, 90.0, 180.0]), "scale": rng.choice([(1.0, 1.0), (0.9, 1.1), (0.5, 1.5)]),
                        "translate_width": rng.choice([0.0, 0.02, 0.25]), "translate_height": rng.choice([0.0, 0.02, 0.25]),
                        "affine_p": pv()})
        if "erase" in chosen:
            cfg.update({"erase_p": pv(), "erase_scale_min": rng.choice([0.0001, 0.02]), "erase_scale_max": rng.choice([0.01, 0.1]),
                        "erase_ratio_min": rng.choice([1, 0.5]), "erase_ratio_max": rng.choice([1, 2])})
            cfg["erase_scale_max"] = max(cfg["erase_scale_max"], cfg["erase_scale_min"])
        if "mixup" in chosen:
            cfg.update({"mixup_p": pv(), "mixup_lambda": rng.choice([None, (0.2, 0.8)])})
        if "uniform" in chosen:
            cfg.update({"uniform_noise_p": pv(), "uniform_noise_min": 0.0, "uniform_noise_max": rng.choice([0.04, 0.1])})
        if "gaussian" in chosen:
            cfg.update({"gaussian_noise_p": pv(), "gaussian_noise_mean": 0.02, "gaussian_noise_std": rng.choice([0.004, 0.02])})
        if "contrast" in chosen:
            cfg.update({"contrast_p": pv(), "contrast_min": 0.5, "contrast_max": rng.choice([2.0, 1.5])})
        if "brightness" in chosen:
            cfg.update({"brightness_p": pv(), "brightness": rng.choice([0.0, 0.2, 0.3])})
        if c["via"] == "dp" and "affine" in chosen and rng.random() < 0.3:
            cfg["scale"] = rng.choice([1.0, 1.25])             # KorniaAugmenter accepts a float: (scale, scale)
        c["ops"] = sorted(chosen)
        c["aug_cfg"] = cfg
        c["aug_seed"] = rng.randrange(1 << 30)
    elif kind == "cropsize":
        n_inst = rng.randint(0, 4)
        c["insts"] = [gen_pts(rng, H, W, rng.choice([2, 3]), p_nan=rng.choice([0, 0.3, 1.0])) for _ in range(n_inst)]
        c["padding"] = rng.choice([0, 0, 4, 16])
        c["stride"] = rng.choice([1, 2, 8, 16, 32])
        c["scale"] = rng.choice([F(1), F(1), F(1, 2), F(3, 4), F(2)])
        c["min_crop"] = rng.choice([None, None, 0, 32, 64, 100, 50, 160, 7])
    elif kind == "aug_default":
        c["gray"] = False
        c["deg"] = rng.choice([0.0, 15.0, 45.0, 90.0, 180.0])
        c["tr"] = [rng.choice([0.0, 0.02, 0.25]), rng.choice([0.0, 0.02, 0.25])]
        c["sc"] = list(rng.choice([(1.0, 1.0), (0.9, 1.1), (0.5, 1.5), (1.4, 1.5)]))
        c["pts"] = gen_pts(rng, H, W, 5, p_nan=0.1)
        c["aug_seed"] = rng.randrange(1 << 30)
    elif kind == "aug":
        n_nodes = rng.randint(1, 4)
        c["n_nodes"] = n_nodes
        c["rank4"] = rng.random() < 0.6
        c["insts"] = [gen_pts(rng, H, W, n_nodes, p_nan=0.15) for _ in range(rng.randint(1, 3) if c["rank4"] else 1)]
        c["which"] = rng.choice(["geometric", "geometric", "intensity"])
        if c["which"] == "geometric":
            c["aug_cfg"] = {"rotation": rng.choice([0.0, 15.0, 90.0, 180.0]),
                            "scale": rng.choice([(1.0, 1.0), (0.9, 1.1), (0.5, 1.5)]),
                            "translate_width": rng.choice([0.0, 0.02, 0.25]),
                            "translate_height": rng.choice([0.0, 0.02, 0.25]),
                            "affine_p": rng.choice([1.0, 1.0, 0.5]),
                            "erase_p": rng.choice([0.0, 1.0]), "mixup_p": rng.choice([0.0, 1.0]), "mixup_lambda": None}
        else:
            c["aug_cfg"] = {"uniform_noise_p": rng.choice([0.0, 1.0]), "gaussian_noise_p": rng.choice([0.0, 1.0]),
                            "contrast_p": rng.choice([0.0, 1.0]), "brightness": 0.3,
                            "brightness_p": rng.choice([0.0, 1.0])}
        c["aug_seed"] = rng.randrange(1 << 30)
    else:
        raise ValueError(kind)
    return c


# =============================================================================
# Coq terms
def ckp(p):
    return "None" if p is None else f"(Some ({core.cq(p[0])}, {core.cq(p[1])}))"


def coz(v):
    return core.copt(v, core.cz)


def term(c, extra=None):
    k = c["kind"]
    H, W = core.cz(c["H"]), core.cz(c["W"])
    if k == "sizematch":
        return f"CSizeMatch {H} {W} {coz(c['mh'])} {coz(c['mw'])}"
    if k == "resize":
        return f"CResize {H} {W} {core.cq(c['s'])} {core.clist(c['pts'], ckp)}"
    if k == "pad":
        return f"CPad {H} {W} {core.cz(c['stride'])}"
    if k == "bbox":
        return f"CBBox {core.cq(c['cx'])} {core.cq(c['cy'])} {core.cz(c['h'])} {core.cz(c['w'])}"
    if k == "crop":
        return (f"CCrop {core.cq(c['cx'])} {core.cq(c['cy'])} {H} {W} {core.cz(c['h'])} {core.cz(c['w'])} "
                f"{core.clist(c['pts'], ckp)}")
    if k in ("full", "ds_full"):
        pts = c["pts"] if k == "full" else [p for inst in c["pts"] for p in inst]
        return (f"CFull {H} {W} {coz(c['mh'])} {coz(c['mw'])} {core.cq(c['s'])} {core.cz(c['stride'])} "
                f"{core.clist(pts, ckp)}")
    if k in ("centered", "ds_centered"):
        pts, cen = extra
        return (f"CCentered {H} {W} {coz(c['mh'])} {coz(c['mw'])} {core.cq(c['s'])} {core.cz(c['stride'])} "
                f"{core.cz(c['ch'])} {core.cz(c['cw'])} {core.cq(cen[0])} {core.cq(cen[1])} {core.clist(pts, ckp)}")
    if k == "cropsize":
        return (f"CCropSize {core.clist(c['insts'], lambda i: core.clist(i, ckp))} {core.cz(c['padding'])} "
                f"{core.cz(c['stride'])} {core.cq(c['scale'])} {coz(c['min_crop'])}")
    if k == "aug":
        m = extra
        mq = "((%s, %s, %s), (%s, %s, %s))" % tuple(core.cq(v) for v in m)
        return f"CAug {mq} {c['n_nodes']}%nat {core.clist(c['insts'], lambda i: core.clist(i, ckp))}"
    if k == "smdp":
        return (f"CSizeMatchDP {coz(c['mh'])} {coz(c['mw'])} "
                f"{core.clist(c['sizes'], lambda hw: '(%s, %s)' % (core.cz(hw[0]), core.cz(hw[1])))}")
    if k == "cropper":
        items = list(zip(c["cents"], c["insts"]))
        return (f"CCropper {H} {W} {core.cz(c['h'])} {core.cz(c['w'])} {c['n_inst']}%nat "
                + core.clist(items, lambda it: "((%s, %s), %s)" % (core.cq(it[0][0]), core.cq(it[0][1]),
                                                                   core.clist(it[1], ckp))))
    raise ValueError(k)


def cmat(m):
    return "((%s, %s, %s), (%s, %s, %s))" % tuple(core.cq(v) for v in m)


def stack_term(entries, n_nodes, insts):
    """entries: [(op name, applied, matrix|None)] as read back from kornia"""
    def ce(e):
        name, applied, m = e
        op = f"OpAffine {cmat(m)}" if name == "affine" else OP_COQ[name]
        return f"({op}, {core.cbool(applied)})"
    return f"CAugStack {core.clist(entries, ce)} {n_nodes}%nat {core.clist(insts, lambda i: core.clist(i, ckp))}"


def centroid_of(c, inst):
    """anchor keypoint, or the midpoint of the bounding box of the visible keypoints"""
    if c.get("anchor") is not None and inst[c["anchor"]] is not None:
        return inst[c["anchor"]]
    vis = [p for p in inst if p is not None]
    return ((min(p[0] for p in vis) + max(p[0] for p in vis)) / 2,
            (min(p[1] for p in vis) + max(p[1] for p in vis)) / 2)


# =============================================================================
# implementation runs
class Impl:
    def __init__(self):
        core.impl_env_setup()
        import numpy as np
        import torch
        from omegaconf import OmegaConf
        from sleap_nn.data import resizing, instance_cropping, augmentation, custom_datasets
        self.np, self.torch, self.OC = np, torch, OmegaConf
        self.rz, self.ic, self.au, self.cd = resizing, instance_cropping, augmentation, custom_datasets
        self.recorded = []
        self.rec_ops = []
        orig = augmentation.AugmentationSequential
        rec, rec_ops = self.recorded, self.rec_ops

        class Recording(orig):                       # observe the sampled transform from outside
            def forward(self, *a, **k):
                out = super().forward(*a, **k)
                tm = self.transform_matrix
                rec.append(None if tm is None else tm.detach().clone())
                ops = []
                for op in self.children():           # per operation: was it applied, its own matrix
                    bp = getattr(op, "_params", {}).get("batch_prob")
                    om = getattr(op, "_transform_matrix", None)
                    ops.append((type(op).__name__, None if bp is None else [float(v) for v in bp.reshape(-1)],
                                None if om is None else om.detach().clone()))
                rec_ops.append(ops)
                return out
        augmentation.AugmentationSequential = Recording
        self.fixed_f04k = self.detect_f04k()
        self.fixed_f04p = self.detect_f04k(via_dp=True)

    def detect_f04k(self, via_dp=False):
        """Which content map does the geometric augmentation have: kornia's align_corners=False
        warp (D m D^-1, finding F04k) or the keypoint matrix itself (after the proposed fix)?
        Decided by behaviour on a 25 x 158 ramp rotated by a large angle.  via_dp: the same
        question for the KorniaAugmenter DataPipe (finding F04p)."""
        torch, np = self.torch, self.np
        H, W = 25, 158
        torch.manual_seed(12345)
        self.recorded.clear()
        kw = dict(rotation=90.0, scale=(1.0, 1.0), translate_width=0.0, translate_height=0.0, affine_p=1.0)
        if via_dp:
            ex = next(iter(self.au.KorniaAugmenter([{"image": ramp3(torch, H, W),
                                                     "instances": torch.tensor([[[[100.0, 12.0]]]])}], **kw)))
            oi = ex["image"]
        else:
            oi, ok = self.au.apply_geometric_augmentation(ramp3(torch, H, W), torch.tensor([[[100.0, 12.0]]]), **kw)
        m = mat_fracs(self.recorded[-1])
        fit = fit_content(np, *as_xym(np, oi), (H, W))
        if fit is None or abs(float(m[1])) < 0.3:
            return None
        p = (F(140), F(12))
        a = fwd(fit, (140.0, 12.0))
        d = {}
        for fx in (False, True):
            c = mat_xy(py_warp_content(fx, H, W, m), p)
            d[fx] = max(abs(a[0] - float(c[0])), abs(a[1] - float(c[1])))
        if min(d.values()) > 0.1:
            return None
        return d[True] < d[False]

    def pts_tensor(self, pts, shape):
        nan = float("nan")
        flat = [[nan, nan] if p is None else [float(p[0]), float(p[1])] for p in pts]
        return self.torch.tensor(flat, dtype=self.torch.float32).reshape(*shape)

    def images(self, c, H=None, W=None):
        H, W = H or c["H"], W or c["W"]
        return ramp_gray(self.torch, H, W) if c.get("gray") else [ramp3(self.torch, H, W)]


def kp_list(t):
    """tensor (..., 2) -> list of (x, y) | None"""
    out = []
    for x, y in t.reshape(-1, 2).tolist():
        out.append(None if (math.isnan(x) or math.isnan(y)) else (x, y))
    return out


def kp_close(a, b, atol=KP_ATOL, rtol=KP_RTOL):
    if (a is None) != (b is None):
        return False
    if a is None:
        return True
    return all(abs(u - float(v)) <= atol + rtol * abs(float(v)) for u, v in zip(a, b))


def model_pts(mres, idx=0):
    return [None if p is None else (core.frac(p[0]), core.frac(p[1])) for p in mres[2][idx]]


class Outcome:
    """What one case produced: correspondence disagreements, oracle failures (with selector)."""
    def __init__(self):
        self.diff = []
        self.bad = []          # (reason, selector|None)
        self.stats = {}

    def d(self, msg):
        self.diff.append(msg)

    def b(self, msg, selector=None):
        self.bad.append((msg, selector))


def ripple(H, W, mh, mw, s):
    """Allowance (output px) for locating content through an ANTIALIASED downscale: the
    discrete triangular kernel of torchvision's resize is not symmetric about the sampling
    position, so the ramp read-out ripples by up to ~0.08 px of that step's output around
    the affine content map (measured); later enlargement magnifies it."""
    r = py_sizematcher(H, W, mh, mw)
    eff = r[4] if r else F(1)
    a = 0.0
    if eff < 1:
        a += 0.08 * max(1.0, float(s))
    if s < 1:
        a += 0.08
    return a


def sel_resize(f11, f11b):
    return lambda k: SEL_F11 if f11 else (SEL_F11B if f11b[k] else None)


def registration(I, o, imgs_out, src_hw, pts_in, pts_out, f11, f11b, model_A=None, unit=1.0, label="", sel=None,
                 located=None, slack=0.0):
    """Oracle + content correspondence: locate the content through the ramp and compare with
    the keypoints the code returned (pts_out) and with where the model says the content is."""
    np = I.np
    X, Y, M = as_xym(np, imgs_out)
    # whatever the output shows with a full valid mask is content of THIS frame: the source position a valid
    # pixel displays lies inside the frame (a sample cut from another frame's image shows positions outside it,
    # or is caught by the registration below)
    vm = M > 0.999
    if vm.any():
        xs_, ys_ = X[vm] / unit, Y[vm] / unit
        lo_x, hi_x, lo_y, hi_y = float(xs_.min()), float(xs_.max()), float(ys_.min()), float(ys_.max())
        if lo_x < -0.75 or lo_y < -0.75 or hi_x > src_hw[1] - 0.25 or hi_y > src_hw[0] - 0.25:
            o.b(f"{label}the output image shows content that is not from this {src_hw[1]}x{src_hw[0]} frame: valid pixels "
                f"display source positions x in [{lo_x:.2f},{hi_x:.2f}], y in [{lo_y:.2f},{hi_y:.2f}]")
            return None
    fit = fit_content(np, X, Y, M, src_hw, unit)
    if fit is None:
        o.stats["content_unmeasured"] = o.stats.get("content_unmeasured", 0) + 1
        return None
    o.stats["content_measured"] = o.stats.get("content_measured", 0) + 1
    worst = 0.0
    for k, (p, q) in enumerate(zip(pts_in, pts_out)):
        if p is None or q is None:
            continue
        a = fwd(fit, (float(p[0]), float(p[1])))
        u = fit_unc(fit, a)
        h_out, w_out = M.shape
        in_frame = -0.5 <= a[0] <= w_out - 0.5 and -0.5 <= a[1] <= h_out - 0.5
        if u > 0.4 or not in_frame:       # content not in the output image / too far from the measurable interior
            # ... but when the RETURNED keypoint lies among the output pixels the fit was made from, what the
            # image shows AT the keypoint is measured directly: it has to be the labelled content
            # (the map is affine: same error |fwd(p) - q|, read at q instead of at the content)
            at_q = abs(q[0] - fit[4][0]) <= fit[5][0] and abs(q[1] - fit[4][1]) <= fit[5][1]
            if not (at_q and fit_unc(fit, q) <= 0.4 and math.isfinite(a[0]) and math.isfinite(a[1])):
                o.stats["kp_unmeasured"] = o.stats.get("kp_unmeasured", 0) + 1
                continue
            o.stats["kp_measured_at_keypoint"] = o.stats.get("kp_measured_at_keypoint", 0) + 1
            u = fit_unc(fit, q)
            e = max(abs(a[0] - q[0]), abs(a[1] - q[1]))
            if e - u - slack >= 1.0:
                which = sel(k) if sel is not None else sel_resize(f11, f11b)(k)
                o.b(f"{label}the output shows at the returned keypoint {k} ({q[0]:.3f},{q[1]:.3f}) content that is "
                    f"{e:.3f} output px away from the labelled content of ({float(p[0])},{float(p[1])}), which is located at "
                    f"({a[0]:.3f},{a[1]:.3f}) (fit residual {fit[3]:.3f})", which)
            continue
        o.stats["kp_measured"] = o.stats.get("kp_measured", 0) + 1
        u += slack
        if located is not None:
            located.append((k, a, u))
        e = max(abs(a[0] - q[0]), abs(a[1] - q[1]))
        worst = max(worst, e)
        if e - u >= 1.0:
            which = sel(k) if sel is not None else sel_resize(f11, f11b)(k)
            o.b(f"{label}content of keypoint {k} at ({float(p[0])},{float(p[1])}) is found at "
                f"({a[0]:.3f},{a[1]:.3f}) but the keypoint is returned at ({q[0]:.3f},{q[1]:.3f}): "
                f"{e:.3f} output px (fit residual {fit[3]:.3f})", which)
        if model_A is not None:
            ma = (float(ap(model_A[0], p[0])), float(ap(model_A[1], p[1])))
            if max(abs(a[0] - ma[0]), abs(a[1] - ma[1])) > CONTENT_TOL + u:
                o.d(f"{label}content map: measured ({a[0]:.3f},{a[1]:.3f}) model ({ma[0]:.3f},{ma[1]:.3f}) for keypoint {k}")
    o.stats["worst_err"] = max(o.stats.get("worst_err", 0.0), worst)
    return fit


def model_affs(mres):
    q = [core.frac(v) for v in mres[1]]
    return (q[0], q[1]), (q[2], q[3])


def run_sizematch(I, c, m, o):
    torch, np = I.torch, I.np
    imgs = I.images(c)
    try:
        outs = [I.rz.apply_sizematcher(im, c["mh"], c["mw"]) for im in imgs]
        err = None
    except RuntimeError as e:
        err = str(e)
    if err is not None or m is None:
        if (err is not None) != (m is None):
            o.d(f"impl {'raised ' + err if err else 'returned'} but model says {'error' if m is None else 'ok'}")
        o.stats["errors"] = 1
        return
    eff = outs[0][1]
    th, tw, oh, ow = m[0]
    if abs(eff - float(core.frac(m[1][0]))) > 1e-12:
        o.d(f"eff_scale {eff} vs model {core.frac(m[1][0])}")
    want = (c["H"] if c["mh"] is None else c["mh"], c["W"] if c["mw"] is None else c["mw"])
    for im, _ in outs:
        if tuple(im.shape[-2:]) != want:
            o.b(f"size matcher output {tuple(im.shape[-2:])} is not the requested {want}")
            return
    if (oh, ow) != want:
        o.d(f"model output size {(oh, ow)} vs {want}")
    X, Y, M = as_xym(np, [im for im, _ in outs] if c["gray"] else outs[0][0])
    vr = valid_rect(np, M)
    if isinstance(vr, str):
        o.b("size matcher: " + vr)
        return
    # oracle (model-independent): the scale returned FOR THE KEYPOINTS is the scale of the resize that was MADE --
    # each side of the resized content is the image side times eff_scale to within the rounding (1/2 px); an image
    # that came out at another size was not returned with scale 1 (ties hratio == wratio included)
    for nm, n, t in (("height", c["H"], vr[0]), ("width", c["W"], vr[1])):
        if abs(t - n * eff) > 0.5 + 1e-6:
            o.b(f"size matcher: the {nm} of the image content went {n} -> {t} px but the returned eff_scale is {eff!r} "
                f"({n} * eff_scale = {n * eff:.3f}): keypoints multiplied by it do not follow the image "
                f"[stream {c.get('sm_stream')}]")
            return
    if vr != (th, tw):
        o.d(f"resized content is {vr}, model target {(th, tw)}")
    pts_out = [None if p is None else (float(p[0]) * eff, float(p[1]) * eff) for p in c["pts"]]
    f11, f11b = py_selectors(c["H"], c["W"], c["mh"], c["mw"], F(1), c["pts"])
    A = (hp(F(tw, c["W"])), hp(F(th, c["H"])))
    registration(I, o, [im for im, _ in outs] if c["gray"] else outs[0][0], (c["H"], c["W"]), c["pts"], pts_out,
                 f11, f11b, A, slack=ripple(c["H"], c["W"], c["mh"], c["mw"], F(1)))


def run_resize(I, c, m, o):
    torch, np = I.torch, I.np
    imgs = I.images(c)
    inst = I.pts_tensor(c["pts"], (1, 1, len(c["pts"]), 2))
    keep = inst.clone()
    outs = [I.rz.apply_resizer(im, inst, float(c["s"])) for im in imgs]
    if not torch.equal(torch.nan_to_num(inst, nan=-7.0), torch.nan_to_num(keep, nan=-7.0)):
        o.d("apply_resizer modified its keypoint argument in place")
    s = c["s"]
    nh, nw = m[0]
    want = (c["H"], c["W"]) if s == 1 else (math.floor(c["H"] * s), math.floor(c["W"] * s))
    for im, _ in outs:
        if tuple(im.shape[-2:]) != want:
            o.b(f"resizer output {tuple(im.shape[-2:])} is not (floor(H*s), floor(W*s)) = {want}")
            return
        r2 = I.rz.resize_image(imgs[0], float(s))
        if tuple(r2.shape[-2:]) != want:
            o.b(f"resize_image output {tuple(r2.shape[-2:])} != {want}")
    if (nh, nw) != want:
        o.d(f"model size {(nh, nw)} vs {want}")
    pts_out = kp_list(outs[0][1])
    for k, (a, b) in enumerate(zip(pts_out, model_pts(m))):
        if not kp_close(a, b):
            o.d(f"keypoint {k}: impl {a} model {b}")
    f11, f11b = py_selectors(c["H"], c["W"], None, None, s, c["pts"])
    registration(I, o, [im for im, _ in outs] if c["gray"] else outs[0][0], (c["H"], c["W"]), c["pts"], pts_out,
                 f11, f11b, model_affs(m), slack=ripple(c["H"], c["W"], None, None, s))
    # the DataPipe version (Resizer): same model, same oracle
    ik, pk = ("instance_image", "instance") if (c["H"] + c["W"]) % 2 else ("image", "instances")
    dps = []
    for im in imgs:
        ex = {ik: im, pk: inst.clone(), "image": im}
        dps.append(next(iter(I.rz.Resizer([ex], scale=float(s), image_key=ik, instances_key=pk,
                                          keep_original=bool(c["H"] % 2)))))
    for ex in dps:
        if tuple(ex[ik].shape[-2:]) != want:
            o.b(f"Resizer DataPipe output {tuple(ex[ik].shape[-2:])} is not (floor(H*s), floor(W*s)) = {want}")
            return
        if c["H"] % 2 and tuple(ex["original_image"].shape[-2:]) != (c["H"], c["W"]):
            o.b("Resizer DataPipe: keep_original did not keep the original image")
    dp_out = kp_list(dps[0][pk])
    for k, (a, b) in enumerate(zip(dp_out, model_pts(m))):
        if not kp_close(a, b):
            o.d(f"Resizer DataPipe keypoint {k}: impl {a} model {b}")
    registration(I, o, [ex[ik] for ex in dps] if c["gray"] else dps[0][ik], (c["H"], c["W"]), c["pts"], dp_out,
                 f11, f11b, model_affs(m), label="Resizer DataPipe: ", slack=ripple(c["H"], c["W"], None, None, s))


def run_pad(I, c, m, o):
    torch = I.torch
    H, W, s = c["H"], c["W"], c["stride"]
    ph, pw = I.rz.find_padding_for_stride(H, W, s)
    g = torch.Generator().manual_seed(H * 1000 + W)
    img = torch.rand((1, 1 if c["gray"] else 3, H, W), generator=g) + 0.5        # strictly positive content
    out = I.rz.apply_pad_to_stride(img, s)
    oh, ow = out.shape[-2:]
    if [ph, pw, oh, ow] != m[0] and s > 1:
        o.d(f"pad/out {(ph, pw, oh, ow)} vs model {m[0]}")
    if s <= 1 and [oh, ow] != m[0][2:]:
        o.d(f"out {(oh, ow)} vs model {m[0][2:]}")
    # property: least multiple of the stride >= size, original pixels untouched, zeros bottom/right
    for n, on in ((H, oh), (W, ow)):
        if on % max(s, 1) != 0 or on < n or on - n >= max(s, 1):
            o.b(f"padded size {on} is not the least multiple of {s} >= {n}")
            return
    if not torch.equal(out[..., :H, :W], img):
        o.b("stride padding changed or moved the original pixels (padding not only bottom/right)")
    if (out[..., H:, :] != 0).any() or (out[..., :, W:] != 0).any():
        o.b("stride padding is not zero")
    ik = "instance_image" if (H + W) % 2 else "image"
    ex = next(iter(I.rz.PadToStride([{ik: img.clone()}], max_stride=s, image_key=ik)))
    dout = ex[ik]
    if tuple(dout.shape) != tuple(out.shape):
        o.b(f"PadToStride DataPipe output {tuple(dout.shape[-2:])} is not the least multiple of {s} >= {(H, W)}")
    elif not torch.equal(dout[..., :H, :W], img) or (dout[..., H:, :] != 0).any() or (dout[..., :, W:] != 0).any():
        o.b("PadToStride DataPipe changed or moved the original pixels / padding not zero at the bottom/right")


def run_bbox(I, c, m, o):
    cen = I.torch.tensor([[float(c["cx"]), float(c["cy"])]])
    bb = I.ic.make_centered_bboxes(cen, c["h"], c["w"])[0].tolist()
    for k, (a, b) in enumerate(zip(bb, model_pts(m))):
        if not kp_close(tuple(a), b, atol=1e-5):
            o.d(f"bbox corner {k}: impl {a} model {b}")


def run_crop(I, c, m, o):
    torch, np = I.torch, I.np
    imgs = I.images(c)
    inst = I.pts_tensor(c["pts"], (len(c["pts"]), 2))
    cen = torch.tensor([float(c["cx"]), float(c["cy"])])
    outs = [I.ic.generate_crops(im, inst, cen, (c["h"], c["w"])) for im in imgs]
    s0 = outs[0]
    for s_ in outs:
        if tuple(s_["instance_image"].shape[-2:]) != (c["h"], c["w"]):
            o.b(f"crop is {tuple(s_['instance_image'].shape[-2:])}, requested {(c['h'], c['w'])}")
            return
    if m[0][:2] != [c["h"], c["w"]]:
        o.d(f"model crop size {m[0][:2]}")
    for s_ in outs[-1:]:
        check_zero_fill(I, o, s_["instance_image"][0, -1].double().numpy(), s_["instance_bbox"][0][0].tolist(),
                        (c["H"], c["W"]), m[0][2:10], "generate_crops: ")
    pts_out = kp_list(s0["instance"])
    for k, (a, b) in enumerate(zip(pts_out, model_pts(m))):
        if not kp_close(a, b):
            o.d(f"keypoint {k}: impl {a} model {b}")
    if not kp_close(kp_list(s0["centroid"])[0], model_pts(m, 1)[0]):
        o.d(f"centroid: impl {kp_list(s0['centroid'])[0]} model {model_pts(m, 1)[0]}")
    registration(I, o, [s_["instance_image"] for s_ in outs] if c["gray"] else s0["instance_image"],
                 (c["H"], c["W"]), c["pts"], pts_out, False, [False] * len(c["pts"]), model_affs(m))


def check_zero_fill(I, o, M, corner, src_hw, mz, label):
    """crops near / across the border: M = the mask channel of the crop of a ramp image (1 inside
    the source image).  Oracle (from the bbox the code returned): output pixel (i, j) shows the
    source position corner + (j, i); where that is >= 1 px outside the image the crop must be
    zero (no wrap / replicate / reflect), where it is inside the image the mask must be one.
    Correspondence: the fully valid rectangle equals Geometry.crop_valid."""
    np = I.np
    H, W = src_hw
    h, w = M.shape
    sx = corner[0] + np.arange(w)
    sy = corner[1] + np.arange(h)
    eps = 2e-3
    in_x, in_y = (sx >= -eps) & (sx <= W - 1 + eps), (sy >= -eps) & (sy <= H - 1 + eps)
    out_x, out_y = (sx <= -1 + eps) | (sx >= W - eps), (sy <= -1 + eps) | (sy >= H - eps)
    inside = np.outer(in_y, in_x)
    outside = out_y[:, None] | out_x[None, :]
    if inside.any() and np.abs(M[inside] - 1).max() > 5e-3:
        o.b(f"{label}crop pixels whose source position is inside the image do not show the image (mask "
            f"{float(M[inside].min()):.3f})")
    if outside.any() and np.abs(M[outside]).max() > 5e-3:
        o.b(f"{label}crop pixels whose source position is outside the image are not zero (out-of-image region "
            f"filled with image content: mask {float(np.abs(M[outside]).max()):.3f})")
    if mz is not None:
        lox, hix, zbx, zax, loy, hiy, zby, zay = mz
        full = M > 0.999
        exp = np.zeros_like(full)
        if hiy >= loy and hix >= lox:
            exp[loy:hiy + 1, lox:hix + 1] = True
        # positions within float noise of the boundary are not compared
        amb = np.outer(np.ones(h, bool), (np.abs(sx) < eps) | (np.abs(sx - (W - 1)) < eps)) | \
            np.outer((np.abs(sy) < eps) | (np.abs(sy - (H - 1)) < eps), np.ones(w, bool))
        if ((full != exp) & ~amb).any():
            o.d(f"{label}valid rectangle of the crop differs from Geometry.crop_valid "
                f"x[{lox},{hix}] y[{loy},{hiy}]")
        expz = np.zeros_like(full)
        expz[:max(0, zby + 1), :] = True
        expz[max(0, zay):, :] = True
        expz[:, :max(0, zbx + 1)] = True
        expz[:, max(0, zax):] = True
        if (expz & (np.abs(M) > 5e-3)).any():
            o.d(f"{label}zero-fill region differs from Geometry.crop_zero_below/above")
    o.stats["zero_fill_checked"] = o.stats.get("zero_fill_checked", 0) + 1


def run_cropper(I, c, m, o):
    """InstanceCropper DataPipe: one crop per (centroid, instance) for the first num_instances pairs"""
    torch, np = I.torch, I.np
    H, W, h, w = c["H"], c["W"], c["h"], c["w"]
    n_inst, n_pad, n_nodes = c["n_inst"], c["n_pad"], c["n_nodes"]
    flat = [p for inst in c["insts"] for p in inst] + [None] * (n_pad * n_nodes)
    inst_t = I.pts_tensor(flat, (1, n_inst + n_pad, n_nodes, 2))
    cen_t = I.pts_tensor(list(c["cents"]) + [None] * n_pad, (1, n_inst + n_pad, 2))
    per_frame = []
    for im in I.images(c):
        ex = {"image": im, "instances": inst_t.clone(), "centroids": cen_t.clone(), "num_instances": n_inst,
              "video_idx": 0}
        got = []
        for y in I.ic.InstanceCropper([ex], (h, w)):      # the DataPipe re-yields ONE dict: observe at yield time
            got.append({k: (v.clone() if hasattr(v, "clone") else v) for k, v in y.items()})
        per_frame.append(got)
    if any(len(g) != n_inst for g in per_frame):
        o.b(f"InstanceCropper yielded {[len(g) for g in per_frame]} crops for {n_inst} labelled instances")
        return
    if len(m[2]) != n_inst:
        o.d(f"model yields {len(m[2])} crops, expected {n_inst}")
        return
    for j in range(n_inst):
        frs = [g[j] for g in per_frame]
        for y in frs:
            if tuple(y["instance_image"].shape[-2:]) != (h, w):
                o.b(f"InstanceCropper crop {j} is {tuple(y['instance_image'].shape[-2:])}, requested {(h, w)}")
                return
        mp = model_pts(m, j)
        pts_out = kp_list(frs[0]["instance"])
        for k, (a, b) in enumerate(zip(pts_out + kp_list(frs[0]["centroid"]), mp)):
            if not kp_close(a, b):
                o.d(f"InstanceCropper crop {j} keypoint {k}: impl {a} model {b}")
        cx, cy = c["cents"][j]
        x1, y1 = cx - F(w, 2) + F(1, 2), cy - F(h, 2) + F(1, 2)
        A = ((F(1), -x1), (F(1), -y1))
        check_zero_fill(I, o, frs[-1]["instance_image"][0, -1].double().numpy(), frs[-1]["instance_bbox"][0][0].tolist(),
                        (H, W), None, f"InstanceCropper crop {j}: ")
        registration(I, o, [y["instance_image"] for y in frs] if c["gray"] else frs[0]["instance_image"], (H, W),
                     c["insts"][j], pts_out, False, [False] * n_nodes, A, label=f"InstanceCropper crop {j}: ")


def run_smdp(I, c, m, o):
    """SizeMatcher DataPipe: pads only (bottom/right), maxima fixed by the first image when None, raises when larger"""
    torch, np = I.torch, I.np
    sizes = [tuple(x) for x in c["sizes"]]
    kp = I.pts_tensor(c["pts"], (1, 1, len(c["pts"]), 2))
    g = torch.Generator().manual_seed(sizes[0][0] * 1000 + sizes[0][1])
    imgs = [torch.rand((1, 1 if c["gray"] else 3, hh, ww), generator=g) + 0.5 for hh, ww in sizes]
    exs = [{"image": im.clone(), "instances": kp.clone()} for im in imgs]
    got, err = [], None
    try:
        if c.get("provider"):
            class Provider:
                max_height_and_width = (c["mh"], c["mw"])
            dp = I.rz.SizeMatcher(exs, provider=Provider())
        else:
            dp = I.rz.SizeMatcher(exs, max_height=c["mh"], max_width=c["mw"])
        for y in dp:
            got.append(y)
    except Exception as e:                                 # the DataPipe raises a bare Exception
        err = str(e)
    mh = sizes[0][0] if c["mh"] is None else c["mh"]
    mw = sizes[0][1] if c["mw"] is None else c["mw"]
    fits = [hh <= mh and ww <= mw for hh, ww in sizes]
    n_ok = fits.index(False) if False in fits else len(sizes)
    me, msz = bool(m[0][0]), [tuple(m[0][1 + 2 * i:3 + 2 * i]) for i in range((len(m[0]) - 1) // 2)]
    if me != (err is not None) or msz != [tuple(y["image"].shape[-2:]) for y in got]:
        o.d(f"SizeMatcher DataPipe yielded {[tuple(y['image'].shape[-2:]) for y in got]} raised={err is not None}; "
            f"model {msz} raised={me}")
    if err is not None and all(fits):
        o.b(f"SizeMatcher DataPipe raised although every image fits ({mh},{mw}): {err[:80]}")
    if len(got) != n_ok:
        o.b(f"SizeMatcher DataPipe yielded {len(got)} examples, {n_ok} images fit before the first that is too large")
        return
    o.stats["smdp_raised"] = int(err is not None)
    for y, im, (hh, ww) in zip(got, imgs, sizes):
        out = y["image"]
        if tuple(out.shape[-2:]) != (mh, mw):
            o.b(f"SizeMatcher DataPipe output {tuple(out.shape[-2:])} is not (max_height, max_width) = {(mh, mw)}")
            return
        if not torch.equal(out[..., :hh, :ww], im) or (out[..., hh:, :] != 0).any() or (out[..., :, ww:] != 0).any():
            o.b("SizeMatcher DataPipe changed or moved the original pixels (padding not only zero at the bottom/right)")
        if not torch.equal(torch.nan_to_num(y["instances"], nan=-7.0), torch.nan_to_num(kp, nan=-7.0)):
            o.b("SizeMatcher DataPipe only pads at the bottom/right but changed the keypoints")


def check_defects(c, m, o, label=""):
    """the size defects the selectors are stated in: Python mirror == Coq record fields, and the closed form
    perr == the error of the modelled maps at both ends of each axis (theorem c04_pipe_*_error_formula, here
    as a per-case check of the very numbers the selectors use)"""
    pp = py_pipe(c["H"], c["W"], c["mh"], c["mw"], c["s"])
    q = [core.frac(v) for v in m[1]]
    if pp is None or len(q) < 11:
        o.d(f"{label}size defects: no pipeline / model result too short")
        return
    if (q[8], q[9], q[10]) != (pp["k"], pp["dx"], pp["dy"]):
        o.d(f"{label}factor / size defects: python {(pp['k'], pp['dx'], pp['dy'])} coq {(q[8], q[9], q[10])}")
    for (A, K, d, n) in (((q[0], q[1]), (q[4], q[5]), pp["dx"], pp["nx"]), ((q[2], q[3]), (q[6], q[7]), pp["dy"], pp["ny"])):
        for x in (F(0), F(n - 1)):
            if ap(A, x) - ap(K, x) != py_perr(d, pp["k"], n, x):
                o.d(f"{label}closed form of the pipeline error differs from the modelled maps at x={x}")


def run_full(I, c, m, o):
    """the functional API chained in the order the datasets use: size matcher, * eff, resizer, stride pad"""
    torch, np = I.torch, I.np
    imgs = I.images(c)
    inst0 = I.pts_tensor(c["pts"], (1, 1, len(c["pts"]), 2))
    finals = []
    for im in imgs:
        im, eff = I.rz.apply_sizematcher(im, c["mh"], c["mw"])
        inst = inst0 * eff
        im, inst = I.rz.apply_resizer(im, inst, float(c["s"]))
        content_hw = im.shape[-2:]
        im = I.rz.apply_pad_to_stride(im, c["stride"])
        finals.append((im, inst))
    check_full_output(I, c, m, o, [f[0] for f in finals], kp_list(finals[0][1]), c["pts"])


def check_full_output(I, c, m, o, imgs_out, pts_out, pts_in, unit=1.0, label=""):
    np = I.np
    if m is None:
        o.d("model says error, implementation returned")
        return None
    s, st = c["s"], c["stride"]
    mh = c["H"] if c["mh"] is None else c["mh"]
    mw = c["W"] if c["mw"] is None else c["mw"]
    pre = (mh, mw) if s == 1 else (math.floor(mh * s), math.floor(mw * s))
    want = tuple(-(-n // st) * st for n in pre)
    for im in imgs_out:
        if tuple(im.shape[-2:]) != want:
            o.b(f"{label}output {tuple(im.shape[-2:])} is not the least multiple of {st} >= "
                f"(max_h,max_w)*scale = {pre}, i.e. {want}")
            return None
    if (m[0][1], m[0][0]) != want:
        o.d(f"{label}model output size {(m[0][1], m[0][0])} vs {want}")
    X, Y, M = as_xym(np, imgs_out if len(imgs_out) == 3 else imgs_out[0])
    vr = valid_rect(np, M, blur=0 if s == 1 else int(math.ceil(float(s))) + 2)
    if isinstance(vr, str):
        o.b(label + vr)
        return None
    for k, (a, b) in enumerate(zip(pts_out, model_pts(m))):
        if not kp_close(a, b):
            o.d(f"{label}keypoint {k}: impl {a} model {b}")
    f11, f11b = py_selectors(c["H"], c["W"], c["mh"], c["mw"], s, pts_in)
    f11x, f11bx = py_selectors(c["H"], c["W"], c["mh"], c["mw"], s, pts_in, margin=F(1))
    if bool(m[0][3]) != f11x or [bool(v) for v in m[0][5:]] != f11bx or bool(m[0][4]) != any(f11bx):
        o.d(f"{label}selectors: python {(f11x, f11bx)} coq {(m[0][3], m[0][5:])}")
    check_defects(c, m, o, label)
    return registration(I, o, imgs_out if len(imgs_out) == 3 else imgs_out[0], (c["H"], c["W"]), pts_in, pts_out,
                        f11, f11b, model_affs(m), unit, label, slack=ripple(c["H"], c["W"], c["mh"], c["mw"], c["s"]))


def run_centered(I, c, m, o):
    """functional chain of CenteredInstanceDataset: size matcher, resizer, over-crop, re-crop, pad"""
    torch, np = I.torch, I.np
    imgs = I.images(c)
    n = len(c["pts"])
    inst0 = I.pts_tensor(c["pts"], (1, n, 2))
    finals = []
    for im in imgs:
        im, eff = I.rz.apply_sizematcher(im, c["mh"], c["mw"])
        inst = inst0 * eff
        im, inst = I.rz.apply_resizer(im, inst, float(c["s"]))
        cen = inst[0][0]
        over = (np.array((c["ch"], c["cw"])) * np.sqrt(2)).astype(np.int32).tolist()
        smp = I.ic.generate_crops(im, inst[0], cen, over)
        bbox = I.ic.make_centered_bboxes(smp["centroid"][0], c["ch"], c["cw"]).unsqueeze(0)
        from kornia.geometry.transform import crop_and_resize
        im2 = crop_and_resize(smp["instance_image"], boxes=bbox, size=(c["ch"], c["cw"]))
        pt = bbox[0][0]
        kp = smp["instance"] - pt
        im2 = I.rz.apply_pad_to_stride(im2, c["stride"])
        finals.append((im2, kp))
    check_centered_output(I, c, m, o, [f[0] for f in finals], kp_list(finals[0][1]), c["pts"])


def check_centered_output(I, c, m, o, imgs_out, pts_out, pts_in, unit=1.0, label=""):
    if m is None:
        o.d("model says error, implementation returned")
        return None
    st = c["stride"]
    want = tuple(-(-n // st) * st for n in (c["ch"], c["cw"]))
    for im in imgs_out:
        if tuple(im.shape[-2:]) != want:
            o.b(f"{label}crop output {tuple(im.shape[-2:])} is not crop_hw {(c['ch'], c['cw'])} padded to stride {st}")
            return None
    if (m[0][1], m[0][0]) != want:
        o.d(f"{label}model output size {(m[0][1], m[0][0])} vs {want}")
    for k, (a, b) in enumerate(zip(pts_out, model_pts(m))):
        if not kp_close(a, b):
            o.d(f"{label}keypoint {k}: impl {a} model {b}")
    f11, f11b = py_selectors(c["H"], c["W"], c["mh"], c["mw"], c["s"], pts_in)
    f11x, f11bx = py_selectors(c["H"], c["W"], c["mh"], c["mw"], c["s"], pts_in, margin=F(1))
    if bool(m[0][3]) != f11x or [bool(v) for v in m[0][5:]] != f11bx or bool(m[0][4]) != any(f11bx):
        o.d(f"{label}selectors: python {(f11x, f11bx)} coq {(m[0][3], m[0][5:])}")
    check_defects(c, m, o, label)
    return registration(I, o, imgs_out if len(imgs_out) == 3 else imgs_out[0], (c["H"], c["W"]), pts_in, pts_out,
                        f11, f11b, model_affs(m), unit, label, slack=ripple(c["H"], c["W"], c["mh"], c["mw"], c["s"]))


# ---- find_instance_crop_size ------------------------------------------------
class FakeInst:
    def __init__(self, np, pts):
        self._np = np
        self._pts = np.array([[np.nan, np.nan] if p is None else [float(p[0]), float(p[1])] for p in pts],
                             dtype="float64").reshape(len(pts), 2)

    def numpy(self):
        return self._pts.copy()

    @property
    def is_empty(self):
        return bool(self._np.isnan(self._pts).all())


class FakeVideo:
    def __init__(self, shape):
        self.shape = shape

    def close(self):
        pass


class FakeLF:
    def __init__(self, insts, image, frame_idx, video):
        self.instances = list(insts)
        self.user_instances = list(insts)
        self.image = image
        self.frame_idx = frame_idx
        self.video = video

    def __iter__(self):
        return iter(self.instances)

    def __len__(self):
        return len(self.instances)


class FakeSkeleton:
    def __init__(self, n):
        self.edge_inds = [(i, i + 1) for i in range(n - 1)]
        self.node_names = [f"n{i}" for i in range(n)]


class FakeLabels:
    def __init__(self, lfs, videos, n_nodes):
        self.labeled_frames = lfs
        self.videos = videos
        self.skeletons = [FakeSkeleton(n_nodes)]

    def __getitem__(self, i):
        return self.labeled_frames[i]

    def __iter__(self):
        return iter(self.labeled_frames)

    def __len__(self):
        return len(self.labeled_frames)


def run_cropsize(I, c, m, o):
    np = I.np
    lfs = [FakeLF([FakeInst(np, inst)], None, k, None) for k, inst in enumerate(c["insts"])]
    labels = FakeLabels(lfs, [], 2)
    import warnings
    with warnings.catch_warnings():
        warnings.simplefilter("ignore")          # numpy: all-NaN slice
        got = I.ic.find_instance_crop_size(labels, padding=c["padding"], maximum_stride=c["stride"],
                                           input_scaling=float(c["scale"]), min_crop_size=c["min_crop"])
    if got != m[0][0]:
        o.d(f"find_instance_crop_size {got} vs model {m[0][0]}")
    mc = c["min_crop"] or 0
    user = mc > 0 and mc % c["stride"] == 0
    if not isinstance(got, int) or got % c["stride"] != 0:
        o.b(f"crop size {got} is not a multiple of max_stride {c['stride']}")
    if got < mc and c["insts"]:          # (labels without any instance: the minimum is never applied)
        o.b(f"crop size {got} < min_crop_size {mc}")
    if user:
        if got != mc:
            o.b(f"user crop size {mc} (stride-aligned) not returned unchanged: {got}")
        o.stats["cropsize_user"] = 1
    else:
        need = F(0)
        for inst in c["insts"]:
            vis = [p for p in inst if p is not None]
            if vis:
                need = max(need, (max(p[0] for p in vis) - min(p[0] for p in vis)) * c["scale"],
                           (max(p[1] for p in vis) - min(p[1] for p in vis)) * c["scale"])
        if got < need + c["padding"]:
            o.b(f"crop size {got} does not cover the largest instance ({float(need)} + padding {c['padding']})")
        elif c["insts"] and got - c["stride"] >= max(need, mc - c["padding"]) + c["padding"]:
            o.b(f"crop size {got} is not the least multiple of {c['stride']} covering {float(need)}")


# ---- augmentation wrappers --------------------------------------------------
def mat_fracs(tm):
    """recorded (1,3,3) float32 matrix -> six exact Fractions (a,b,tx,c,d,ty)"""
    r = tm[0].tolist()
    return [F(r[0][0]), F(r[0][1]), F(r[0][2]), F(r[1][0]), F(r[1][1]), F(r[1][2])]


def run_aug(I, c, o):
    """returns the recorded matrix (as Fractions) for the model term, or None"""
    torch, np = I.torch, I.np
    H, W = c["H"], c["W"]
    n_inst, n_nodes = len(c["insts"]), c["n_nodes"]
    flat = [p for inst in c["insts"] for p in inst]
    shape = (1, n_inst, n_nodes, 2) if c["rank4"] else (1, n_nodes, 2)
    inst = I.pts_tensor(flat, shape)
    imgs = I.images(c)
    outs, mats = [], []
    for im in imgs:
        torch.manual_seed(c["aug_seed"])
        I.recorded.clear()
        fn = I.au.apply_geometric_augmentation if c["which"] == "geometric" else I.au.apply_intensity_augmentation
        oi, ok = fn(im.clone(), inst.clone(), **c["aug_cfg"])
        outs.append((oi, ok))
        mats.append(I.recorded[-1] if I.recorded else None)
    oi, ok = outs[0]
    if tuple(ok.shape) != shape:
        o.b(f"augmentation wrapper returned keypoints of shape {tuple(ok.shape)}, given {shape}")
        return None
    if tuple(oi.shape) != tuple(imgs[0].shape):
        o.b(f"augmentation changed the image shape {tuple(imgs[0].shape)} -> {tuple(oi.shape)}")
        return None
    pts_out = kp_list(ok)
    if c["which"] == "intensity":
        same = torch.equal(torch.nan_to_num(ok, nan=-7.0), torch.nan_to_num(inst, nan=-7.0))
        if not same:
            o.b("intensity-only augmentation moved keypoints")
        tm = mats[0]
        if tm is not None and not torch.allclose(tm[0], torch.eye(3)):
            o.d("kornia intensity ops reported a non-identity transform (oracle contract)")
        c["_pts_out"] = pts_out
        return [F(1), F(0), F(0), F(0), F(1), F(0)]
    if any(mm is None for mm in mats) or any(not torch.equal(mm, mats[0]) for mm in mats):
        o.d("could not read back one transform matrix for all frames")
        return None
    # content vs keypoints: same transform
    mq = mat_fracs(mats[0])
    located = []
    registration(I, o, [x[0] for x in outs] if c["gray"] else oi, (H, W), flat, pts_out,
                 False, [False] * len(flat), None, 1.0, "geometric augmentation: ",
                 sel=lambda k: SEL_F04K if py_sel_f04k(H, W, mq, flat[k]) else None, located=located)
    c["_pts_out"] = pts_out
    c["_located"] = located
    return mq


def run_aug1(I, c, o):
    """augmentation options one at a time / in combination, probabilities < 1, batches of 2, through the wrapper
    functions (via = fn) or the KorniaAugmenter DataPipe (via = dp).  The stack (which operations, which were
    applied, the affine's own matrix) is read back from kornia per call and modelled by Geometry.stack_kp."""
    torch, np = I.torch, I.np
    H, W, B, n_nodes = c["H"], c["W"], c["batch"], c["n_nodes"]
    n_inst = len(c["insts"][0])
    shape = (B, n_inst, n_nodes, 2) if c["rank4"] else (B, n_nodes, 2)
    flat_b = [[p for inst in b for p in inst] for b in c["insts"]]
    inst = I.pts_tensor([p for fb in flat_b for p in fb], shape)
    ops = c["ops"]
    geo_only = all(op in ("affine", "erase", "mixup") for op in ops)
    int_only = all(op in ("uniform", "gaussian", "contrast", "brightness") for op in ops)
    C = 1 if (c["gray"] and not geo_only) else 3
    if geo_only:
        img = ramp3(torch, H, W).repeat(B, 1, 1, 1)
    else:                                                   # dots at the (integer) keypoints on a dark image
        img = torch.zeros((B, C, H, W))
        for b, fb in enumerate(flat_b):
            for p in fb:
                if p is not None:
                    img[b, :, int(p[1]), int(p[0])] = 0.9
    torch.manual_seed(c["aug_seed"])
    I.recorded.clear()
    I.rec_ops.clear()
    if c["via"] == "dp":
        ex = next(iter(I.au.KorniaAugmenter([{"image": img.clone(), "instances": inst.clone()}], **c["aug_cfg"])))
        oi, ok = ex["image"], ex["instances"]
    else:
        fn = I.au.apply_geometric_augmentation if c["which"] == "geometric" else I.au.apply_intensity_augmentation
        oi, ok = fn(img.clone(), inst.clone(), **c["aug_cfg"])
    if tuple(ok.shape) != shape:
        o.b(f"augmentation returned keypoints of shape {tuple(ok.shape)}, given {shape}")
        return
    if tuple(oi.shape) != tuple(img.shape):
        o.b(f"augmentation changed the image shape {tuple(img.shape)} -> {tuple(oi.shape)}")
        return
    if "affine" not in ops:
        # erase / mixup / noise / contrast / brightness: keypoints returned exactly as given
        if not torch.equal(torch.nan_to_num(ok, nan=-7.0), torch.nan_to_num(inst, nan=-7.0)):
            o.b(f"augmentation without an affine operation ({'+'.join(ops)}) moved keypoints")
    if not I.rec_ops:
        o.d("could not read back the augmentation stack")
        return
    names = [OP_NAMES.get(n, n) for n, _, _ in I.rec_ops[-1]]
    if sorted(names) != ops:
        o.d(f"augmentation stack {names} but the options with p > 0 are {ops}")
        return
    c["_stack"] = []
    for b in range(B):
        entries = []
        for (n, bp, om) in I.rec_ops[-1]:
            name = OP_NAMES[n]
            applied = bool(bp is not None and bp[min(b, len(bp) - 1)] > 0.5)
            mq = None
            if name == "affine":
                if om is None:
                    o.d("RandomAffine did not report its matrix")
                    return
                mq = mat_fracs(om[min(b, om.shape[0] - 1):][:1])
            elif om is not None and not torch.allclose(om[min(b, om.shape[0] - 1)], torch.eye(3)):
                o.d(f"kornia {n} reported a non-identity transform (oracle contract)")
            entries.append((name, applied, mq))
        pts_out = kp_list(ok[b])
        item = {"entries": entries, "insts": c["insts"][b], "pts_out": pts_out, "located": None, "mq": None}
        aff = [e for e in entries if e[0] == "affine"]
        moved = bool(aff and aff[0][1])
        if not moved and not all(kp_close(a, None if q is None else (float(q[0]), float(q[1])), atol=0, rtol=0)
                                 for a, q in zip(pts_out, flat_b[b])):
            o.b(f"no affine operation was applied (stack {names}) but keypoints of batch element {b} moved")
        if geo_only:
            mq = aff[0][2] if moved else [F(1), F(0), F(0), F(0), F(1), F(0)]
            sel_name = SEL_F04P if c["via"] == "dp" else SEL_F04K
            located = []
            registration(I, o, oi[b:b + 1], (H, W), flat_b[b], pts_out, False, [False] * len(flat_b[b]), None, 1.0,
                         f"augmentation ({c['via']}, {'+'.join(ops)}) batch element {b}: ",
                         sel=lambda k, mq=mq, fb=flat_b[b]: sel_name if py_sel_f04k(H, W, mq, fb[k]) else None,
                         located=located)
            item["located"], item["mq"] = located, mq
        elif int_only:
            out = oi[b]
            for k, p in enumerate(flat_b[b]):
                if p is None:
                    continue
                x, y = int(p[0]), int(p[1])
                v = out[:, y, x]
                nb = out[:, y - 1:y + 2, x - 1:x + 2].clone()
                dots = img[b, :, y - 1:y + 2, x - 1:x + 2] > 0.5
                nb[dots] = -1.0
                if not bool((v > nb.reshape(C, -1).max(dim=1).values).all()):
                    o.b(f"intensity augmentation ({'+'.join(ops)}): the bright pixel at keypoint {k} ({x},{y}) is no "
                        f"longer where the (unmoved) keypoint is")
            o.stats["dot_checked"] = o.stats.get("dot_checked", 0) + 1
        c["_stack"].append(item)


def run_aug_default(I, c, o):
    """kornia's RandomAffine with its DEFAULT align_corners=False, called directly (no code of the current
    tree takes this path any more: findings F04k / F04p are fixed).  Keeps the historic model `warp_mech false`
    (= D m D^-1, theorems c04_warp_mech_default, c04_aug_square_*, c04_aug_nonsquare_refuted) and selector_F04k
    tied to the library on every run."""
    import kornia as K
    torch, np = I.torch, I.np
    H, W = c["H"], c["W"]
    torch.manual_seed(c["aug_seed"])
    aug = K.augmentation.RandomAffine(degrees=c["deg"], translate=tuple(c["tr"]), scale=tuple(c["sc"]), p=1.0,
                                      keepdim=True, same_on_batch=True)
    out = aug(ramp3(torch, H, W))
    tm = aug.transform_matrix
    if tm is None:
        o.d("RandomAffine (default) did not report its matrix")
        return
    c["_mat"] = mat_fracs(tm)
    fit = fit_content(np, *as_xym(np, out), (H, W))
    c["_located"] = []
    if fit is None:
        o.stats["content_unmeasured"] = o.stats.get("content_unmeasured", 0) + 1
        return
    for k, p in enumerate(c["pts"]):
        if p is None:
            continue
        a = fwd(fit, (float(p[0]), float(p[1])))
        u = fit_unc(fit, a)
        if u <= 0.4 and -0.5 <= a[0] <= W - 0.5 and -0.5 <= a[1] <= H - 0.5:
            c["_located"].append((k, a, u))
    o.stats["default_warp_located"] = o.stats.get("default_warp_located", 0) + len(c["_located"])


# ---- datasets end to end ----------------------------------------------------
def overcrop(c):
    return (math.isqrt(2 * c["ch"] * c["ch"]), math.isqrt(2 * c["cw"] * c["cw"]))


def ds_config(I, c, apply_aug):
    aug = {}
    if c.get("aug") and apply_aug:
        aug = {c["aug"]: dict(c["aug_cfg"])}
    return I.OC.create({"user_instances_only": True,
                        # every key of the PreprocessingConfig schema the datasets read (max_height / max_width:
                        # None = use the max_hw argument, as every docstring says; the code reads both since the
                        # F180 repair, the chunk functions always did)
                        "preprocessing": dict({"is_rgb": (not c["gray"]) != bool(c.get("conv"))}, **mx_routing(c)[0]),
                        "augmentation_config": aug})


def mx_routing(c):
    """-> (config entries, max_hw argument) for the effective maxima (c["mh"], c["mw"]) and the route c["mx_via"]"""
    via = c.get("mx_via", "arg")
    mh, mw = c["mh"], c["mw"]
    decoy = lambda v, d: None if v is None else v + d           # a config value wins over the argument
    if via == "cfg":
        return {"max_height": mh, "max_width": mw}, (decoy(mh, 7), decoy(mw, -3 if (mw or 0) > 11 else 5))
    if via == "mixed":
        return {"max_height": mh, "max_width": None}, (decoy(mh, -2 if (mh or 0) > 10 else 9), mw)
    if via == "absent":
        return {}, (mh, mw)
    return {"max_height": None, "max_width": None}, (mh, mw)


def make_labels(I, c):
    np = I.np
    H, W = c["H"], c["W"]
    ys, xs = np.meshgrid(np.arange(H), np.arange(W), indexing="ij")
    chans = [xs.astype(np.uint8), ys.astype(np.uint8), np.full((H, W), 255, np.uint8)]
    if c["gray"]:
        frames = [ch[..., None] for ch in chans]            # (conv: is_rgb -> convert_to_rgb repeats the channel)
    elif c.get("conv"):
        frames = [np.stack([ch] * 3, -1) for ch in chans]   # RGB frames with R=G=B, is_rgb False -> convert_to_grayscale
    else:
        frames = [np.stack(chans, -1)]
    video = FakeVideo((len(frames), H, W, frames[0].shape[-1]))
    lfs = [FakeLF([FakeInst(np, inst) for inst in c["pts"]], fr, k, video) for k, fr in enumerate(frames)]
    return FakeLabels(lfs, [video], len(c["pts"][0]))


def three_frames(c):
    return bool(c["gray"] or c.get("conv"))


def norm_img(c, im):
    """RGB frames converted to grayscale come out multiplied by 0.2989 + 0.587 + 0.114 = 0.9999"""
    return im / 0.9999 if (c.get("conv") and not c["gray"]) else im


def build_ds(I, c, labels, apply_aug, chunks_path=None):
    cd, OC = I.cd, I.OC
    cfg = ds_config(I, c, apply_aug)
    head = OC.create({"sigma": 1.5, "output_stride": 2, "anchor_part": c.get("anchor")})
    kw = dict(labels=labels, data_config=cfg, max_stride=c["stride"], scale=float(c["s"]),
              apply_aug=apply_aug, max_hw=mx_routing(c)[1])
    if chunks_path is not None:
        kw.update(np_chunks=True, np_chunks_path=str(chunks_path))
    if c["ds"] == "bottomup":
        return cd.BottomUpDataset(confmap_head_config=head, pafs_head_config=OC.create({"sigma": 4, "output_stride": 4}), **kw)
    if c["ds"] == "single":
        return cd.SingleInstanceDataset(confmap_head_config=head, **kw)
    if c["ds"] == "centroid":
        return cd.CentroidDataset(confmap_head_config=head, **kw)
    return cd.CenteredInstanceDataset(confmap_head_config=head, crop_hw=(c["ch"], c["cw"]), **kw)


def ds_samples(I, c, ds, apply_aug):
    """one list of samples per logical item; each item has 1 (RGB) or 3 (gray) frames"""
    torch = I.torch
    nfr = 3 if three_frames(c) else 1
    per_frame = len(ds) // nfr
    items = []
    for j in range(per_frame):
        frs, mats = [], []
        for f in range(nfr):
            torch.manual_seed(c.get("aug_seed", 0) + j)
            I.recorded.clear()
            frs.append(ds[f * per_frame + j])
            mats.append([None if t is None else t.clone() for t in I.recorded])
        items.append((frs, mats))
    return items


def run_dataset(I, c, ms, o):
    """ms: list of model results (one per item: full -> 1, centered -> one per instance)"""
    torch, np = I.torch, I.np
    labels = make_labels(I, c)
    ds = build_ds(I, c, labels, False)
    key_img = "instance_image" if c["ds"] == "centered" else "image"
    key_pts = {"centered": "instance", "centroid": "centroids"}.get(c["ds"], "instances")
    if (c["H"] + c["W"] + len(c["pts"])) % 2:
        # in half of the dataset cases the measured read is the SECOND read of every index (the in-memory
        # datasets serve repeated reads from a cache: registration must not depend on the read history)
        ds_samples(I, c, ds, False)
    base = ds_samples(I, c, ds, False)
    n_items = len(c["pts"]) if c["ds"] == "centered" else 1
    if len(base) != n_items:
        o.d(f"dataset has {len(base)} items per frame, expected {n_items}")
        return
    flat = [p for inst in c["pts"] for p in inst]
    fits = []
    for j, (frs, _) in enumerate(base):
        imgs = [norm_img(c, s_[key_img]) for s_ in frs]
        m = ms[j]
        if c["ds"] == "centered":
            pin = c["pts"][j]
            pout = kp_list(frs[0][key_pts])
            fits.append(check_centered_output(I, c, m, o, imgs, pout, pin, unit=1 / 255, label=f"{c['ds']} item {j}: "))
        else:
            if c["ds"] == "centroid":
                pin = [centroid_of(c, inst) for inst in c["pts"]]
                m = ms[1]
            else:
                pin = flat
            pout = kp_list(frs[0][key_pts])[:len(pin)]
            fits.append(check_full_output(I, c, m, o, imgs, pout, pin, unit=1 / 255, label=f"{c['ds']}: "))
        c.setdefault("_base_pts", []).append(pout)
        c.setdefault("_pins", []).append(pin)
    if c.get("chunks"):
        # the np_chunks path (npz on disk, image through a PIL uint8 round trip): same sizes, same keypoints,
        # same image up to the uint8 quantisation -> the registration of the in-memory path carries over
        import shutil
        cdir = core.scratch_dir("sv_c04_chunks_")
        try:
            dsc = build_ds(I, c, make_labels(I, c), False, chunks_path=cdir)
            chk = ds_samples(I, c, dsc, False)
            if len(chk) != len(base):
                o.b(f"{c['ds']} np_chunks: {len(chk)} items, in-memory {len(base)}")
            for j, ((cf, _), (bf, _)) in enumerate(zip(chk, base)):
                for a, b in zip(cf, bf):
                    if tuple(a[key_img].shape) != tuple(b[key_img].shape):
                        o.b(f"{c['ds']} item {j} np_chunks: image {tuple(a[key_img].shape)} vs in-memory {tuple(b[key_img].shape)}")
                    elif float((a[key_img] - b[key_img]).abs().max()) > 1.01 / 255:
                        o.b(f"{c['ds']} item {j} np_chunks: image differs from the in-memory sample by "
                            f"{float((a[key_img] - b[key_img]).abs().max()) * 255:.2f} grey levels (uint8 round trip allows 1)")
                    ka, kb = a[key_pts].to(torch.float32), b[key_pts]
                    if tuple(ka.shape) != tuple(kb.shape) or not torch.equal(torch.nan_to_num(ka, nan=-7.0),
                                                                             torch.nan_to_num(kb, nan=-7.0)):
                        o.b(f"{c['ds']} item {j} np_chunks: keypoints differ from the in-memory sample")
            o.stats["chunks_checked"] = o.stats.get("chunks_checked", 0) + 1
        finally:
            shutil.rmtree(cdir, ignore_errors=True)
    if not c.get("aug"):
        return
    ds2 = build_ds(I, c, labels, True)
    augd = ds_samples(I, c, ds2, True)
    for j, ((frs, mats), (bfrs, _)) in enumerate(zip(augd, base)):
        pout = kp_list(frs[0][key_pts])
        bout = kp_list(bfrs[0][key_pts])
        if c["aug"] == "intensity":
            if len(pout) != len(bout) or any(not kp_close(a, b, atol=0, rtol=0) for a, b in zip(pout, bout)):
                o.b(f"{c['ds']} item {j}: intensity-only augmentation moved keypoints")
            continue
        if tuple(frs[0][key_img].shape) != tuple(bfrs[0][key_img].shape):
            o.b(f"{c['ds']} item {j}: geometric augmentation changed the output size")
            continue
        if any(len(mm) != 1 or mm[0] is None or not torch.equal(mm[0], mats[0][0]) for mm in mats):
            o.d(f"{c['ds']} item {j}: could not read back one transform per frame")
            continue
        # the step itself: content moved by T_img = fit_aug o fit_base^-1, keypoints by the code
        X, Y, M = as_xym(np, [norm_img(c, s_[key_img]) for s_ in frs] if three_frames(c) else frs[0][key_img])
        fa = fit_content(np, X, Y, M, (c["H"], c["W"]), 1 / 255)
        fb = fits[j]
        if fa is None or fb is None:
            o.stats["aug_unmeasured"] = o.stats.get("aug_unmeasured", 0) + 1
        else:
            o.stats["aug_measured"] = o.stats.get("aug_measured", 0) + 1
            Lb_inv = np.linalg.inv(fb[0])
            for k, (qb, qa) in enumerate(zip(bout, pout)):
                if qb is None or qa is None:
                    continue
                src = Lb_inv @ (np.array(qb) - fb[1])            # where that output position came from
                img_pos = fwd(fa, src)                           # where this content is after augmentation
                e = max(abs(img_pos[0] - qa[0]), abs(img_pos[1] - qa[1]))
                u = fit_unc(fa, img_pos) + fit_unc(fb, qb)
                h_out, w_out = M.shape
                if u > 0.5 or not (-0.5 <= img_pos[0] <= w_out - 0.5 and -0.5 <= img_pos[1] <= h_out - 0.5):
                    continue
                o.stats["worst_aug_err"] = max(o.stats.get("worst_aug_err", 0.0), e)
                if e - u >= 1.0:
                    ah, aw = (overcrop(c) if c["ds"] == "centered" else tuple(frs[0][key_img].shape[-2:]))
                    known = py_sel_f04k(ah, aw, mat_fracs(mats[0][0]), (F(qb[0]), F(qb[1])))
                    o.b(f"{c['ds']} item {j}: geometric augmentation moved the image content at keypoint {k} to "
                        f"({img_pos[0]:.3f},{img_pos[1]:.3f}) but the keypoint to ({qa[0]:.3f},{qa[1]:.3f})",
                        SEL_F04K if known else None)
        # keypoints follow the sampled matrix (correspondence of the wrapper model)
        c.setdefault("_aug", []).append((j, mat_fracs(mats[0][0]), pout))
        # END TO END (round 4): the augmented sample against the ORIGINAL labels — the content of every labelled
        # point is located in the augmented image (ramp) and compared with the keypoint the dataset returns.  The
        # pipeline's own offset is carried through the augmentation (multiplied by the matrix's linear part):
        # failures fall under F11 / F11b (already >= 1 px before) or F11c (amplified), anything else is a violation
        mq = mat_fracs(mats[0][0])
        pin = c["_pins"][j]
        po = pout[:len(pin)]
        f11, f11b = py_selectors(c["H"], c["W"], c["mh"], c["mw"], c["s"], pin)
        f11c = py_sel_f11c(c["H"], c["W"], c["mh"], c["mw"], c["s"], mq, pin)
        amp = max(1.0, max(abs(float(mq[0])) + abs(float(mq[1])), abs(float(mq[3])) + abs(float(mq[4]))))
        located = []
        registration(I, o, [norm_img(c, s_[key_img]) for s_ in frs] if three_frames(c) else frs[0][key_img],
                     (c["H"], c["W"]), pin, po, f11, f11b, None, 1 / 255,
                     f"{c['ds']} item {j}, augmented sample against the original labels: ",
                     sel=lambda k, f11=f11, f11b=f11b, f11c=f11c:
                         SEL_F11 if f11 else (SEL_F11B if f11b[k] else (SEL_F11C if f11c[k] else None)),
                     located=located, slack=amp * ripple(c["H"], c["W"], c["mh"], c["mw"], c["s"]))
        o.stats["aug_end_to_end"] = o.stats.get("aug_end_to_end", 0) + 1
        c.setdefault("_aug_full", []).append((j, mq, pin, po, located))


# ---- datasets over several videos --------------------------------------------
def multi_insts(vd):
    """the instances of a video's frames that produce samples (an all-NaN instance does not)"""
    return [inst for inst in vd["pts"] if any(p is not None for p in inst)]


def multi_sub(c, v):
    vd = c["videos"][v]
    return dict(c, kind="ds_centered" if c["ds"] == "centered" else "ds_full", H=vd["H"], W=vd["W"], pts=multi_insts(vd))


def multi_labels_desc(c):
    """(video, frame index, number of non-empty instances) per labelled frame, in label order"""
    return [(v, c["videos"][v]["fidx"] + k, len(multi_insts(c["videos"][v]))) for v, k in c["order"]]


def multi_terms(c):
    out = []
    for v in range(len(c["videos"])):
        cv = multi_sub(c, v)
        if c["ds"] == "centered":
            out += [term(cv, (inst, centroid_of(c, inst))) for inst in cv["pts"]]
        else:
            out += [term(cv), term(dict(cv, pts=[[centroid_of(c, inst) for inst in cv["pts"]]]))]
    lab = core.clist(multi_labels_desc(c), lambda f: "(%d, %d, %d)%%nat" % f)
    out.append(f"CFrameCache {core.cbool(c['ds'] == 'centered')} {lab}")
    return out


def make_labels_multi(I, c):
    """every video has its own size and its own image content: ramps shifted by the video's offsets
    (channel 0 = x + ox, channel 1 = y + oy, channel 2 = valid), so that a sample cut from another
    video's frame is located (ox - ox', oy - oy') * factor output px away from its keypoints"""
    np = I.np
    videos, lf_by = [], {}
    for v, vd in enumerate(c["videos"]):
        H, W = vd["H"], vd["W"]
        ox, oy = vd["off"]
        ys, xs = np.meshgrid(np.arange(H), np.arange(W), indexing="ij")
        chans = [(xs + ox).astype(np.uint8), (ys + oy).astype(np.uint8), np.full((H, W), 255, np.uint8)]
        if c["gray"]:
            frames = [ch[..., None] for ch in chans]
        elif c.get("conv"):
            frames = [np.stack([ch] * 3, -1) for ch in chans]
        else:
            frames = [np.stack(chans, -1)]
        video = FakeVideo((vd["fidx"] + len(frames), H, W, frames[0].shape[-1]))
        videos.append(video)
        for k, fr in enumerate(frames):
            lf_by[(v, k)] = FakeLF([FakeInst(np, inst) for inst in vd["pts"]], fr, vd["fidx"] + k, video)
    lfs = [lf_by[(v, k)] for v, k in c["order"]]
    return FakeLabels(lfs, videos, len(c["videos"][0]["pts"][0]))


def decode_multi(I, c, v, samples, key_img):
    """the sample images of one item (1 RGB frame or 3 channel frames) with the video's offsets removed"""
    torch = I.torch
    ox, oy = c["videos"][v]["off"]
    imgs = [norm_img(c, s_[key_img]) for s_ in samples]
    if len(imgs) == 3:
        return [imgs[0] - ox / 255.0, imgs[1] - oy / 255.0, imgs[2]]
    return [imgs[0] - torch.tensor([ox / 255.0, oy / 255.0, 0.0]).reshape(1, 3, 1, 1)]


def run_dataset_multi(I, c, ms, o):
    import random as _random
    import shutil
    torch = I.torch
    centered = c["ds"] == "centered"
    key_img = "instance_image" if centered else "image"
    key_pts = {"centered": "instance", "centroid": "centroids"}.get(c["ds"], "instances")
    nfr = 3 if three_frames(c) else 1
    desc = multi_labels_desc(c)
    index = [(pos, j) for pos in range(len(desc)) for j in (range(desc[pos][2]) if centered else [0])]
    # the frame-cache model: which (video, frame) every dataset index is cut from
    mc = ms[-1]
    mz = mc[0] if mc is not None else []
    want = [z for (pos, j) in index for z in (pos, j, desc[pos][0], desc[pos][1])]
    if list(mz) != want:
        o.d(f"multi {c['ds']}: frame-cache model {list(mz)[:24]} vs index space x own frame {want[:24]}")
    ds = build_ds(I, c, make_labels_multi(I, c), False)
    if len(ds) != len(index):
        o.b(f"multi {c['ds']}: dataset has {len(ds)} samples, the labels have {len(index)} "
            f"{'instances' if centered else 'labelled frames'}")
        return
    rd = _random.Random(c["read_seed"])
    reads = list(range(len(index)))
    rd.shuffle(reads)
    got = {}
    for rep in range(2 if c.get("reread") else 1):
        for i in reads:
            got[i] = ds[i]
        rd.shuffle(reads)
    for i, (pos, j) in enumerate(index):
        sv, sf = int(got[i]["video_idx"]), int(got[i]["frame_idx"])
        if (sv, sf) != (desc[pos][0], desc[pos][1]):
            o.b(f"multi {c['ds']} index {i}: sample says video {sv} frame {sf}, the labelled frame at position {pos} "
                f"is video {desc[pos][0]} frame {desc[pos][1]}")
    # registration of every item against ITS OWN frame's image
    mi = 0
    for v, vd in enumerate(c["videos"]):
        cv = multi_sub(c, v)
        poss = [c["order"].index([v, k]) for k in range(nfr)]
        if centered:
            for j, pin in enumerate(multi_insts(vd)):
                frs = [got[index.index((p_, j))] for p_ in poss]
                check_centered_output(I, cv, ms[mi], o, decode_multi(I, c, v, frs, key_img), kp_list(frs[0][key_pts]),
                                      pin, unit=1 / 255, label=f"multi centered video {v} instance {j}: ")
                mi += 1
        else:
            frs = [got[index.index((p_, 0))] for p_ in poss]
            if c["ds"] == "centroid":
                pin, m = [centroid_of(c, inst) for inst in multi_insts(vd)], ms[mi + 1]
            else:
                pin, m = [p for inst in multi_insts(vd) for p in inst], ms[mi]
            pout = kp_list(frs[0][key_pts])
            if any(q is not None for q in pout[len(pin):]):
                o.b(f"multi {c['ds']} video {v}: keypoints beyond the labelled instances are not missing")
            check_full_output(I, cv, m, o, decode_multi(I, c, v, frs, key_img), pout[:len(pin)], pin, unit=1 / 255,
                              label=f"multi {c['ds']} video {v}: ")
            mi += 2
    if c.get("chunks"):
        cdir = core.scratch_dir("sv_c04_chunks_")
        try:
            dsc = build_ds(I, c, make_labels_multi(I, c), False, chunks_path=cdir)
            if len(dsc) != len(index):
                o.b(f"multi {c['ds']} np_chunks: {len(dsc)} samples, in-memory {len(index)}")
            else:
                for i in reversed(range(len(index))):
                    a, b = dsc[i], got[i]
                    if tuple(a[key_img].shape) != tuple(b[key_img].shape):
                        o.b(f"multi {c['ds']} index {i} np_chunks: image {tuple(a[key_img].shape)} vs in-memory {tuple(b[key_img].shape)}")
                    elif float((a[key_img] - b[key_img]).abs().max()) > 1.01 / 255:
                        o.b(f"multi {c['ds']} index {i} np_chunks: image differs from the in-memory sample by "
                            f"{float((a[key_img] - b[key_img]).abs().max()) * 255:.2f} grey levels (uint8 round trip allows 1)")
                    ka, kb = a[key_pts].to(torch.float32), b[key_pts]
                    if tuple(ka.shape) != tuple(kb.shape) or not torch.equal(torch.nan_to_num(ka, nan=-7.0),
                                                                             torch.nan_to_num(kb, nan=-7.0)):
                        o.b(f"multi {c['ds']} index {i} np_chunks: keypoints differ from the in-memory sample")
                o.stats["chunks_checked"] = o.stats.get("chunks_checked", 0) + 1
        finally:
            shutil.rmtree(cdir, ignore_errors=True)
    o.stats["multi_video_items"] = o.stats.get("multi_video_items", 0) + len(index)


# =============================================================================
def case_json(c):
    def enc(v):
        if isinstance(v, F):
            return {"q": str(v)}
        if isinstance(v, tuple):
            return {"t": [enc(x) for x in v]}
        if isinstance(v, list):
            return [enc(x) for x in v]
        if isinstance(v, dict):
            return {"d": {k: enc(x) for k, x in v.items()}}
        return v
    return {k: enc(v) for k, v in c.items() if not k.startswith("_")}


def case_from_json(j):
    def dec(v):
        if isinstance(v, dict):
            if "q" in v:
                return F(v["q"])
            if "t" in v:
                return tuple(dec(x) for x in v["t"])
            if "d" in v:
                return {k: dec(x) for k, x in v["d"].items()}
        if isinstance(v, list):
            return [dec(x) for x in v]
        return v
    return {k: dec(v) for k, v in j.items() if k not in ("note",)}


def model_terms(c):
    """Coq terms needed before the implementation runs (aug cases need the recorded matrix first)."""
    k = c["kind"]
    if k in ("sizematch", "resize", "pad", "bbox", "crop", "full", "cropsize", "smdp", "cropper"):
        return [term(c)]
    if k == "centered":
        return [term(c, (c["pts"], c["pts"][0]))]
    if k == "ds_full":
        cents = [centroid_of(c, inst) for inst in c["pts"]]
        c2 = dict(c, pts=[cents])
        return [term(c), term(c2)]
    if k == "ds_centered":
        return [term(c, (inst, centroid_of(c, inst))) for inst in c["pts"]]
    if k == "ds_multi":
        return multi_terms(c)
    return []


RUNNERS = {"sizematch": run_sizematch, "resize": run_resize, "pad": run_pad, "bbox": run_bbox, "crop": run_crop,
           "full": run_full, "centered": run_centered, "cropsize": run_cropsize, "smdp": run_smdp,
           "cropper": run_cropper}


def run_case(I, c, ms):
    o = Outcome()
    k = c["kind"]
    try:
        if k in RUNNERS:
            if ms[0] is None and k not in ("sizematch",):
                o.d("model returned error")
            else:
                RUNNERS[k](I, c, ms[0], o)
        elif k in ("ds_full", "ds_centered"):
            c["_fixed_ds"] = I.fixed_f04k
            run_dataset(I, c, ms, o)
        elif k == "aug_default":
            run_aug_default(I, c, o)
        elif k == "ds_multi":
            run_dataset_multi(I, c, ms, o)
        elif k == "aug":
            c["_fixed"] = I.fixed_f04k
            c["_mat"] = run_aug(I, c, o)
        elif k == "aug1":
            c["_fixed"], c["_fixed_dp"] = I.fixed_f04k, I.fixed_f04p
            run_aug1(I, c, o)
    except Exception as e:          # the property's domain never raises
        import traceback
        o.b(f"implementation raised {type(e).__name__}: {e} :: {traceback.format_exc()[-600:]}")
    return o


def second_pass_terms(c):
    """model terms that depend on what kornia sampled"""
    out = []
    if c["kind"] == "aug" and c.get("_mat") is not None:
        out.append(("aug", term(c, c["_mat"]), c["_pts_out"], None))
        if c["which"] == "geometric" and c.get("_located") and c.get("_fixed") is not None:
            flat = [p for inst in c["insts"] for p in inst]
            mq = "((%s, %s, %s), (%s, %s, %s))" % tuple(core.cq(v) for v in c["_mat"])
            out.append(("aug_content", f"CAugContent {core.cbool(c['_fixed'])} {core.cz(c['H'])} {core.cz(c['W'])} "
                                       f"{mq} {core.clist(flat, ckp)}", c["_located"], None))
    if c["kind"] == "aug1":
        fixed = c.get("_fixed_dp") if c["via"] == "dp" else c.get("_fixed")
        for item in c.get("_stack", []):
            out.append(("stack", stack_term(item["entries"], c["n_nodes"], item["insts"]), item["pts_out"], None))
            if item["located"] and fixed is not None:
                flat = [p for inst in item["insts"] for p in inst]
                out.append(("aug_content", f"CAugContent {core.cbool(fixed)} {core.cz(c['H'])} {core.cz(c['W'])} "
                                           f"{cmat(item['mq'])} {core.clist(flat, ckp)}", item["located"], None))
    for (j, mat, pout) in c.get("_aug", []):
        base = c["_base_pts"][j]
        # centered: the augmentation acts on the over-crop, before the re-crop by t = (over - crop)/2
        oc = overcrop(c) if c["ds"] == "centered" else (0, 0)
        t = (F(oc[1] - c["cw"], 2), F(oc[0] - c["ch"], 2)) if c["ds"] == "centered" else (F(0), F(0))
        insts = [[None if p is None else (F(p[0]) + t[0], F(p[1]) + t[1]) for p in base]]
        pout = [None if p is None else (p[0] + float(t[0]), p[1] + float(t[1])) for p in pout]
        c2 = {"kind": "aug", "n_nodes": len(base), "insts": insts, "H": c["H"], "W": c["W"]}
        out.append(("ds_aug", term(c2, mat), pout, j))
    if c.get("_fixed_ds") is not None:
        for (j, mq, pin, po, located) in c.get("_aug_full", []):
            H, W = core.cz(c["H"]), core.cz(c["W"])
            head = (f"{core.cbool(c['_fixed_ds'])} {H} {W} {coz(c['mh'])} {coz(c['mw'])} {core.cq(c['s'])} "
                    f"{core.cz(c['stride'])}")
            if c["ds"] == "centered":
                cen = centroid_of(c, c["pts"][j])
                t = (f"CCenteredAug {head} {core.cz(c['ch'])} {core.cz(c['cw'])} {core.cq(cen[0])} {core.cq(cen[1])} "
                     f"{cmat(mq)} {core.clist(pin, ckp)}")
            else:
                t = f"CFullAug {head} {cmat(mq)} {core.clist(pin, ckp)}"
            out.append(("pipe_aug", t, po, {"j": j, "mq": mq, "pin": pin, "located": located}))
    if c["kind"] == "aug_default" and c.get("_mat") is not None:
        out.append(("aug_content", f"CAugContent false {core.cz(c['H'])} {core.cz(c['W'])} {cmat(c['_mat'])} "
                                   f"{core.clist(c['pts'], ckp)}", c["_located"], {"default": True}))
    return out


def mix(thorough):
    if thorough:
        return {"sizematch": 2000, "resize": 2000, "pad": 400, "bbox": 300, "crop": 1400, "full": 2000, "centered": 1200,
                "cropsize": 1000, "aug": 900, "ds_full": 700, "ds_centered": 450, "smdp": 300, "cropper": 500,
                "aug1": 900, "ds_multi": 500, "aug_default": 150}
    return {"sizematch": 120, "resize": 120, "pad": 40, "bbox": 30, "crop": 90, "full": 110, "centered": 70,
            "cropsize": 80, "aug": 60, "ds_full": 60, "ds_centered": 40, "smdp": 30, "cropper": 40, "aug1": 80,
            "ds_multi": 50, "aug_default": 16}


def load_corpus():
    d = core.CORPUS / "C04"
    return [case_from_json(json.load(open(f))) for f in sorted(d.glob("*.json"))] if d.exists() else []


def evaluate(run, I, cases):
    """model (Coq) + implementation + oracle on a list of cases; returns disagreement count"""
    terms, owner = [], []
    for i, c in enumerate(cases):
        for t in model_terms(c):
            terms.append(t)
            owner.append(i)
    res = core.coq_eval_sharded(PREAMBLE, terms, "run", RENDER, shard=80, jobs=12) if terms else []
    per = {}
    for i, r in zip(owner, res):
        per.setdefault(i, []).append(r)
    outcomes = []
    for i, c in enumerate(cases):
        outcomes.append(run_case(I, c, per.get(i, [])))
    # second pass: wrappers against the matrices kornia actually sampled
    t2, own2 = [], []
    for i, c in enumerate(cases):
        for item in second_pass_terms(c):
            t2.append(item[1])
            own2.append((i, item))
    res2 = core.coq_eval_sharded(PREAMBLE, t2, "run", RENDER, shard=80, jobs=12) if t2 else []
    for (i, item), r in zip(own2, res2):
        tag, _, pout, j = item
        if tag == "aug_content":
            cont = r[2][0]
            for (k, a, u) in pout:
                mc = (float(core.frac(cont[k][0])), float(core.frac(cont[k][1])))
                if max(abs(a[0] - mc[0]), abs(a[1] - mc[1])) > CONTENT_TOL + u:
                    outcomes[i].d(f"augmentation content map: keypoint {k} content measured at ({a[0]:.3f},{a[1]:.3f}), "
                                  f"model (align_corners fixed: fn={cases[i].get('_fixed')} dp={cases[i].get('_fixed_dp')}"
                                  f"{' ; kornia default, align_corners=False' if j else ''}) ({mc[0]:.3f},{mc[1]:.3f})")
            if j and j.get("default"):
                # the historic selector (kornia's default warp): Coq bits == Python mirror
                cc = cases[i]
                want = [0 if q is None else int(py_sel_f04k(cc["H"], cc["W"], cc["_mat"], q)) for q in cc["pts"]]
                if list(r[0]) != want:
                    outcomes[i].d(f"selector_F04k: coq {list(r[0])} python {want}")
            continue
        if tag == "pipe_aug":
            cc, oc = cases[i], outcomes[i]
            lab = f"{cc['ds']} item {j['j']} pipeline + augmentation: "
            if r is None:
                oc.d(lab + "model says error, implementation returned")
                continue
            pin, mq = j["pin"], j["mq"]
            cont, kps = r[2][0], r[2][1]
            for k, (a, b) in enumerate(zip(pout, kps)):
                b = None if b is None else (core.frac(b[0]), core.frac(b[1]))
                if not kp_close(a, b, atol=2e-3, rtol=2e-5):
                    oc.d(f"{lab}keypoint {k} impl {a} model {b and (float(b[0]), float(b[1]))}")
            for (k, a, u) in j["located"]:
                mc = (float(core.frac(cont[k][0])), float(core.frac(cont[k][1])))
                if max(abs(a[0] - mc[0]), abs(a[1] - mc[1])) > CONTENT_TOL + u:
                    oc.d(f"{lab}content of original point {k} measured at ({a[0]:.3f},{a[1]:.3f}), model ({mc[0]:.3f},{mc[1]:.3f})")
            f11x, f11bx = py_selectors(cc["H"], cc["W"], cc["mh"], cc["mw"], cc["s"], pin, margin=F(1))
            f11cx = py_sel_f11c(cc["H"], cc["W"], cc["mh"], cc["mw"], cc["s"], mq, pin, margin=F(1))
            want = [int(f11x)] + [v for b, c_ in zip(f11bx, f11cx) for v in (int(b), int(c_))]
            if list(r[0]) != want:
                oc.d(f"{lab}selectors (F11, then F11b / F11c per point): coq {list(r[0])} python {want}")
            continue
        mp = [None if p is None else (core.frac(p[0]), core.frac(p[1])) for inst in r[2] for p in inst]
        if len(mp) != len(pout):
            outcomes[i].d(f"{tag}: wrapper returned {len(pout)} keypoints, model {len(mp)}")
            continue
        for k, (a, b) in enumerate(zip(pout, mp)):
            if not kp_close(a, b, atol=2e-3, rtol=2e-5):
                outcomes[i].d(f"{tag} item {j}: keypoint {k} impl {a} != sampled matrix applied to the input {b and (float(b[0]), float(b[1]))}")
    return outcomes


def check(run: core.Run) -> int:
    run.build_and_prove(PROP_FILES)
    I = Impl()
    thorough = run.tier == "thorough"
    cases = load_corpus()
    n_corpus = len(cases)
    for kind, n in mix(thorough).items():
        for _ in range(n):
            cases.append(gen_case(run.rng, kind, thorough))
    outcomes = evaluate(run, I, cases)
    if thorough:
        outcomes += real_labels_pass(run, I)
    disagree, dist, stats = 0, {}, {}
    for idx, (c, o) in enumerate(zip(cases + [{"kind": "real_labels"}] * (len(outcomes) - len(cases)), outcomes)):
        dist[c["kind"]] = dist.get(c["kind"], 0) + 1
        for k, v in o.stats.items():
            stats[k] = max(stats.get(k, 0), v) if k.startswith("worst") else stats.get(k, 0) + v
        cj = case_json(c)
        run.case(cj, nontrivial=c["kind"] != "pad" or c.get("stride", 1) > 1)
        if o.diff:
            disagree += 1
            run.proof_broken.append(f"correspondence C04 model vs implementation: {o.diff[0]}; case {json.dumps(cj)[:500]}")
        for reason, sel in o.bad:
            run.violation("failing-input", {"case": cj, "oracle": reason, "correspondence": o.diff[:3]}, selector=sel)
    run.obligation("correspondence: Geometry.run (Coq, vm_compute) == sleap_nn.data geometry (/repo) on every case "
                   "(sizes, eff_scale, paddings, bbox corners, keypoints, fitted content maps, selectors)",
                   disagree == 0, f"{disagree} cases disagree")
    streams, routes = {}, {}
    for c in cases[n_corpus:]:
        if "sm_stream" in c:
            streams.setdefault(c["kind"], {}).setdefault(c["sm_stream"], 0)
            streams[c["kind"]][c["sm_stream"]] += 1
        if "mx_via" in c and (c["mh"] is not None or c["mw"] is not None):
            routes.setdefault(c["kind"], {}).setdefault(c["mx_via"], 0)
            routes[c["kind"]][c["mx_via"]] += 1
    n_tie = sum(v for d in streams.values() for k, v in d.items() if k.startswith("tie"))
    n_tie_ds = sum(v for kd, d in streams.items() if kd.startswith("ds") for k, v in d.items() if k.startswith("tie"))
    run.obligation("generator: the size matcher's tie stream (max_h/H == max_w/W != 1, up and down) reached the function "
                   "and the dataset classes", n_tie >= 20 and n_tie_ds >= 5, f"{n_tie} tie cases, {n_tie_ds} through datasets")
    run.coverage.update({
        "input_distribution": dist, "disagreements": disagree, "corpus_cases": n_corpus, "measurements": stats,
        "size_matcher_streams": streams, "max_hw_routes": routes,
        "rule": "case = (entry point, image size, max_h/max_w, scale, stride, crop size, centroid, keypoints, "
                "augmentation parameters + seed, gray/RGB); non-trivial = everything except stride-1 padding; "
                "distinct by full case content",
        "tolerance": {"keypoints": [KP_ATOL, KP_RTOL], "content_px": CONTENT_TOL, "oracle_px": 1.0},
    })
    for c in cases[n_corpus:n_corpus + 3]:
        run.sample(case_json(c))
    run.trusted += [
        "torchvision resize / F.pad / kornia crop_and_resize / kornia RandomAffine kernels: modelled as affine content "
        "maps, measured on ramp images on every run (affine fit of the valid interior)",
        "kornia's sampled transform matrix is read back from AugmentationSequential (recording subclass installed by the harness)",
        "duck-typed Labels/LabeledFrame/Instance/Video (thorough tier repeats on the real sleap-io asset)",
    ]
    run.assumptions += [
        "registration error is measured per axis (Chebyshev) in output pixels; keypoints lie inside the image extent",
        "image sides 17..200, scales k/8 in [1/4,4], crop sides >= 2; float64 size arithmetic agrees with exact "
        "arithmetic (exact .5-px rounding ties that float rounding perturbs are not generated; ties of the two RATIOS are, densely)",
        "apply_sizematcher raising when a fitted side rounds to 0 px is outside the property's domain (modelled as an error)",
        "find_instance_crop_size returning a stride-aligned user crop size unchanged is documented behaviour, not a violation",
    ]
    return run.finish()


def real_labels_pass(run, I):
    """thorough tier: the four datasets on the real sleap-io asset (real Labels / LabeledFrame /
    Instance objects); frames replaced by ramps through a stand-in video object."""
    import sleap_io as sio
    np = I.np
    outs = []
    cfgs = [("bottomup", None, None, F(1), 16), ("single", 400, 420, F(1, 2), 32), ("centroid", None, None, F(3, 4), 8),
            ("centered", None, None, F(1), 16), ("centered", 300, 320, F(1, 2), 2), ("bottomup", 200, 200, F(1), 1)]
    for (dsname, mh, mw, s, st) in cfgs:
        o = Outcome()
        try:
            per_chan = []
            pts = None
            for ch in range(3):
                labels = sio.load_slp(str(core.REPO / "tests/assets/minimal_instance.pkg.slp"))
                lf = labels[0]
                H, W = lf.image.shape[:2]
                ys, xs = np.meshgrid(np.arange(H), np.arange(W), indexing="ij")
                # 384 px do not fit uint8: float frames (apply_normalization leaves floats alone)
                arr = [xs.astype(np.float32), ys.astype(np.float32), np.ones((H, W), np.float32)][ch]

                class V:
                    shape = (1, H, W, 1)

                    def __getitem__(self, i):
                        return arr[..., None]

                    def close(self):
                        pass
                v = V()
                lf.video = v
                labels.videos = [v]
                pts = [[None if np.isnan(p).any() else (F(float(np.float32(p[0]))), F(float(np.float32(p[1]))))
                        for p in inst.numpy()] for inst in lf.instances]
                if dsname == "single":
                    lf.instances = lf.instances[:1]
                    pts = pts[:1]
                c = {"kind": "ds_centered" if dsname == "centered" else "ds_full", "ds": dsname, "H": H, "W": W,
                     "mh": mh, "mw": mw, "s": s, "stride": st, "gray": True, "pts": pts, "anchor": 0, "aug": None,
                     "ch": 96, "cw": 96}
                ds = build_ds(I, c, labels, False)
                per_chan.append([ds[j] for j in range(len(ds))])
            ms = core.coq_eval_sharded(PREAMBLE, model_terms(c), "run", RENDER)
            key_img = "instance_image" if dsname == "centered" else "image"
            key_pts = {"centered": "instance", "centroid": "centroids"}.get(dsname, "instances")
            for j in range(len(per_chan[0])):
                imgs = [per_chan[ch][j][key_img] for ch in range(3)]
                pout = kp_list(per_chan[0][j][key_pts])
                if dsname == "centered":
                    check_centered_output(I, c, ms[j], o, imgs, pout, pts[j], unit=1.0, label=f"real {dsname} {j}: ")
                else:
                    pin = [centroid_of(c, inst) for inst in pts] if dsname == "centroid" else [p for i_ in pts for p in i_]
                    check_full_output(I, c, ms[1] if dsname == "centroid" else ms[0], o, imgs, pout[:len(pin)], pin,
                                      unit=1.0, label=f"real {dsname}: ")
        except Exception as e:
            import traceback
            o.d(f"real-labels pass failed to run: {type(e).__name__}: {e} {traceback.format_exc()[-400:]}")
        outs.append(o)
    return outs


def replay(run: core.Run, path: str) -> int:
    rep = json.load(open(path))
    c = case_from_json(rep["case"] if "case" in rep else rep)
    I = Impl()
    o = evaluate(run, I, [c])[0]
    print(json.dumps({"oracle": o.bad, "correspondence": o.diff}, default=str))
    return 1 if o.bad else 0
