"""C01 — confidence-map training targets faithfully encode the labelled keypoints.

Model: coq/theories/C01/ConfMaps.v + Entry.v (cells hold the *argument* of exp as an
exact rational, None = value 0); theorems: coq/theories/C01/Props.v (over Coq's reals).

Tie 1 (static, per-run theorems): translator/c01_confmaps2coq.py regenerates from the
source of make_grid_vectors / make_confmaps / make_multi_confmaps / generate_confmaps /
generate_multiconfmaps a description of each body in the language of C01/TExpr.v
(Gen/C01_ConfmapsIR.v); one per-run theorem per function states that the regenerated
description denotes the model function (closed with the once-and-for-all theorems of
Lemmas2.v, which type-checks only if the description is the canonical one).
Tie 2 (dynamic): correspondence of the model with generate_confmaps /
generate_multiconfmaps (both layouts), make_confmaps / make_multi_confmaps on arbitrary
grid vectors, make_grid_vectors, and the two DataPipes with their key options, on
generated keypoint arrays (dtype float32 / float64 / int64, num_instances int / 0-d
tensor, img_hw tuple / torch.Size / list, sigma float / int).
Oracle: the property statement evaluated in float64 on the implementation's
output (range, finiteness, shape, value formula, max over the animals OF THE SAME
SAMPLE, zero channel for missing keypoints, maximum at the nearest grid cell).

Finding F60 (cross-sample broadcast in make_multi_confmaps for n_samples >= 2): the
oracle is per sample (the property), whatever the code or the model do.  A failing
channel is filed under the known finding only if the selector `others_contribute`
holds for it (an animal of ANOTHER sample has that node labelled among the
contributing rows; Coq: Entry.others_contribute) AND the channel equals the maximum
over the animals of all samples (the broadcast); anything else is a VIOLATION.  The
model has both variants (Entry.mmc fx); which one /repo implements is detected by
replaying corpus/C01/F60_cross_sample.json and must agree with the variant the
translator reads from the source.
"""
from __future__ import annotations

import importlib
import json
import math
import os
import shutil
import sys
from concurrent.futures import ThreadPoolExecutor
from fractions import Fraction as F
from pathlib import Path

from .. import core

PROP_FILES = [core.THEORIES / "C01" / "Props.v"]
PREAMBLE = ("From SV Require Import C01.ConfMaps C01.Entry.\nFrom Coq Require Import List QArith Bool.\n"
            "Import ListNotations.\nOpen Scope Q_scope.\n")
RENDER = "rlist (rlist (rlist (rlist (ropt rQ))))"
ATOL, RTOL = 2e-6, 3e-4           # float32 exp of a float32 argument
GEN_DIR = core.THEORIES / "Gen"

GRID_KINDS = ("gen3", "gen4", "multi", "cent", "dp_single", "dp_other", "dp_multi", "dp_cent")
MK_KINDS = ("mk", "mkmulti")
MULTI_KINDS = ("multi", "dp_multi", "mkmulti", "cent", "dp_cent")
SELECTOR = "others_contribute"
F60_WITNESS = core.CORPUS / "C01" / "F60_cross_sample.json"


# ---------------------------------------------------------------- tie 1: translator
def load_translator():
    sys.path.insert(0, str(core.VERIF))
    import translator.c01_confmaps2coq as tr
    return importlib.reload(tr)


def coqc_in(d: Path, f: str, timeout=300):
    return core.sh(["coqc", *core.COQ_FLAGS, "-Q", str(d), "C01Gen", f], cwd=d, timeout=timeout)


def static_tie(run: core.Run):
    tr = load_translator()
    try:
        res = tr.translate(core.REPO)
    except Exception as e:                      # file / signature level: nothing can be said about any function
        run.obligation("translator confmaps2coq: the five function definitions are where and what they are "
                       "expected to be (fail-closed)", False, f"{type(e).__name__}: {e}")
        return None
    run.obligation("translator confmaps2coq: the five function definitions are where and what they are "
                   "expected to be (fail-closed)", True)
    for py in tr.TARGETS:
        run.obligation(f"translator confmaps2coq: body of {py} is inside the recognised fragment (fail-closed)",
                       py in res["terms"], res["errors"].get(py, ""))
    d = core.scratch_dir("sv_c01gen_")
    try:
        (d / "C01_ConfmapsIR.v").write_text(res["ir"])
        rc, out = coqc_in(d, "C01_ConfmapsIR.v")
        run.obligation("generated Gen/C01_ConfmapsIR.v compiles", rc == 0, out[-1200:])
        if rc != 0:
            return res.get("multi_variant")
        for py, (fname, txt) in res["obligs"].items():
            (d / fname).write_text(txt)

        def one(item):
            py, (fname, _) = item
            rc, out = coqc_in(d, fname)
            return py, rc, out

        with ThreadPoolExecutor(max_workers=5) as ex:
            results = list(ex.map(one, res["obligs"].items()))
        for py, rc, out in results:
            closed = "Closed under the global context" in out
            run.obligation(f"per-run theorem: the description regenerated from the source of {py} denotes the "
                           f"model function (Gen/C01_Oblig_{py}.v)", rc == 0 and closed,
                           out[-1200:] if rc else ("" if closed else "not closed under the global context: " + out[-600:]))
        run.coverage["translator"] = {"sha1": res["sha1"], "functions": sorted(res["terms"]),
                                      "unsupported": res["errors"],
                                      "make_multi_confmaps_variant": res.get("multi_variant")}
        if not core._MUT:                       # copies for inspection (git-ignored)
            try:
                GEN_DIR.mkdir(exist_ok=True)
                for f in d.glob("C01_*.v"):
                    tmp = GEN_DIR / (f.name + f".tmp{os.getpid()}")
                    shutil.copy(f, tmp)
                    os.replace(tmp, GEN_DIR / f.name)
            except OSError:
                pass
        return res.get("multi_variant")
    finally:
        shutil.rmtree(d, ignore_errors=True)


# ---------------------------------------------------------------- generation
def gen_kp(rng, H, W, s, p_nan, integer=False, far=False):
    r = rng.random()
    if r < p_nan and not integer:
        k = rng.random()
        if k < 0.5:
            return (None, None)
        x = F(rng.randrange(0, 8 * W), 8)
        return (x, None) if k < 0.75 else (None, x)

    def coord(n):
        t = rng.random()
        if far and t < 0.5:                # far outside the image
            m = rng.choice([-1, 1]) * rng.randrange(8 * 200, 8 * 5000)
            return F(m // 8) if integer else F(m, 8)
        if t < 0.15:                       # exactly on a grid point
            return F(s * rng.randrange(0, max(1, -(-n // s))))
        if t < 0.25:                       # on / just outside the border
            return F(rng.choice([0, n - 1, n, -1, n + s]))
        if integer:
            return F(rng.randrange(-2 * s, n + 2 * s))
        if t < 0.35:                       # outside
            return F(rng.randrange(-16 * s, 8 * (n + 2 * s)), 8)
        return F(rng.randrange(0, 16 * n), 16)
    return (coord(W), coord(H))


SIGMAS = [F(1, 2), F(1), F(3, 2), F(5, 2), F(5)]
SIGMAS_EXTREME = [F(1, 8), F(1, 4), F(10), F(64)]


def gen_case(rng, thorough, stream=None):
    kind = rng.choice(["gen3", "gen4", "multi", "multi", "cent", "dp_single", "dp_other", "dp_multi", "dp_cent",
                       "mk", "mkmulti"])
    if stream in ("empty", "nanfirst"):
        kind = rng.choice(["multi", "cent", "dp_cent", "dp_multi"])
    s = rng.choice([1, 2, 4, 8]) if rng.random() < 0.85 else rng.choice([16, 32])
    big = 40 if thorough else 24
    shape_kind = rng.random()
    if shape_kind < 0.1:
        H, W = 1, rng.randint(1, big)
    elif shape_kind < 0.2:
        H, W = rng.randint(1, big), 1
    elif shape_kind < 0.6:
        H, W = s * rng.randint(1, max(1, big // s)), s * rng.randint(1, max(1, big // s))
    else:
        H, W = rng.randint(2, big), rng.randint(2, big)
    # keep maps small: at most ~80 cells per channel
    while -(-H // s) * -(-W // s) > 80:
        if H >= W:
            H = max(1, H // 2)
        else:
            W = max(1, W // 2)
    sigma = rng.choice(SIGMAS) if rng.random() < 0.8 else rng.choice(SIGMAS_EXTREME)
    dtype = rng.choice(["f32", "f32", "f32", "f32", "f64", "int"])
    integer = dtype == "int"
    p_nan = 0 if integer else rng.choice([0, 0, 0.2, 0.5, 1.0])
    far = rng.random() < 0.1
    n_samples = rng.choice([1, 1, 1, 1, 1, 1, 1, 2, 2, 3])       # 2-3 samples: per-sample reading, finding F60
    multi_like = kind in ("multi", "cent", "dp_cent", "dp_multi", "mkmulti")
    n_inst = rng.randint(0 if multi_like else 1, 4)
    n_nodes = rng.randint(1, 4)
    if kind == "dp_single" and rng.random() < 0.7:
        n_inst = 1
    if stream == "empty":
        n_inst = rng.choice([0, 2, 3, 4])
    if stream == "nanfirst":
        n_inst = rng.randint(2, 4)
    pts = [[[gen_kp(rng, H, W, s, p_nan, integer, far) for _ in range(n_nodes)] for _ in range(n_inst)]
           for _ in range(n_samples)]
    if not integer and n_inst > 0 and (stream == "nanfirst" or rng.random() < 0.2):   # whole animals missing
        for smp in pts:
            k = rng.randrange(n_inst - 1) if (stream == "nanfirst" or (n_inst > 1 and rng.random() < 0.6)) \
                else rng.randrange(n_inst)                      # mostly NOT in the final position
            smp[k] = [(None, None)] * n_nodes
            if stream == "nanfirst":                            # and a labelled animal after it
                smp[-1] = [gen_kp(rng, H, W, s, 0, False, False) for _ in range(n_nodes)]
    r = rng.random()
    if stream == "empty":
        num = 0
    elif r < 0.4:
        num = rng.randint(0, n_inst)
    elif r < 0.5:
        num = n_inst + rng.randint(1, 2)                        # slice bound beyond the array
    else:
        num = n_inst
    if kind == "dp_multi" and not integer and n_inst > 0 and rng.random() < 0.5:
        # as in the pipeline: rows beyond num_instances are NaN padding (the pipe does not slice)
        num = rng.randint(0, n_inst)
        for smp in pts:
            for k in range(num, n_inst):
                smp[k] = [(None, None)] * n_nodes
    c = {"kind": kind, "H": H, "W": W, "s": s, "sigma": sigma, "pts": pts, "num": num, "n_nodes": n_nodes,
         "opts": {"dtype": dtype,
                  "num": rng.choice(["int", "tensor"]),
                  "hw": rng.choice(["tuple", "size", "list"]),
                  "sigma": "int" if (sigma.denominator == 1 and rng.random() < 0.5) else "float",
                  "keys": rng.random() < 0.5}}
    if kind in MK_KINDS:                                        # arbitrary grid vectors, sigma used as given
        def vec(n):
            ln = rng.choice([0, 1, 2, 3, 5, 8]) if rng.random() < 0.5 else -(-n // s)
            ln = min(ln, 9)
            if rng.random() < 0.5:
                return [F(k * s) for k in range(ln)]
            return [F(rng.randrange(-16, 16 * (n + 2)), 8) for _ in range(ln)]
        c["xv"], c["yv"] = vec(W), vec(H)
    return c


def visible(p):
    return p[0] is not None and p[1] is not None


def ckp(p):
    return f"(Some ({core.cq(p[0])}, {core.cq(p[1])}))" if visible(p) else "None"


def term(c):
    k = c["kind"]
    H, W, s, sg = c["H"], c["W"], c["s"], core.cq(c["sigma"])
    l3 = lambda inst: core.clist(inst, ckp)
    p4 = lambda: core.clist(c["pts"], lambda smp: core.clist(smp, l3))
    p3 = lambda: core.clist([smp[0] for smp in c["pts"]], l3)        # (samples, nodes, 2): first instance only
    cents = lambda: core.clist([[inst[0] for inst in smp] for smp in c["pts"]], l3)   # centroid := first node
    if k == "gen3":
        return f"C2Old (CGen3 {p3()} {H} {W} {sg} {s})"
    if k == "gen4":
        return f"C2Old (CGen4 {p4()} {H} {W} {sg} {s})"
    if k == "dp_single":
        return f"C2DpInst {p4()} {H} {W} {sg} {s}"
    if k == "dp_other":
        return f"C2DpOther {p3()} {H} {W} {sg} {s}"
    if k == "multi":
        return f"C2Old (CMulti {p4()} {c['n_nodes']} {H} {W} {c['num']} {sg} {s})"
    if k == "dp_multi":                              # the DataPipe does not slice by num_instances
        return f"C2DpMulti {p4()} {c['n_nodes']} {H} {W} {sg} {s}"
    if k == "cent":
        return f"C2Old (CCent {cents()} {H} {W} {c['num']} {sg} {s})"
    if k == "dp_cent":
        return f"C2DpCent {cents()} {H} {W} {c['num']} {sg} {s}"
    xv, yv = core.clist(c["xv"], core.cq), core.clist(c["yv"], core.cq)
    if k == "mk":
        return f"C2Mk {p3()} {xv} {yv} {sg}"
    if k == "mkmulti":
        return f"C2MkMulti {p4()} {c['n_nodes']} {xv} {yv} {sg}"
    raise ValueError(k)


# ---------------------------------------------------------------- implementation
def to_tensor(c, torch):
    pts, n_nodes = c["pts"], c["n_nodes"]
    dt = {"f32": torch.float32, "f64": torch.float64, "int": torch.int64}[c.get("opts", {}).get("dtype", "f32")]
    if not pts[0]:
        return torch.zeros((len(pts), 0, n_nodes, 2), dtype=dt)
    nan = float("nan")
    if dt == torch.int64:
        data = [[[[int(v) for v in p] for p in inst] for inst in smp] for smp in pts]
    else:
        data = [[[[nan if v is None else float(v) for v in p] for p in inst] for inst in smp] for smp in pts]
    return torch.tensor(data, dtype=dt).reshape(len(pts), len(pts[0]), n_nodes, 2)


def run_impl(c, mods):
    torch, cm = mods
    k = c["kind"]
    o = c.get("opts", {})
    H, W, s = c["H"], c["W"], c["s"]
    sg = int(c["sigma"]) if o.get("sigma") == "int" and c["sigma"].denominator == 1 else float(c["sigma"])
    t = to_tensor(c, torch)
    num = torch.tensor(c["num"]) if o.get("num") == "tensor" else c["num"]
    hw = {"tuple": (H, W), "size": torch.Size((H, W)), "list": [H, W]}[o.get("hw", "tuple")]
    if k == "gen3":
        return cm.generate_confmaps(t[:, 0].clone(), hw, sg, s)
    if k == "gen4":
        return cm.generate_confmaps(t.clone(), hw, sg, s)
    if k == "multi":
        return cm.generate_multiconfmaps(t.clone(), hw, num, sg, s, False)
    if k == "cent":
        return cm.generate_multiconfmaps(t[:, :, 0].clone(), hw, num, sg, s, True)
    if k in MK_KINDS:
        xv = torch.tensor([float(v) for v in c["xv"]], dtype=torch.float32)
        yv = torch.tensor([float(v) for v in c["yv"]], dtype=torch.float32)
        if k == "mk":
            return cm.make_confmaps(t[:, 0].clone(), xv, yv, sg)
        return cm.make_multi_confmaps(t.clone(), xv, yv, sg)
    img = torch.zeros((len(c["pts"]), 1, H, W))
    keys = o.get("keys", False)
    ik = "img_custom" if keys else "image"
    if k == "dp_single":                              # instance_key "instances": rank 4, flattened by the pipe
        ex = {ik: img, "instances": t.clone(), "other": 7}
        kw = {"image_key": ik} if keys else {}
        out = next(iter(cm.ConfidenceMapGenerator([ex], sigma=sg, output_stride=s, **kw)))
        assert out.get("other") == 7
        return out["confidence_maps"]
    if k == "dp_other":                               # any other instance_key: rank 3, used as it is
        nk = "instance" if not keys else "inst_custom"
        ik = "instance_image" if not keys else ik
        ex = {ik: img, nk: t[:, 0].clone()}
        out = next(iter(cm.ConfidenceMapGenerator([ex], sigma=sg, output_stride=s, image_key=ik, instance_key=nk)))
        return out["confidence_maps"]
    if k == "dp_multi":
        nk = "inst_custom" if keys else "instances"
        ex = {ik: img, nk: t.clone(), "num_instances": num}
        kw = {"image_key": ik, "instance_key": nk} if keys else {}
        out = next(iter(cm.MultiConfidenceMapGenerator([ex], sigma=sg, output_stride=s, centroids=False, **kw)))
        assert "centroids_confidence_maps" not in out
        return out["confidence_maps"]
    if k == "dp_cent":
        ex = {ik: img, "centroids": t[:, :, 0].clone(), "num_instances": num}
        kw = {"image_key": ik} if keys else {}
        out = next(iter(cm.MultiConfidenceMapGenerator([ex], sigma=sg, output_stride=s, centroids=True, **kw)))
        assert "confidence_maps" not in out
        return out["centroids_confidence_maps"]
    raise ValueError(k)


# ---------------------------------------------------------------- the property, executable
def contributing_rows(c, smp):
    """The animals (rows) of ONE sample that contribute to its multi-instance / centroid map."""
    k = c["kind"]
    if k in ("multi", "cent", "dp_cent"):
        return smp[:c["num"]]
    return smp                                     # dp_multi (the pipe does not slice), mkmulti


def contributors(c, all_samples=False):
    """For every sample and output channel: the keypoints whose bumps the channel must hold, per the
    property statement: the keypoints OF THAT SAMPLE (independent of the Coq model and of what the code
    does with several samples).  all_samples=True gives instead the animals of every sample (the
    broadcast of the pinned make_multi_confmaps); it is used only to classify a failure as finding F60."""
    k, pts = c["kind"], c["pts"]
    per_sample = []
    if k in ("gen3", "dp_other", "mk"):
        for smp in pts:
            per_sample.append([[p] for p in smp[0]])
    elif k in ("gen4", "dp_single"):
        for smp in pts:
            per_sample.append([[p] for inst in smp for p in inst])
    else:
        nch = 1 if k in ("cent", "dp_cent") else c["n_nodes"]
        everyone = [inst for smp in pts for inst in contributing_rows(c, smp)]
        for smp in pts:
            rows = everyone if all_samples else contributing_rows(c, smp)
            per_sample.append([[inst[j] for inst in rows] for j in range(nch)])
    return per_sample


def others_contribute(c, si, ci):
    """Selector of finding F60 (Coq: Entry.others_contribute): an animal of ANOTHER sample has node ci
    labelled among the contributing rows."""
    if c["kind"] not in MULTI_KINDS:
        return False
    return any(visible(inst[ci]) for sj, smp in enumerate(c["pts"]) if sj != si
               for inst in contributing_rows(c, smp))


def sample_grid(c):
    """(xs, ys, effective sigma)"""
    if c["kind"] in MK_KINDS:
        return [float(v) for v in c["xv"]], [float(v) for v in c["yv"]], float(c["sigma"])
    H, W, s = c["H"], c["W"], c["s"]
    return ([float(j * s) for j in range(-(-W // s))], [float(i * s) for i in range(-(-H // s))],
            float(c["sigma"]) * s)


def channel_check(ch, kps, xs, ys, sg, where, nearest=True):
    """One (h, w) channel against the statement for the keypoints `kps`. None or a reason."""
    h, w = len(ys), len(xs)
    vis = [p for p in kps if visible(p)]
    best_cell, best_val, best_d = None, -1.0, None
    for i in range(h):
        for j in range(w):
            v = ch[i][j]
            if not math.isfinite(v):
                return f"non-finite value at {where + (i, j)}"
            if v < 0 or v > 1 + 1e-6:
                return f"value {v} outside [0,1] at {where + (i, j)}"
            exp = 0.0
            for p in vis:
                d2 = (xs[j] - float(p[0])) ** 2 + (ys[i] - float(p[1])) ** 2
                exp = max(exp, math.exp(-d2 / (2 * sg ** 2)))
            if abs(v - exp) > ATOL + RTOL * exp:
                return (f"value {v} != max over the sample's animals of exp(-d^2/2(sigma*stride)^2) = {exp} "
                        f"at sample {where[0]} channel {where[1]} cell {(i, j)}")
            if len(vis) == 1:
                d2 = (xs[j] - float(vis[0][0])) ** 2 + (ys[i] - float(vis[0][1])) ** 2
                if v > best_val:
                    best_val, best_cell, best_d = v, (i, j), d2
    if nearest and len(vis) == 1 and best_val > 1e-30:
        dmin = min((xs[j] - float(vis[0][0])) ** 2 + (ys[i] - float(vis[0][1])) ** 2
                   for i in range(h) for j in range(w))
        # largest at the nearest cell (ties between equidistant cells allowed)
        if best_d > dmin + 1e-3 * sg ** 2:
            return f"sample {where[0]} channel {where[1]}: maximum at {best_cell} is not the nearest grid cell"
    return None


def oracle(c, out):
    """The property on the implementation's output.  Returns a list of failures
    {"reason", "sample", "channel", "known"}: `known` = the failing channel falls under the selector of
    finding F60 and is exactly the broadcast (maximum over the animals of all samples)."""
    xs, ys, sg = sample_grid(c)
    h, w = len(ys), len(xs)
    contrib = contributors(c)
    shape = tuple(out.shape)
    want = (len(c["pts"]), len(contrib[0]), h, w)
    if shape != want:
        return [{"reason": f"shape {shape} != {want}", "sample": None, "channel": None, "known": False}]
    if not out.dtype.is_floating_point:
        return [{"reason": f"dtype {out.dtype} is not a floating-point type", "sample": None, "channel": None,
                 "known": False}]
    o = out.tolist()
    fails = []
    bcast = None
    for si, chans in enumerate(contrib):
        for ci, kps in enumerate(chans):
            bad = channel_check(o[si][ci], kps, xs, ys, sg, (si, ci))
            if not bad:
                continue
            known = False
            if others_contribute(c, si, ci):
                bcast = bcast or contributors(c, all_samples=True)
                known = channel_check(o[si][ci], bcast[si][ci], xs, ys, sg, (si, ci), nearest=False) is None
            fails.append({"reason": bad, "sample": si, "channel": ci, "known": known})
    return fails


def verdict(fails):
    """(hard reason | None, known reason | None)"""
    hard = [f for f in fails if not f["known"]]
    soft = [f for f in fails if f["known"]]
    return (hard[0]["reason"] if hard else None,
            f"{soft[0]['reason']} [{len(soft)} channel(s) under selector {SELECTOR}]" if soft else None)


def compare(c, model, out):
    """model: nested lists of [num,den]|None ; out: tensor. Returns None or reason."""
    o = out.tolist()
    if len(model) != len(o):
        return f"samples {len(o)} vs model {len(model)}"
    for si, (ms, os_) in enumerate(zip(model, o)):
        if len(ms) != len(os_):
            return f"channels {len(os_)} vs model {len(ms)}"
        for ci, (mc, oc) in enumerate(zip(ms, os_)):
            if len(mc) != len(oc) or any(len(a) != len(b) for a, b in zip(mc, oc)):
                return f"grid shape differs in channel {ci}"
            for i, (mr, orow) in enumerate(zip(mc, oc)):
                for j, (a, v) in enumerate(zip(mr, orow)):
                    exp = 0.0 if a is None else math.exp(max(-745.0, a[0] / a[1]))
                    if not (abs(v - exp) <= ATOL + RTOL * exp):
                        return f"sample {si} channel {ci} cell {(i, j)}: impl {v} model {exp}"
    return None


def case_json(c):
    j = {**{k: c[k] for k in ("kind", "H", "W", "s", "num", "n_nodes")}, "sigma": str(c["sigma"]),
         "pts": [[[[None if v is None else str(v) for v in p] for p in inst] for inst in smp]
                 for smp in c["pts"]],
         "opts": c.get("opts", {})}
    for k in ("xv", "yv"):
        if k in c:
            j[k] = [str(v) for v in c[k]]
    return j


def case_from_json(j):
    c = dict(j)
    c["sigma"] = F(j["sigma"])
    c["pts"] = [[[tuple(None if v is None else F(v) for v in p) for p in inst] for inst in smp]
                for smp in j["pts"]]
    c.setdefault("opts", {})
    for k in ("xv", "yv"):
        if k in j:
            c[k] = [F(v) for v in j[k]]
    return c


def admissible(c):
    if c["kind"] in ("gen3", "gen4", "dp_single", "dp_other", "mk") and not c["pts"][0]:
        return False
    return True


# ---------------------------------------------------------------- make_grid_vectors
def grid_tie(run, torch, thorough):
    from sleap_nn.data import utils as du
    rng = run.rng
    triples = [(0, 0, 1), (1, 1, 1), (0, 5, 2), (7, 3, 8), (5, 5, 32), (16, 24, 4)]
    for _ in range(300 if thorough else 60):
        s = rng.choice([1, 2, 3, 4, 8, 16, 32])
        triples.append((rng.randint(0, 70), rng.randint(0, 70), s))
    terms = [f"({h}, {w}, {s})%nat" for h, w, s in triples]
    model = core.coq_eval_sharded(PREAMBLE, terms, "run_grid", "rpair (rlist rQ) (rlist rQ)", shard=400, jobs=2)
    bad = 0
    for (h, w, s), m in zip(triples, model):
        try:
            xv, yv = du.make_grid_vectors(h, w, s)
            got = ([float(v) for v in xv.tolist()], [float(v) for v in yv.tolist()])
            dts = (xv.dtype, yv.dtype, xv.ndim, yv.ndim)
        except Exception as e:
            got, dts = f"{type(e).__name__}: {e}", None
        want = ([a[0] / a[1] for a in m[0]], [a[0] / a[1] for a in m[1]])
        prop = ([float(k * s) for k in range(-(-w // s))], [float(k * s) for k in range(-(-h // s))])
        if got != prop or dts != (torch.float32, torch.float32, 1, 1):
            run.violation("failing-input", {"grid": [h, w, s], "impl": str(got)[:300], "dtypes": str(dts),
                                            "oracle": "grid vectors are not 0, stride, 2*stride, ... < size (float32)"})
        if got != want:
            bad += 1
            run.proof_broken.append(f"correspondence C01 make_grid_vectors({h},{w},{s}): impl {str(got)[:200]} model {want}")
    run.obligation("correspondence: Entry.make_grid_vectors (Coq) == utils.make_grid_vectors (/repo), values exact, float32",
                   bad == 0, f"{bad} disagreements")
    run.coverage["grid_cases"] = len(triples)


def detect_variant(mods):
    """Which make_multi_confmaps does the code implement?  Replays the witness of F60 (two samples, the
    second without any keypoint): "repaired" if the second sample's map is all zero, "pinned" if it is a
    copy of the first sample's (the broadcast), None if neither (or the call fails)."""
    try:
        c = case_from_json(json.load(open(F60_WITNESS))["case"])
        out = run_impl(c, mods).tolist()
        s0 = [v for ch in out[0] for row in ch for v in row]
        s1 = [v for ch in out[1] for row in ch for v in row]
    except Exception:
        return None
    if max(s0) > 0.5 and all(v == 0 for v in s1):
        return "repaired"
    if max(s0) > 0.5 and all(abs(a - b) <= 1e-6 for a, b in zip(s0, s1)):
        return "pinned"
    return None


def check(run: core.Run) -> int:
    run.build_and_prove(PROP_FILES)
    static_variant = static_tie(run)
    core.impl_env_setup()
    import torch
    from sleap_nn.data import confidence_maps as cm
    mods = (torch, cm)
    variant = detect_variant(mods)
    run.obligation("variant of make_multi_confmaps (finding F60): the witness replay on the code and the layout "
                   "statement read by the translator agree (pinned = broadcast over samples / repaired = per sample)",
                   variant is not None and (static_variant is None or variant == static_variant),
                   f"dynamic {variant}, static {static_variant}")
    fx = "true" if variant == "repaired" else "false"
    run.coverage["make_multi_confmaps_variant"] = variant
    thorough = run.tier == "thorough"
    n = 3000 if thorough else 420
    cases = []
    corpus = sorted((core.CORPUS / "C01").glob("*.json")) if (core.CORPUS / "C01").exists() else []
    for f in corpus:
        j = json.load(open(f))
        cases.append(case_from_json(j.get("case", j)))
    n_stream = 200 if thorough else 30
    for stream in ("empty", "nanfirst"):
        k = 0
        while k < n_stream:
            c = gen_case(run.rng, thorough, stream)
            if admissible(c):
                c["stream"] = stream
                cases.append(c)
                k += 1
    while len(cases) < n:
        c = gen_case(run.rng, thorough)
        if admissible(c):
            cases.append(c)
    model = core.coq_eval_sharded(PREAMBLE, [f"({fx}, {term(c)})" for c in cases], "run3", RENDER, shard=60, jobs=12)
    disagree = 0
    dist = {}
    for c, m in zip(cases, model):
        o = c.get("opts", {})
        for key in (c["kind"], f"stride{c['s']}", f"dtype_{o.get('dtype', 'f32')}", f"num_{o.get('num', 'int')}",
                    f"hw_{o.get('hw', 'tuple')}", f"sigma_{o.get('sigma', 'float')}",
                    f"stream_{c.get('stream', 'main')}", f"samples{len(c['pts'])}"):
            dist[key] = dist.get(key, 0) + 1
        if c["sigma"] in SIGMAS_EXTREME:
            dist["sigma_extreme"] = dist.get("sigma_extreme", 0) + 1
        if c["H"] % c["s"] or c["W"] % c["s"]:
            dist["size_not_divisible"] = dist.get("size_not_divisible", 0) + 1
        if c["s"] > max(c["H"], c["W"]):
            dist["stride_gt_image"] = dist.get("stride_gt_image", 0) + 1
        nvis = sum(visible(p) for smp in c["pts"] for inst in smp for p in inst)
        run.case(case_json(c), nontrivial=(nvis >= 1 and c["H"] * c["W"] >= 4))
        try:
            out = run_impl(c, mods)
            err = None
        except Exception as e:
            out, err = None, f"{type(e).__name__}: {e}"
        if err:
            run.violation("failing-input", {"case": case_json(c), "impl_error": err})
            continue
        bad, known = verdict(oracle(c, out))
        diff = compare(c, m, out)
        if diff:
            disagree += 1
        if len(c["pts"]) > 1 and c["kind"] in MULTI_KINDS and any(
                others_contribute(c, si, ci) for si in range(len(c["pts"]))
                for ci in range(1 if c["kind"] in ("cent", "dp_cent") else c["n_nodes"])):
            dist["under_selector_F60"] = dist.get("under_selector_F60", 0) + 1
        if bad:
            run.violation("failing-input", {"case": case_json(c), "oracle": bad, "correspondence": diff})
        elif known:
            run.violation("failing-input", {"case": case_json(c), "oracle": known, "correspondence": diff},
                          selector=SELECTOR)
        if diff and not (bad or known):
            run.proof_broken.append(f"correspondence C01 model vs implementation: {diff}; case {json.dumps(case_json(c))[:600]}")
    run.obligation("correspondence: Entry.run2 (Coq, vm_compute) == confidence_maps.py (/repo) on every case",
                   disagree == 0, f"{disagree} disagreements")
    grid_tie(run, torch, thorough)
    run.coverage.update({
        "input_distribution": dist, "disagreements": disagree,
        "rule": "case = (entry point, keypoint array with NaN pattern, H, W, stride, sigma, call options); non-trivial = "
                "at least one visible keypoint and H*W >= 4; distinct by full case content",
        "tolerance": {"atol": ATOL, "rtol": RTOL},
    })
    for c in cases[:3]:
        run.sample(case_json(c))
    run.trusted += ["torch.exp / nan_to_num / maximum / arange float32 kernels are modelled (exact rational argument of exp), "
                    "compared within float32 tolerance",
                    "finding F60: with n_samples > 1 the pinned make_multi_confmaps broadcasts every instance over all "
                    "samples; both variants are modelled (Entry.mmc), the oracle is per sample, the variant is detected "
                    "by replaying corpus/C01/F60_cross_sample.json and cross-checked with the translator",
                    "translator/c01_confmaps2coq.py (stdlib ast, fail-closed): the reading of torch.arange / reshape / exp / "
                    "nan_to_num / zeros / maximum / view / unsqueeze / basic slicing as the constructors of C01/TExpr.v; "
                    "validated by the dynamic correspondence on every run"]
    run.assumptions += ["coordinates are finite or NaN (no +-inf), sigma > 0, output_stride >= 1, num_instances >= 0",
                        "exact-arithmetic idealisation: the theorems hold for 2*(sigma*stride)^2 and d^2 inside the float32 "
                        "normal range (generated: sigma in [1/8, 64], |coordinate| <= 5000); outside it the code's float32 "
                        "arithmetic produces 0/0 or inf/inf and nan_to_num turns the NaN into 0 (e.g. sigma = 1e-30)",
                        "rank-4 input of generate_confmaps is contiguous (.view raises on a permuted view)"]
    return run.finish()


def replay(run: core.Run, path: str) -> int:
    core.impl_env_setup()
    import torch
    from sleap_nn.data import confidence_maps as cm
    rep = json.load(open(path))
    if "case" not in rep:
        print(json.dumps({"oracle": rep.get("oracle"), "note": "not a keypoint case", "replay": rep}, default=str)[:2000])
        return 1
    c = case_from_json(rep["case"])
    known = None
    try:
        out = run_impl(c, (torch, cm))
        bad, known = verdict(oracle(c, out))
    except Exception as e:
        bad = f"{type(e).__name__}: {e}"
    print(json.dumps({"oracle": bad, "known_finding_F60": known}))
    return 1 if (bad or known) else 0
