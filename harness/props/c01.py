"""C01 — confidence-map training targets faithfully encode the labelled keypoints.

Model: coq/theories/C01/ConfMaps.v (cells hold the *argument* of exp as an exact
rational, None = value 0); theorems: coq/theories/C01/Props.v (over Coq's reals).
Tie: correspondence with generate_confmaps / generate_multiconfmaps (both
variants) and the two DataPipes on generated keypoint arrays.
Oracle: the property statement evaluated in float64 on the implementation's
output (range, finiteness, shape, value formula, max over animals, zero channel
for missing keypoints, maximum at the nearest grid cell).
"""
from __future__ import annotations

import json
import math
from fractions import Fraction as F

from .. import core

PROP_FILES = [core.THEORIES / "C01" / "Props.v"]
PREAMBLE = ("From SV Require Import C01.ConfMaps.\nFrom Coq Require Import List QArith.\n"
            "Import ListNotations.\nOpen Scope Q_scope.\n")
RENDER = "rlist (rlist (rlist (rlist (ropt rQ))))"
ATOL, RTOL = 2e-6, 3e-4           # float32 exp of a float32 argument


# ---------------------------------------------------------------- generation
def gen_kp(rng, H, W, s, p_nan):
    r = rng.random()
    if r < p_nan:
        k = rng.random()
        if k < 0.5:
            return (None, None)
        x = F(rng.randrange(0, 8 * W), 8)
        return (x, None) if k < 0.75 else (None, x)
    def coord(n):
        t = rng.random()
        if t < 0.15:                       # exactly on a grid point
            return F(s * rng.randrange(0, max(1, -(-n // s))))
        if t < 0.25:                       # on / just outside the border
            return F(rng.choice([0, n - 1, n, -1, n + s]))
        if t < 0.35:                       # outside
            return F(rng.randrange(-16 * s, 8 * (n + 2 * s)), 8)
        return F(rng.randrange(0, 16 * n), 16)
    return (coord(W), coord(H))


def gen_case(rng, thorough):
    kind = rng.choice(["gen3", "gen4", "multi", "multi", "cent", "dp_single", "dp_multi", "dp_cent"])
    s = rng.choice([1, 2, 4, 8])
    big = 40 if thorough else 24
    shape_kind = rng.random()
    if shape_kind < 0.1:
        H, W = 1, rng.randint(1, big)
    elif shape_kind < 0.2:
        H, W = rng.randint(1, big), 1
    elif shape_kind < 0.6:
        H, W = s * rng.randint(1, max(1, big // s)), s * rng.randint(1, max(1, big // s))
    else:
        H, W = rng.randint(2, big), rng.randint(2, big)
    # keep maps small: at most ~80 cells per channel
    while -(-H // s) * -(-W // s) > 80:
        if H >= W:
            H = max(1, H // 2)
        else:
            W = max(1, W // 2)
    sigma = rng.choice([F(1, 2), F(1), F(3, 2), F(5, 2), F(5)])
    p_nan = rng.choice([0, 0, 0.2, 0.5, 1.0])
    n_samples = 1 if rng.random() < 0.8 else 2
    n_inst = rng.randint(0 if kind in ("multi", "cent") else 1, 4)
    n_nodes = rng.randint(1, 4)
    if kind in ("dp_single",):
        n_inst = 1
    pts = [[[gen_kp(rng, H, W, s, p_nan) for _ in range(n_nodes)] for _ in range(n_inst)]
           for _ in range(n_samples)]
    if rng.random() < 0.15 and n_inst > 0:              # one whole animal missing
        for smp in pts:
            smp[rng.randrange(n_inst)] = [(None, None)] * n_nodes
    num = rng.randint(0, n_inst) if rng.random() < 0.5 else n_inst
    return {"kind": kind, "H": H, "W": W, "s": s, "sigma": sigma, "pts": pts, "num": num,
            "n_nodes": n_nodes}


def visible(p):
    return p[0] is not None and p[1] is not None


def ckp(p):
    return f"(Some ({core.cq(p[0])}, {core.cq(p[1])}))" if visible(p) else "None"


def term(c):
    k = c["kind"]
    H, W, s, sg = c["H"], c["W"], c["s"], core.cq(c["sigma"])
    l3 = lambda inst: core.clist(inst, ckp)
    if k == "gen3":                                  # (samples, nodes, 2): first instance only
        pts = core.clist([smp[0] for smp in c["pts"]], l3)
        return f"CGen3 {pts} {H} {W} {sg} {s}"
    if k in ("gen4",):
        pts = core.clist(c["pts"], lambda smp: core.clist(smp, l3))
        return f"CGen4 {pts} {H} {W} {sg} {s}"
    if k == "dp_single":
        pts = core.clist(c["pts"], lambda smp: core.clist(smp, l3))
        return f"CGen4 {pts} {H} {W} {sg} {s}"
    if k in ("multi",):
        pts = core.clist(c["pts"], lambda smp: core.clist(smp, l3))
        return f"CMulti {pts} {c['n_nodes']} {H} {W} {c['num']} {sg} {s}"
    if k == "dp_multi":                              # the DataPipe does not slice by num_instances
        pts = core.clist(c["pts"], lambda smp: core.clist(smp, l3))
        n_inst = len(c["pts"][0])
        return f"CMulti {pts} {c['n_nodes']} {H} {W} {n_inst} {sg} {s}"
    if k in ("cent", "dp_cent"):                     # centroid of an animal := its first node
        cents = core.clist([[inst[0] for inst in smp] for smp in c["pts"]], l3)
        return f"CCent {cents} {H} {W} {c['num']} {sg} {s}"
    raise ValueError(k)


# ---------------------------------------------------------------- implementation
def to_tensor(pts, torch):
    nan = float("nan")
    return torch.tensor([[[[nan if v is None else float(v) for v in p] for p in inst] for inst in smp]
                         for smp in pts], dtype=torch.float32).reshape(
        len(pts), len(pts[0]), len(pts[0][0]) if pts[0] else 0, 2)


def run_impl(c, mods):
    torch, cm = mods
    k = c["kind"]
    H, W, s, sg = c["H"], c["W"], c["s"], float(c["sigma"])
    pts = c["pts"]
    n_nodes = c["n_nodes"]
    if pts[0]:
        t = to_tensor(pts, torch)
    else:
        t = torch.zeros((len(pts), 0, n_nodes, 2), dtype=torch.float32)
    if k == "gen3":
        return cm.generate_confmaps(t[:, 0].clone(), (H, W), sg, s)
    if k == "gen4":
        return cm.generate_confmaps(t.clone(), (H, W), sg, s)
    if k == "multi":
        return cm.generate_multiconfmaps(t.clone(), (H, W), c["num"], sg, s, False)
    if k == "cent":
        return cm.generate_multiconfmaps(t[:, :, 0].clone(), (H, W), c["num"], sg, s, True)
    img = torch.zeros((len(pts), 1, H, W))
    if k == "dp_single":
        ex = {"image": img, "instances": t.clone()}
        return next(iter(cm.ConfidenceMapGenerator([ex], sigma=sg, output_stride=s)))["confidence_maps"]
    if k == "dp_multi":
        ex = {"image": img, "instances": t.clone(), "num_instances": c["num"]}
        return next(iter(cm.MultiConfidenceMapGenerator([ex], sigma=sg, output_stride=s,
                                                        centroids=False)))["confidence_maps"]
    if k == "dp_cent":
        ex = {"image": img, "centroids": t[:, :, 0].clone(), "num_instances": c["num"]}
        return next(iter(cm.MultiConfidenceMapGenerator([ex], sigma=sg, output_stride=s,
                                                        centroids=True)))["centroids_confidence_maps"]
    raise ValueError(k)


# ---------------------------------------------------------------- the property, executable
def contributors(c):
    """For every output channel: the list of keypoints whose bumps it must hold
    (per the property statement, independent of the Coq model)."""
    k, pts, num = c["kind"], c["pts"], c["num"]
    per_sample = []
    if k == "gen3":
        for smp in pts:
            per_sample.append([[p] for p in smp[0]])
    elif k in ("gen4", "dp_single"):
        for smp in pts:
            per_sample.append([[p] for inst in smp for p in inst])
    elif k in ("multi", "dp_multi"):
        n = num if k == "multi" else len(pts[0])
        allinst = [inst for smp in pts for inst in smp[:n]]     # see ConfMaps.v: broadcast over samples
        for smp in pts:
            per_sample.append([[inst[j] for inst in allinst] for j in range(c["n_nodes"])])
    else:
        allinst = [inst for smp in pts for inst in smp[:num]]
        for smp in pts:
            per_sample.append([[inst[0] for inst in allinst]])
    return per_sample


def oracle(c, out):
    """Returns None or a reason string."""
    H, W, s, sg = c["H"], c["W"], c["s"], float(c["sigma"])
    h, w = -(-H // s), -(-W // s)
    contrib = contributors(c)
    shape = tuple(out.shape)
    want = (len(c["pts"]), len(contrib[0]), h, w)
    if shape != want:
        return f"shape {shape} != {want}"
    o = out.tolist()
    for si, chans in enumerate(contrib):
        for ci, kps in enumerate(chans):
            vis = [p for p in kps if visible(p)]
            best_cell, best_val, best_d = None, -1.0, None
            for i in range(h):
                for j in range(w):
                    v = o[si][ci][i][j]
                    if not math.isfinite(v):
                        return f"non-finite value at {(si, ci, i, j)}"
                    if v < 0 or v > 1 + 1e-6:
                        return f"value {v} outside [0,1] at {(si, ci, i, j)}"
                    exp = 0.0
                    for p in vis:
                        d2 = (j * s - float(p[0])) ** 2 + (i * s - float(p[1])) ** 2
                        exp = max(exp, math.exp(-d2 / (2 * (sg * s) ** 2)))
                    if abs(v - exp) > ATOL + RTOL * exp:
                        return f"value {v} != exp(-d^2/2(sigma*stride)^2) = {exp} at sample {si} channel {ci} cell {(i, j)}"
                    if len(vis) == 1:
                        d2 = (j * s - float(vis[0][0])) ** 2 + (i * s - float(vis[0][1])) ** 2
                        if v > best_val:
                            best_val, best_cell, best_d = v, (i, j), d2
            if len(vis) == 1 and best_val > 1e-30:
                dmin = min((j * s - float(vis[0][0])) ** 2 + (i * s - float(vis[0][1])) ** 2
                           for i in range(h) for j in range(w))
                # largest at the nearest cell (ties between equidistant cells allowed)
                if best_d > dmin + 1e-3 * (sg * s) ** 2:
                    return f"channel {ci} maximum at {best_cell} is not the nearest grid cell"
    return None


def compare(c, model, out):
    """model: nested lists of [num,den]|None ; out: tensor. Returns None or reason."""
    o = out.tolist()
    if len(model) != len(o):
        return f"samples {len(o)} vs model {len(model)}"
    for si, (ms, os_) in enumerate(zip(model, o)):
        if len(ms) != len(os_):
            return f"channels {len(os_)} vs model {len(ms)}"
        for ci, (mc, oc) in enumerate(zip(ms, os_)):
            if len(mc) != len(oc) or any(len(a) != len(b) for a, b in zip(mc, oc)):
                return f"grid shape differs in channel {ci}"
            for i, (mr, orow) in enumerate(zip(mc, oc)):
                for j, (a, v) in enumerate(zip(mr, orow)):
                    exp = 0.0 if a is None else math.exp(max(-745.0, a[0] / a[1]))
                    if not (abs(v - exp) <= ATOL + RTOL * exp):
                        return f"sample {si} channel {ci} cell {(i, j)}: impl {v} model {exp}"
    return None


def case_json(c):
    return {**{k: c[k] for k in ("kind", "H", "W", "s", "num", "n_nodes")}, "sigma": str(c["sigma"]),
            "pts": [[[[None if v is None else str(v) for v in p] for p in inst] for inst in smp]
                    for smp in c["pts"]]}


def case_from_json(j):
    c = dict(j)
    c["sigma"] = F(j["sigma"])
    c["pts"] = [[[tuple(None if v is None else F(v) for v in p) for p in inst] for inst in smp]
                for smp in j["pts"]]
    return c


def check(run: core.Run) -> int:
    run.build_and_prove(PROP_FILES)
    core.impl_env_setup()
    import torch
    from sleap_nn.data import confidence_maps as cm
    mods = (torch, cm)
    thorough = run.tier == "thorough"
    n = 3000 if thorough else 240
    cases = []
    corpus = sorted((core.CORPUS / "C01").glob("*.json")) if (core.CORPUS / "C01").exists() else []
    for f in corpus:
        cases.append(case_from_json(json.load(open(f))))
    while len(cases) < n:
        c = gen_case(run.rng, thorough)
        if c["kind"] in ("gen3", "gen4", "dp_single") and not c["pts"][0]:
            continue
        cases.append(c)
    model = core.coq_eval_sharded(PREAMBLE, [term(c) for c in cases], "run", RENDER, shard=60, jobs=12)
    disagree = 0
    dist = {}
    for c, m in zip(cases, model):
        dist[c["kind"]] = dist.get(c["kind"], 0) + 1
        dist[f"stride{c['s']}"] = dist.get(f"stride{c['s']}", 0) + 1
        nvis = sum(visible(p) for smp in c["pts"] for inst in smp for p in inst)
        run.case(case_json(c), nontrivial=(nvis >= 1 and c["H"] * c["W"] >= 4))
        try:
            out = run_impl(c, mods)
            err = None
        except Exception as e:
            out, err = None, f"{type(e).__name__}: {e}"
        if err:
            run.violation("failing-input", {"case": case_json(c), "impl_error": err})
            continue
        bad = oracle(c, out)
        diff = compare(c, m, out)
        if diff:
            disagree += 1
        if bad:
            run.violation("failing-input", {"case": case_json(c), "oracle": bad, "correspondence": diff})
        elif diff:
            run.proof_broken.append(f"correspondence C01 model vs implementation: {diff}; case {json.dumps(case_json(c))[:600]}")
    run.obligation("correspondence: ConfMaps.run (Coq, vm_compute) == confidence_maps.py (/repo) on every case",
                   disagree == 0, f"{disagree} disagreements")
    run.coverage.update({
        "input_distribution": dist, "disagreements": disagree,
        "rule": "case = (entry point, keypoint array with NaN pattern, H, W, stride, sigma); non-trivial = at least one "
                "visible keypoint and H*W >= 4; distinct by full case content",
        "tolerance": {"atol": ATOL, "rtol": RTOL},
    })
    for c in cases[:3]:
        run.sample(case_json(c))
    run.trusted += ["torch.exp / nan_to_num / maximum / arange float32 kernels are modelled (exact rational argument of exp), "
                    "compared within float32 tolerance",
                    "with n_samples > 1 make_multi_confmaps broadcasts every instance over all samples; modelled as coded"]
    run.assumptions += ["coordinates are finite or NaN (no +-inf), sigma > 0"]
    return run.finish()


def replay(run: core.Run, path: str) -> int:
    core.impl_env_setup()
    import torch
    from sleap_nn.data import confidence_maps as cm
    rep = json.load(open(path))
    c = case_from_json(rep["case"])
    out = run_impl(c, (torch, cm))
    bad = oracle(c, out)
    print(json.dumps({"oracle": bad}))
    return 1 if bad else 0
