"""C11 — datasets never alter or invent labels; same index gives the same sample.

Part 1 (static, proof).  translator/c11_alias2coq.py regenerates, from
core.REPO's source, the AliasIR program of every data helper and Dataset
`__getitem__` / `_fill_cache` body plus an untrusted points-to certificate;
Coq evaluates the verified checker on each (vm_compute).  Accepted targets
get `accepted_<f>` / `pure_<f>` (instance of `fn_accepted_sound`) compiled per
run; a rejected target gets, when a refuting script is found, `refuted_<f>`
(a concrete execution of its generated program that changes a pre-existing
object, instance of `refute_check_sound`) and a dynamic search for a failing
input on the real code: failing input under a listed selector -> KNOWN-FINDING,
other failing input -> VIOLATION, none -> the broken obligation is reported.

Part 2 (dynamic tie + oracle).  Every translated helper is run on generated
inputs with deep copies of the arguments before/after and storage sharing
between arguments and results: observed writes-to-argument / result-aliases-
argument facts must be INCLUDED in what the analysis predicts (validates the
operation table); an altered argument is a failing input of the property.
Dataset histories over the four dataset classes x {in-memory, np_chunks}:
bit-for-bit re-reads in random order, labels unchanged, missing stays missing
(NaN, zero confidence-map channel, no PAF), length and index lists (compared
with the Coq model), sample keypoints = labels * scale; the DERIVED targets
(confidence maps of every class and of the four confidence-map functions) hold
every labelled keypoint of the sample (its peak) and nothing else
(`target_fails`; live channels compared with Dataset.run_presence).  The value model
`gen_centroid` is compared with the real generate_centroids on every case.
"""
from __future__ import annotations

import importlib
import json
import os
import shutil
import sys
import time
from pathlib import Path

from .. import core
from .. import c11_dyn as D

PROP_FILES = [core.THEORIES / "C11" / "Props.v"]
SEL_F5 = "centroid_anchor_missing_writes_through"
SEL_F110 = "user_filter_rebinds_label_instances"
CORPUS = core.CORPUS / "C11"
GEN_DIR = core.THEORIES / "Gen"


def load_translator():
    sys.path.insert(0, str(core.VERIF))
    import translator.c11_alias2coq as tr
    return importlib.reload(tr)


# ============================================================================
# Part 1: static

def atomic_write(path: Path, text: str):
    path.parent.mkdir(parents=True, exist_ok=True)
    tmp = path.with_suffix(path.suffix + f".tmp{os.getpid()}")
    tmp.write_text(text)
    os.replace(tmp, path)


def coqc_in(d: Path, f: str, timeout=600):
    return core.sh(["coqc", *core.COQ_FLAGS, "-Q", str(d), "C11Gen", f], cwd=d, timeout=timeout)


def simulate(body, nparams, policy):
    """Python mirror of AliasIR.srun on AliasIR.start_heap (only used to FIND a
    refuting script; Coq re-checks it).  `policy(kind, n_refs)` resolves each
    choice; returns (script, index of a changed pre-existing object) or None."""
    heap = [{"data": 0, "refs": [nparams + k]} for k in range(3 * nparams)] + \
           [{"data": 0, "refs": []} for _ in range(nparams)]
    n0 = len(heap)
    env = {}
    script = []

    class Stuck(Exception):
        pass

    def pick(kind, n=0):
        c = policy(kind, n)
        script.append(c)
        if len(script) > 3000:
            raise Stuck()
        return c

    def look(y):
        if y not in env:
            raise Stuck()
        return env[y]

    def alloc(refs):
        heap.append({"data": 0, "refs": list(refs)})
        return len(heap) - 1

    def ev(r):
        k = r[0]
        if k == "param":
            if r[1] >= nparams:
                raise Stuck()
            return r[1]
        if k == "fresh":
            return alloc([])
        if k == "alias":
            return look(r[1])
        if k == "maybe":
            c = pick("maybe")
            return look(r[2]) if c == 0 else alloc([])
        if k == "box":
            return alloc([env[y] for y in r[2] if y in env])
        if k == "copy":
            return alloc(heap[look(r[2])]["refs"])
        if k == "proj":
            o = env.get(r[1])
            c = pick("proj", len(heap[o]["refs"]) if o is not None else 0)
            if o is None:
                raise Stuck()
            refs = heap[o]["refs"]
            return o if (c == 0 or c - 1 >= len(refs)) else refs[c - 1]
        raise AssertionError(k)

    def run(stmts):
        for s in stmts:
            if s[0] == "assign":
                env[s[1]] = ev(s[2])
            elif s[0] == "store":
                heap[look(s[1])]["data"] += 1
            elif s[0] == "if":
                run(s[1] if pick("if") == 0 else s[2])
            elif s[0] == "loop":
                n = 0
                while pick("loop") != 0:
                    run(s[1])
                    n += 1
                    if n > 6:
                        raise Stuck()
    try:
        run(body)
    except Stuck:
        return None
    for o in range(n0):
        if heap[o]["data"] != 0:
            while script and script[-1] == 0:       # an exhausted script reads as 0
                script.pop()
            return script, o
    return None


def find_refuting_script(fn, rng):
    n = len(fn["params"])
    policies = []
    for proj in ("self", "descend"):
        for br in (0, 1):
            for loop in (0, 1):
                policies.append((proj, br, loop))

    def mk(proj, br, loop, state={}):
        iters = {"n": 0}

        def policy(kind, nrefs):
            if kind == "proj":
                return 1 if (proj == "descend" and nrefs > 0) else 0
            if kind == "if":
                return br
            if kind == "loop":
                iters["n"] += 1
                return 1 if (loop and iters["n"] % 2 == 1) else 0      # one iteration per loop
            return 0
        return policy
    for pol in policies:
        hit = simulate(fn["body"], n, mk(*pol))
        if hit is not None:
            return hit
    for attempt in range(300):
        p_desc, p_else, p_loop = rng.random(), rng.random() * 0.6, rng.random() * 0.5

        def policy(kind, nrefs):
            if kind == "proj":
                return rng.randint(1, nrefs) if (nrefs and rng.random() < p_desc) else 0
            if kind == "if":
                return int(rng.random() < p_else)
            if kind == "loop":
                return int(rng.random() < p_loop)
            return int(rng.random() < 0.2)
        hit = simulate(fn["body"], n, policy)
        if hit is not None:
            return hit
    return None


PROBE_SRC = '''
import torch
import numpy as np

def w_contiguous(x):
    y = x[..., 0, :].contiguous()
    y[0] = 1
    return y
def w_view(x):
    y = x.view(-1)
    y += 1
def w_reshape(x):
    y = x.reshape(-1)
    y *= 2
def w_squeeze(x):
    y = x.squeeze(0).unsqueeze(0)
    y[0] = 0
def w_T(x):
    y = x.T
    y[0] = 0
def w_expand(x):
    y = x.expand(2, -1)
    y.mul_(2)
def w_detach(x):
    y = x.detach()
    y.nan_to_num_()
def w_as_tensor(x):
    y = torch.as_tensor(x)
    y[0] = 0
def w_numpy(x):
    y = x.numpy()
    y[0] = 0
def w_from_numpy(x):
    y = torch.from_numpy(x)
    y[0] = 0
def w_to(x):
    y = x.to(torch.float32)
    y[0] = 0
def w_out(x, z):
    torch.nan_to_num(z, out=x)
def w_slice(x):
    y = x[1:]
    y -= 1
def w_cached_entry(d):
    s = d[0].copy()
    s["a"] -= 1
def w_cached_dict(d):
    s = d[0]
    s["a"] = torch.zeros(1)
def a_clone(x):
    y = x[..., 0, :].clone()
    y[0] = 1
    return y
def a_copy(x):
    y = x.numpy().copy()
    y[0] = 0
def a_arith(x):
    y = x * 2
    y += 1
def a_tensor(x):
    y = torch.tensor([1.0])
    y[0] = 0
def a_nparray(x):
    y = np.array(x)
    y[0] = 0
def a_rebind(d):
    s = d[0].copy()
    s["a"] = s["a"] - 1
def u_method(x):
    return x.frobnicate()
def u_function(x):
    return torch.frobnicate(x)
def u_local_call(x, f):
    return f(x)
'''


def probe_table(run, tr):
    """The operation table is fail-closed and classifies the view-like operations as may-alias: tiny probe
    functions are translated and judged by the Python-side solver (the same constraints the Coq checker
    verifies): w_* (a write through contiguous / view / reshape / squeeze / .T / expand / detach / as_tensor /
    .numpy() / from_numpy / .to / out= / slicing / an augmented assignment on an entry of a shallow-copied
    cached dict) must be REJECTED, a_* (clone, copy, arithmetic, torch.tensor, np.array, rebinding) accepted,
    u_* (unknown method / function / callable) outside the fragment."""
    d = core.scratch_dir("sv_c11probe_")
    bad = []
    try:
        path = Path(d) / "probe.py"
        path.write_text(PROBE_SRC)
        src = tr.Source(core.REPO)
        mod = tr.Module("probe", path)
        for name, fd in mod.funcs.items():
            kind = name.split("_")[0]
            try:
                fn = tr.Translator(src, name).translate(mod, fd, None)
                got = "w" if tr.analysis_facts(fn)["written_params"] else "a"
            except tr.Unsupported:
                got = "u"
            if got != kind:
                bad.append(f"{name}: expected {kind}, got {got}")
    finally:
        shutil.rmtree(d, ignore_errors=True)
    run.obligation("operation table: view-like operations may alias (write-through probes rejected), only clone / copy "
                   "/ arithmetic / constructors are fresh, unknown operations are outside the fragment (fail-closed)",
                   not bad, "; ".join(bad))


def static_part(run: core.Run, tr):
    """Returns {target name: {translated, accepted, closed, nowrite, written, result_params}}."""
    t0 = time.time()
    text, fns, failures = tr.translate_all(core.REPO)
    verdict = {}
    for name, msg in failures:
        verdict[name] = {"translated": False, "accepted": False, "why": msg}
        run.log(f"translator: {name} outside the fragment: {msg}")
    for n, *_ in tr.TARGETS:
        verdict.setdefault(n, {"translated": True})
    d = core.scratch_dir("sv_c11gen_")
    try:
        (d / "C11_AliasProg.v").write_text(text)
        keep_copy = core.REPO.resolve() == Path("/repo")     # a mutated worktree must not overwrite the copy
        if keep_copy:
            atomic_write(GEN_DIR / "C11_AliasProg.v", text)
        rc, out = coqc_in(d, "C11_AliasProg.v")
        run.obligation("generated Gen/C11_AliasProg.v compiles", rc == 0, out[-1500:])
        if rc != 0:
            for f in fns:
                verdict[f["name"]].update({"accepted": False, "why": "generated file does not compile"})
            return verdict, fns
        # authoritative verdicts: evaluated by the verified checker inside Coq
        (d / "report.v").write_text(
            "From SV Require Import Base.Render C11.AliasIR.\nFrom C11Gen Require Import C11_AliasProg.\n"
            "From Coq Require Import String List.\n"
            f'Redirect "{d}/report" Eval vm_compute in (render_lines (rtriple rquoted (rpair rbool rbool) '
            "(rpair (rlist rnat) (rlist rnat))) report).\n")
        rc, out = coqc_in(d, "report.v", timeout=300)
        if rc != 0:
            run.obligation("checker report evaluates", False, out[-1500:])
            return verdict, fns
        raw = (d / "report.out").read_text()
        body = raw[raw.index('"') + 1:raw.rindex('"')].replace('""', '"')
        for line in body.split("\n"):
            if line.strip():
                name, (closed, nowrite), (written, resp) = json.loads(line)
                verdict[name].update({"closed": closed, "nowrite": nowrite, "accepted": closed and nowrite,
                                      "written": written, "result_params": resp})
        accepted = [f["name"] for f in fns if verdict[f["name"]].get("accepted")]
        rejected = [f for f in fns if not verdict[f["name"]].get("accepted")]
        for f in rejected:
            verdict[f["name"]]["offending"] = tr.offending_stores(f)
        obl = tr.obligations_text(accepted, module="C11_AliasProg").replace(
            "Require Import C11_AliasProg.", "From C11Gen Require Import C11_AliasProg.")
        # rejected targets: try to exhibit a refuting execution of the generated program
        refuted = []
        for f in rejected:
            if not verdict[f["name"]].get("closed"):
                continue            # certificate not closed: translator/solver problem, not a refutation
            hit = find_refuting_script(f, run.rng)
            if hit is None:
                run.notes.append(f"{f['name']}: rejected, no refuting script found in the heap model "
                                 "(analysis is conservative)")
                continue
            script, o = hit
            i = tr.coq_ident(f["name"])
            n = len(f["params"])
            obl += (f"Theorem refuted_{i} : exists e' h', wf_heap (start_heap {n}) /\\ "
                    f"args_in (start_args {n}) (start_heap {n}) /\\\n"
                    f"  exec (start_args {n}) (f_body fn_{i}) ([], start_heap {n}) (e', h') /\\\n"
                    f"  {o} < length (start_heap {n}) /\\ nth_error h' {o} <> nth_error (start_heap {n}) {o}.\n"
                    f"Proof. apply (refute_check_sound_l 4000 (f_body fn_{i}) (start_heap {n}) (start_args {n}) "
                    f"[{'; '.join(map(str, script))}] {o}). vm_compute. reflexivity. Qed.\n"
                    f"Print Assumptions refuted_{i}.\n\n")
            refuted.append(f["name"])
        (d / "C11_Oblig.v").write_text(obl)
        if keep_copy:
            atomic_write(GEN_DIR / "C11_Oblig.v",
                         "(* copy for inspection; compiled per run in a scratch directory with -Q <dir> C11Gen *)\n" + obl)
        rc, out = coqc_in(d, "C11_Oblig.v")
        blocks = core.parse_print_assumptions(out) if rc == 0 else []
        ok = rc == 0 and len(blocks) == len(accepted) + len(refuted) + 1 and not any(blocks)
        if ok:
            run.obligation(f"history_pure: after ANY sequence of calls of the {len(accepted)} accepted regenerated "
                           "programs every object existing before it (labels incl. the instance list of every "
                           "frame, cache, cached samples) has the same value to any depth, and no later call alters "
                           "a sample handed out earlier (all_accepted + history_value / earlier_results_stable); "
                           "attribute stores into label objects are translated as stores (a target that rebinds "
                           "lf.instances is REJECTED, not in this list)", True)
            for n in accepted:
                own = (" [the dataset's own self.cache / self.cache_lf are modelled as objects this call creates "
                       "and fills: 'pre-existing' = the labels and every other attribute of self]"
                       if any(t[0] == n and t[3] is not None for t in tr.TARGETS) else "")
                run.obligation(f"accepted_{n} / pure_{n}: verified checker accepts the regenerated program "
                               f"(vm_compute) and fn_accepted_sound applies{own}", True)
            for n in refuted:
                verdict[n]["model_refuted"] = True
                run.obligation(f"refuted_{n}: the regenerated program has an execution that changes a "
                               "pre-existing object (refute_check, vm_compute)", True)
        else:
            run.obligation("generated Gen/C11_Oblig.v (acceptance / refutation obligations) compiles, closed "
                           "under the global context", False, out[-1500:])
            for n in accepted:
                verdict[n]["accepted"] = False
                verdict[n]["why"] = "obligation file does not compile"
    finally:
        shutil.rmtree(d, ignore_errors=True)
    run.coverage["static"] = {
        "targets": len(tr.TARGETS), "translated": len(fns),
        "accepted": sorted(n for n, v in verdict.items() if v.get("accepted")),
        "rejected": sorted(n for n, v in verdict.items() if not v.get("accepted")),
        "model_refuted": sorted(n for n, v in verdict.items() if v.get("model_refuted")),
        "statements": {f["name"]: len(tr.flatten(f["body"], [])) for f in fns},
        "logged_attribute_rebindings": sorted({l for f in fns for l in f["logged"]}),
        # summary "the result (or something it refers to) may be / may be a view of parameter i", from the checker
        "result_may_alias_params": {n: v["result_params"] for n, v in sorted(verdict.items()) if v.get("result_params")},
        "wall_s": round(time.time() - t0, 1)}
    return verdict, fns


# ============================================================================
# Part 2a: functional API — purity and the operation table

def fn_cases(name, rng):
    """One JSON-able case {fn, args{...}, seed} for the named helper."""
    g = D
    n_nodes = rng.randint(2, 4)
    n_inst = rng.randint(1, 3)
    H, W = rng.choice([12, 16, 24]), rng.choice([12, 16, 24])
    stride = rng.choice([1, 2, 4])
    xv = {"t": "arange", "n": W, "step": stride}
    yv = {"t": "arange", "n": H, "step": stride}
    edges = [[k, k + 1] for k in range(n_nodes - 1)]
    a = None
    if name == "find_points_bbox_midpoint":
        a = {"points": g.gen_kps(rng, rng.choice([[], [n_inst], [1, n_inst]]), n_nodes, W, H)}
    elif name == "generate_centroids":
        anchor = rng.choice([None] + list(range(n_nodes)))
        a = {"points": g.gen_kps(rng, rng.choice([[n_inst], [1, n_inst]]), n_nodes, W, H, missing_node=anchor),
             "anchor_ind": anchor}
    elif name == "make_centered_bboxes":
        a = {"centroids": {"t": "tensor", "data": [[g.dy(rng, 0, W), g.dy(rng, 0, H)] for _ in range(n_inst)]},
             "box_height": rng.choice([4, 8]), "box_width": rng.choice([4, 8])}
    elif name == "generate_crops":
        a = {"image": g.gen_image(rng, H=H, W=W, dtype="float32"),
             "instance": g.gen_kps(rng, [], n_nodes, W, H),
             "centroid": {"t": "tensor", "data": [g.dy(rng, 2, W - 2), g.dy(rng, 2, H - 2)]},
             "crop_size": {"t": "tuple", "items": [rng.choice([4, 8]), rng.choice([4, 8])]}}
    elif name == "resize_image":
        a = {"image": g.gen_image(rng), "scale": rng.choice([1.0, 0.5, 2.0, 0.75])}
    elif name == "apply_resizer":
        a = {"image": g.gen_image(rng), "instances": g.gen_kps(rng, [1, n_inst], n_nodes, W, H),
             "scale": rng.choice([1.0, 1.0, 0.5, 2.0, 0.75])}
    elif name == "apply_pad_to_stride":
        a = {"image": g.gen_image(rng), "max_stride": rng.choice([1, 2, 4, 8, 16])}
    elif name == "apply_sizematcher":
        img = g.gen_image(rng)
        h, w = img["shape"][-2:]
        a = {"image": img, "max_height": rng.choice([None, h, h + 4, 2 * h]),
             "max_width": rng.choice([None, w, w + 6, 2 * w])}
    elif name in ("apply_normalization", "convert_to_grayscale", "convert_to_rgb"):
        a = {"image": g.gen_image(rng)}
    elif name == "make_confmaps":
        a = {"points_batch": g.gen_kps(rng, [rng.randint(1, 2)], n_nodes, W, H), "xv": xv, "yv": yv,
             "sigma": rng.choice([1.5, 3.0])}
    elif name == "make_multi_confmaps":
        a = {"points_batch": g.gen_kps(rng, [1, n_inst], n_nodes, W, H), "xv": xv, "yv": yv,
             "sigma": rng.choice([1.5, 3.0])}
    elif name == "generate_confmaps":
        a = {"instance": g.gen_kps(rng, rng.choice([[1], [1, n_inst]]), n_nodes, W, H),
             "img_hw": {"t": "tuple", "items": [H, W]}, "sigma": 1.5, "output_stride": stride}
    elif name == "generate_multiconfmaps":
        if rng.random() < 0.4:
            pts = {"t": "kps", "data": [[None if rng.random() < 0.3 else [g.dy(rng, 1, W - 2), g.dy(rng, 1, H - 2)]
                                         for _ in range(n_inst)]], "shape": [1, n_inst, 2]}
            a = {"instances": pts, "is_centroids": True}
        else:
            a = {"instances": g.gen_kps(rng, [1, n_inst], n_nodes, W, H), "is_centroids": False}
        a.update({"img_hw": {"t": "tuple", "items": [H, W]}, "num_instances": rng.randint(1, n_inst),
                  "sigma": 1.5, "output_stride": stride})
    elif name == "distance_to_edge":
        n_e = rng.randint(1, 3)
        a = {"points": {"t": "tensor", "data": [[[float(x), float(y)] for x in range(0, W, 4)] for y in range(0, H, 4)]},
             "edge_source": g.gen_kps(rng, [], n_e, W, H), "edge_destination": g.gen_kps(rng, [], n_e, W, H)}
    elif name in ("make_edge_maps", "make_pafs"):
        n_e = rng.randint(1, 3)
        a = {"xv": xv, "yv": yv, "edge_source": g.gen_kps(rng, [], n_e, W, H),
             "edge_destination": g.gen_kps(rng, [], n_e, W, H), "sigma": rng.choice([1.5, 4.0])}
    elif name == "make_multi_pafs":
        n_e = rng.randint(1, 3)
        a = {"xv": xv, "yv": yv, "edge_sources": g.gen_kps(rng, [n_inst], n_e, W, H),
             "edge_destinations": g.gen_kps(rng, [n_inst], n_e, W, H), "sigma": rng.choice([1.5, 4.0])}
    elif name == "get_edge_points":
        a = {"instances": g.gen_kps(rng, [n_inst], n_nodes, W, H),
             "edge_inds": {"t": "tensor", "data": [[float(u), float(v)] for u, v in edges]}}
    elif name == "generate_pafs":
        a = {"instances": g.gen_kps(rng, [1, n_inst], n_nodes, W, H), "img_hw": {"t": "tuple", "items": [H, W]},
             "sigma": rng.choice([1.5, 4.0]), "output_stride": stride,
             "edge_inds": {"t": "tensor", "data": [[float(u), float(v)] for u, v in edges]},
             "flatten_channels": rng.random() < 0.5}
    elif name == "expand_to_rank":
        shape = [rng.randint(1, 3) for _ in range(rng.randint(1, 3))]
        a = {"x": {"t": "image", "shape": shape, "dtype": "float32", "seed": rng.randrange(1 << 30)},
             "target_rank": rng.randint(1, 5), "prepend": rng.random() < 0.5}
    elif name == "process_lf":
        ls = D.gen_label_set(rng)
        idx = rng.randrange(len(ls["frames"]))
        uo = rng.random() < 0.7
        # stay inside process_lf's domain: the frame has a non-empty considered instance
        cons = D.considered(ls["frames"][idx], uo)
        if rng.random() < 0.1:                       # OUTSIDE the domain (round 4): process_lf must raise
            for i in cons:
                i["pts"] = [None] * len(i["pts"])
        elif all(D.is_empty(i) for i in cons):
            cons[0]["pts"][0] = [2.0, 3.0]
        mx = max(len(f["insts"]) for f in ls["frames"])
        a = {"lf": {"t": "lf", "labels": ls, "index": idx}, "video_idx": 0, "max_instances": mx,
             "user_instances_only": uo}
    elif name == "apply_intensity_augmentation":
        a = {"image": g.gen_image(rng, dtype="float32"), "instances": g.gen_kps(rng, [1, n_inst], n_nodes, W, H),
             "uniform_noise_p": rng.choice([0.0, 1.0]), "gaussian_noise_p": rng.choice([0.0, 1.0]),
             "contrast_p": rng.choice([0.0, 1.0]), "brightness_p": rng.choice([0.0, 1.0]),
             "brightness": 0.1}
    elif name == "apply_geometric_augmentation":
        a = {"image": g.gen_image(rng, dtype="float32"), "instances": g.gen_kps(rng, [1, n_inst], n_nodes, W, H),
             "affine_p": rng.choice([0.0, 1.0]), "scale": {"t": "tuple", "items": [0.9, 1.1]},
             "erase_p": rng.choice([0.0, 1.0])}
    elif name == "make_grid_vectors":
        a = {"image_height": H, "image_width": W, "output_stride": stride}
    elif name == "gaussian_pdf":
        a = {"x": {"t": "image", "shape": [rng.randint(1, 4), rng.randint(1, 4)], "dtype": "float32",
                   "seed": rng.randrange(1 << 30)}, "sigma": rng.choice([1.0, 2.5])}
    elif name == "find_padding_for_stride":
        a = {"image_height": H, "image_width": W, "max_stride": rng.choice([1, 2, 8, 16])}
    elif name in ("get_max_instances", "get_max_height_width"):
        a = {"labels": {"t": "labels", "labels": D.gen_label_set(rng)}}
    elif name in D.CHUNK_FNS:
        return D.gen_chunk_case(rng, name)
    if a is None:
        return None
    return {"fn": name, "args": a, "torch_seed": rng.randrange(1 << 30)}


FN_MODULES = {}


def resolve_fn(tr, name):
    for disp, mod, qual, _ in tr.TARGETS:
        if disp == name:
            m = importlib.import_module(mod)
            obj = m
            for part in qual.split("."):
                obj = getattr(obj, part)
            return obj
    raise KeyError(name)


def run_fn_case(tr, case):
    """Runs the real helper.  Returns dict: written (param indices), aliased
    (param indices the result shares memory with), changes (details), raised."""
    import inspect
    import torch
    fn = resolve_fn(tr, case["fn"])
    names = list(inspect.signature(fn).parameters)
    args = {k: D.build(v) for k, v in case["args"].items()}
    snaps = {k: D.Snapshot(v) for k, v in args.items()}
    torch.manual_seed(case["torch_seed"])
    res, raised = None, None
    try:
        res = fn(**args)
        if inspect.isgenerator(res):       # centered_instance_data_chunks yields one sample per instance
            res = list(res)
    except Exception as e:                 # the helpers are total on the generated domain
        raised = f"{type(e).__name__}: {e}"
    written, changes = [], []
    for k, s in snaps.items():
        ch = s.changed()
        if ch:
            written.append(names.index(k))
            for path, before, after in ch:
                changes.append({"param": k, "path": path, "before": D.to_json(before), "after": D.to_json(after)})
    aliased = []
    if res is not None:
        rr = [r for r in (D.mem_range(l) for _, l in D.leaves(res)) if r]
        for k, s in snaps.items():
            pr = s.ranges()
            if any(D.overlaps(r, pr) for r in rr):
                aliased.append(names.index(k))
    frame_after = None
    lfobj = args.get("lf") if "lf" in args else (args["x"][0] if isinstance(args.get("x"), tuple) else None)
    if isinstance(lfobj, D.DFrame):
        frame_after = [not i.predicted for i in lfobj.instances]
    return {"written": sorted(written), "aliased": sorted(aliased), "changes": changes, "raised": raised,
            "result": res, "args": args, "frame_after": frame_after}


def f5_function_selector(case, changes) -> bool:
    """selector centroid_anchor_missing_writes_through at function level:
    generate_centroids with an anchor; every altered entry is the anchor keypoint of
    an instance whose anchor was missing (NaN) and that has a labelled keypoint."""
    if case["fn"] != "generate_centroids" or case["args"].get("anchor_ind") is None or not changes:
        return False
    import numpy as np
    a = case["args"]["anchor_ind"]
    for ch in changes:
        if ch["param"] != "points":
            return False
        before = np.array(ch["before"], dtype=float)       # to_json: None = NaN per coordinate
        after = np.array(ch["after"], dtype=float)
        if before.shape != after.shape:
            return False
        diff = ~((before == after) | (np.isnan(before) & np.isnan(after)))
        idx = np.argwhere(diff)
        for pos in idx:
            if pos[-2] != a:
                return False
            inst_before = before[tuple(pos[:-2])]
            if not np.isnan(inst_before[a]).all() or np.isnan(inst_before).all():
                return False
    return True


def case_frame(case):
    """(frame spec, user_instances_only) of a process_lf / chunk case, else None"""
    a = case["args"]
    lf = a.get("lf") or (a["x"]["items"][0] if "x" in a else None)
    if not isinstance(lf, dict) or lf.get("t") != "lf":
        return None
    return lf["labels"]["frames"][lf["index"]], bool(a.get("user_instances_only"))


def f110_function_selector(case, changes) -> bool:
    """selector user_filter_rebinds_label_instances at function level: process_lf / a chunk function with
    user_instances_only on a frame holding both user and predicted instances; the ONLY change of the
    arguments is the instance list of that frame, which lost exactly its predicted instances."""
    cf = case_frame(case)
    if cf is None or not changes:
        return False
    fr, uo = cf
    if not (uo and D.frame_mixed(fr)):
        return False
    for ch in changes:
        if not ch["path"].endswith(".instances") or not isinstance(ch["before"], list):
            return False
        if ch["after"] != [d for d in ch["before"] if str(d).startswith("user")]:
            return False
    return True


def chunk_plain(res):
    """chunk results without the PIL images (compared through their pixels)"""
    import numpy as np

    def conv(v):
        if isinstance(v, dict):
            return {k: conv(x) for k, x in v.items()}
        if isinstance(v, list):
            return [conv(x) for x in v]
        if hasattr(v, "getdata") and hasattr(v, "size"):       # PIL image
            return np.asarray(v).copy()
        return v
    return conv(res)


def chunk_model_part(run, chunk_obs):
    """Chunks.run_chunk (Coq: process_lf rows / padding / num_instances x eff_scale [x scale], centroids,
    one crop per non-empty instance) against what the real chunk functions returned."""
    import numpy as np
    if not chunk_obs:
        return
    fixed = code_is_fixed()
    fixedL = labels_fixed()

    def kp(p):
        return "None" if p is None else f"(Some ({core.cq(D.frac(p[0]))}, {core.cq(D.frac(p[1]))}))"

    def rawframe(f):
        return core.clist(f["frame"]["insts"], lambda i: f"({core.cbool(not i['pred'])}, {core.clist(i['pts'], kp)})")

    def term(c):
        f = D.chunk_facts(c)
        return (f"({core.cbool(fixed)}, {core.copt(f['anchor'], core.cnat)}, {core.cbool(f['uo'])}, "
                f"{core.cnat(f['maxi'])}, {core.cq(D.frac(f['eff']))}, {core.cq(D.frac(f['scale']))}, {rawframe(f)})")

    def term_after(c):
        f = D.chunk_facts(c)
        return f"({core.cbool(fixedL)}, {core.cbool(f['uo'])}, {rawframe(f)})"
    pre = ("From SV Require Import C11.Values C11.Dataset C11.Chunks.\nFrom Coq Require Import List QArith.\n"
           "Import ListNotations.\nDefinition rkp := ropt (rpair rQ rQ).\n"
           "Definition rrows := rpair (rlist (rlist rkp)) rnat.\n")
    model_dom = core.coq_eval_sharded(pre, [term(c) for c, _ in chunk_obs], "run_chunk_dom",
                                      "rpair (rpair rbool rbool) (rpair (rpair rrows rrows) (rpair (rpair rrows (rlist rkp)) "
                                      "(rlist (rpair rkp (rlist rkp)))))", shard=80)
    model = [m[1] for m in model_dom]
    after = core.coq_eval_sharded(pre, [term_after(c) for c, _ in chunk_obs], "run_frame_after", "rlist rbool",
                                  shard=400)

    def kp_close(m, x, shift=None):
        if m is None:
            return x[0] is None and x[1] is None
        if x[0] is None or x[1] is None:
            return False
        mv = [float(core.frac(m[0])), float(core.frac(m[1]))]
        if shift is not None:
            mv = [mv[0] - shift[0], mv[1] - shift[1]]
        return bool(np.allclose(mv, x, atol=1e-3, rtol=1e-4))

    def rows_ok(mrows, mn, got):
        return got["n"] == mn and len(got["rows"]) == len(mrows) and all(
            len(r) == len(g) and all(kp_close(m, x) for m, x in zip(r, g)) for r, g in zip(mrows, got["rows"]))
    bad = []
    dom_bad, after_bad, n_out = [], [], 0
    for (c, got), (dom_lf, dom_an), maft in zip(chunk_obs, [m[0] for m in model_dom], after):
        n = c["fn"]
        defined = dom_lf and (dom_an or n not in ("centroid_data_chunks", "centered_instance_data_chunks"))
        n_out += not defined
        if defined != ("raised" not in got) or defined != D.chunk_in_domain(c):
            dom_bad.append({"fn": n, "model_domain": [dom_lf, dom_an], "spec_domain": D.chunk_in_domain(c),
                            "impl": got.get("raised", "returned"), "frame": D.chunk_facts(c)["frame"],
                            "anchor": D.chunk_facts(c)["anchor"]})
        if got.get("frame_after") is not None and got["frame_after"] != maft:
            after_bad.append({"fn": n, "uo": D.chunk_facts(c)["uo"], "frame": D.chunk_facts(c)["frame"],
                              "impl_user_flags_after": got["frame_after"], "model": maft})
    run.obligation("correspondence: lf_domain / chunk_anchor_domain (Coq, hypotheses of the process_lf / chunk theorems) == "
                   "the calls on which process_lf / the chunk functions return (they raise exactly outside)", not dom_bad,
                   json.dumps(dom_bad[:2])[:900])
    run.obligation(f"correspondence: frame_after (Coq, fixedL={fixedL}) == the instance list the caller's labelled frame "
                   "holds after process_lf / a chunk function was called on it", not after_bad,
                   json.dumps(after_bad[:2])[:900])
    for (c, got), ((mbu, msi), ((mce, mcents), mcrops)) in zip(chunk_obs, model):
        why = None
        n = c["fn"]
        if "raised" in got:
            continue                                  # judged by the domain obligation above
        if "error" in got:
            why = got["error"]
        elif n == "process_lf" and not rows_ok(mbu[0], mbu[1], got):
            why = f"impl n={got['n']} rows {got['rows']} model {mbu}"
        elif n == "bottomup_data_chunks" and not rows_ok(mbu[0], mbu[1], got):
            why = f"impl n={got['n']} rows {got['rows']} model {mbu}"
        elif n == "single_instance_data_chunks" and not rows_ok(msi[0], msi[1], got):
            why = f"impl n={got['n']} rows {got['rows']} model {msi}"
        elif n == "centroid_data_chunks":
            if not rows_ok(mce[0], mce[1], got):
                why = f"instances: impl n={got['n']} rows {got['rows']} model {mce}"
            elif len(mcents) != len(got["cents"]) or not all(kp_close(m, x) for m, x in zip(mcents, got["cents"])):
                why = f"centroids: impl {got['cents']} model {mcents}"
        elif n == "centered_instance_data_chunks":
            if len(mcrops) != len(got["crops"]):
                why = f"{len(got['crops'])} crops, model {len(mcrops)}"
            else:
                for k, (g, (mc, mk)) in enumerate(zip(got["crops"], mcrops)):
                    if mc is None or g["cen_nan"]:
                        why = f"crop {k}: centroid missing (model {mc}, impl NaN={g['cen_nan']})"
                        break
                    sh = [float(core.frac(mc[0])), float(core.frac(mc[1]))]
                    if len(mk) != len(g["rel"]) or not all(kp_close(m, x, sh) for m, x in zip(mk, g["rel"])):
                        why = f"crop {k}: instance - centroid: impl {g['rel']} model {mk} - {mc}"
                        break
        if why:
            bad.append({"fn": n, "args": {k: v for k, v in c["args"].items() if k != "x"},
                        "frame": D.chunk_facts(c)["frame"], "why": why[:600]})
    run.obligation("correspondence: Chunks.run_chunk (Coq) == get_data_chunks (/repo): instances rows / NaN padding / "
                   "num_instances, centroids, crops relative to their centroid, on every generated call", not bad,
                   json.dumps(bad[:2])[:900])
    run.coverage["chunk_model"] = {"calls": len(chunk_obs), "fixed": fixed, "fixedL": fixedL,
                                   "outside_domain": n_out,
                                   "mixed_frame_user_only": sum(1 for c, _ in chunk_obs if D.chunk_facts(c)["uo"]
                                                                and D.frame_mixed(D.chunk_facts(c)["frame"])),
                                   "scale_ne_1": sum(1 for c, _ in chunk_obs if c["args"].get("scale", 1.0) != 1.0),
                                   "all_anchors_no_padding": sum(1 for c, _ in chunk_obs if chunk_dense(c))}


def chunk_dense(c) -> bool:
    """anchor configured and labelled in every instance of the frame, no padding row"""
    f = D.chunk_facts(c)
    return f["anchor"] is not None and f["anchor"] < f["ls"]["n_nodes"] and all(i["pts"][f["anchor"]] is not None for i in f["cons"]) and \
        (f["maxi"] == 1 or len(f["cons"]) == f["maxi"])


CONFMAP_FNS = ("make_confmaps", "make_multi_confmaps", "generate_confmaps", "generate_multiconfmaps")


def confmap_fn_fails(n, args, res):
    """functional API (round 5): the maps returned by the four confidence-map functions carry every labelled
    keypoint of their input and nothing else (target_fails), whatever the NaN patterns of the other instances"""
    import numpy as np
    cms = res.detach().numpy()
    if n in ("make_confmaps", "make_multi_confmaps"):
        pts = args["points_batch"].numpy()
        grid = (args["xv"].numpy(), args["yv"].numpy(), float(args["sigma"]))
        stride = sigma = None
    else:
        pts = args["instance" if n == "generate_confmaps" else "instances"].numpy()
        grid, stride, sigma = None, args["output_stride"], args["sigma"]
    fails = []
    if n in ("make_confmaps", "generate_confmaps"):
        pts = pts.reshape(pts.shape[0], -1, 2)                      # one channel per (instance, node)
        for b in range(pts.shape[0]):
            fails += target_fails(cms[b], [[(f"sample {b} point {k}", p)] if np.isfinite(p).all() else []
                                           for k, p in enumerate(pts[b])], stride, sigma, n, grid)
        return fails
    if pts.ndim == 3:                                               # centroids (samples, instances, 2)
        pts = pts[:, :, None, :]
    if n == "generate_multiconfmaps":
        pts = pts[:, :int(args["num_instances"])]
    for b in range(pts.shape[0]):
        fails += target_fails(cms[b], [[(f"sample {b} instance {j} node {k}", pts[b, j, k]) for j in range(pts.shape[1])
                                        if np.isfinite(pts[b, j, k]).all()] for k in range(pts.shape[2])],
                              stride, sigma, n, grid)
    return fails


def functional_part(run, tr, verdict, tier):
    import torch
    n_per = 14 if tier == "quick" else 300
    names = [t[0] for t in tr.TARGETS if t[3] is None and "." not in t[0]]
    tie_bad, oracle_bad, total = [], 0, 0
    failing = {n: [] for n in names}         # per target: failing inputs found
    cases = []
    # corpus first
    for p in sorted(CORPUS.glob("*.json")) if CORPUS.exists() else []:
        c = json.loads(p.read_text())
        if c.get("kind") == "function":
            cases.append(c["case"])
    n_chunk = 40 if tier == "quick" else 500
    chunk_obs = []
    for n in names:
        k = 0
        while k < (n_chunk if n in D.CHUNK_FNS else n_per):
            c = fn_cases(n, run.rng)
            if c is None:
                break
            cases.append(c)
            k += 1
    raised_n = 0
    for c in cases:
        n = c["fn"]
        obs = run_fn_case(tr, c)
        total += 1
        nontrivial = any(isinstance(v, dict) and v.get("t") == "kps" and "null" in json.dumps(v["data"])
                         for v in c["args"].values())
        run.case({"fn": n, "args": c["args"]}, nontrivial=nontrivial or n in ("generate_centroids",))
        v = verdict.get(n, {})
        if obs["raised"]:
            raised_n += 1
            if not (n == "process_lf" or n in D.CHUNK_FNS) or D.chunk_in_domain(c):
                run.notes.append(f"{n} raised on a generated case: {obs['raised'][:120]}")
        # (a) tie: observed facts must be included in the predicted ones
        if v.get("closed"):
            if not set(obs["written"]) <= set(v["written"]):
                tie_bad.append(f"{n}: observed write to parameter(s) {obs['written']} not predicted {v['written']}")
            if not set(obs["aliased"]) <= set(v["result_params"]):
                tie_bad.append(f"{n}: result shares memory with parameter(s) {obs['aliased']}, predicted {v['result_params']}")
        # (b) oracle: the arguments are untouched
        if obs["written"]:
            oracle_bad += 1
            sel = SEL_F5 if f5_function_selector(c, obs["changes"]) else \
                (SEL_F110 if f110_function_selector(c, obs["changes"]) else None)
            failing[n].append(sel)
            run.violation("failing-input", {"what": f"{n} altered its argument(s)", "case": c,
                                            "changes": obs["changes"][:4], "oracle_clause": "input tensors untouched"},
                          selector=sel)
        # (b') the four confidence-map functions: every labelled keypoint of the input is in the maps, nothing else
        if n in CONFMAP_FNS and not obs["raised"]:
            fails = confmap_fn_fails(n, obs["args"], obs["result"])
            if fails:
                oracle_bad += 1
                failing[n].append(None)
                run.violation("failing-input", {"what": f"{n}: the maps do not hold exactly the labelled keypoints",
                                                "case": c, "failures": fails[:4], "oracle_clause": fails[0]["clause"]})
        # (c) chunk functions: what the sample holds of the labelled frame (labels x factor, NaN pattern,
        #     padding, centroids, one crop per instance), and the same call again gives the same sample
        if n in D.CHUNK_FNS and obs["raised"]:
            if D.chunk_in_domain(c):
                oracle_bad += 1
                failing[n].append(None)
                run.violation("failing-input", {"what": f"{n} raised on a labelled frame with a non-empty instance",
                                                "case": c, "raised": obs["raised"][:300], "oracle_clause": "total"})
            chunk_obs.append((c, {"raised": obs["raised"][:200], "frame_after": obs["frame_after"]}))
        elif n == "process_lf":
            if obs["raised"]:
                chunk_obs.append((c, {"raised": obs["raised"][:200], "frame_after": obs["frame_after"]}))
            else:
                chunk_obs.append((c, dict(D.chunk_summary(c, obs["result"]), frame_after=obs["frame_after"])))
        elif n in D.CHUNK_FNS:
            fails = D.check_chunk(c, obs["result"])
            again = run_fn_case(tr, c)
            if again["raised"] or not D.same_value(chunk_plain(obs["result"]), chunk_plain(again["result"])):
                fails.append({"clause": "the same call on the same labelled frame gives the same sample (bit for bit)",
                              "detail": again["raised"] or "results differ"})
            if fails:
                oracle_bad += 1
                failing[n].append(None)
                run.violation("failing-input", {"what": f"{n}: chunk sample does not hold the labels as they are",
                                                "case": c, "failures": fails[:4], "oracle_clause": fails[0]["clause"]})
            try:
                chunk_obs.append((c, dict(D.chunk_summary(c, obs["result"]), frame_after=obs["frame_after"])))
            except Exception as e:
                chunk_obs.append((c, {"error": f"{type(e).__name__}: {e}", "frame_after": obs["frame_after"]}))
    chunk_model_part(run, chunk_obs)
    run.obligation("tie (operation table): observed argument writes / result-argument storage sharing are "
                   "included in the analysis' predictions on every generated call", not tie_bad,
                   "; ".join(tie_bad[:4]))
    run.coverage["functional"] = {"calls": total, "helpers": len(names), "cases_per_helper": n_per,
                                  "argument_altered": oracle_bad, "raised": raised_n}
    if cases:
        run.sample({"functional_case": cases[min(len(cases) - 1, 3)]})
    return failing


# ============================================================================
# Part 2b: value model of generate_centroids vs the real function

def centroid_model_part(run, code_fixed: bool, tier):
    import numpy as np
    import torch
    from sleap_nn.data.instance_centroids import generate_centroids
    rng = run.rng
    n = 150 if tier == "quick" else 4000
    cases = []
    for _ in range(n):
        n_nodes = rng.randint(1, 4)
        anchor = rng.choice([None] + list(range(n_nodes)))
        force = rng.choice([None, None, "empty", "full"] + ([("missing", anchor)] * 3 if anchor is not None else []))
        cases.append((anchor, D.gen_instance(rng, n_nodes, 32, 32, 0.3, force)))

    def term(anchor, inst):
        kps = core.clist(inst, lambda p: "None" if p is None else f"(Some ({core.cq(D.frac(p[0]))}, {core.cq(D.frac(p[1]))}))")
        return f"({core.cbool(code_fixed)}, {core.copt(anchor, core.cnat)}, {kps})"
    pre = ("From SV Require Import C11.Values.\nFrom Coq Require Import List QArith.\nImport ListNotations.\n"
           "Definition rkp := ropt (rpair rQ rQ).\n")
    model = core.coq_eval_sharded(pre, [term(a, i) for a, i in cases], "run_centroid",
                                  "rpair rkp (rlist rkp)", shard=400)

    def close(m, x):
        if m is None:
            return bool(np.isnan(x).all())
        return bool(np.allclose([float(core.frac(m[0])), float(core.frac(m[1]))], x, atol=2e-5, rtol=3e-4))
    bad = []
    for (anchor, inst), (mc, mi) in zip(cases, model):
        pts = torch.from_numpy(D.kp_array([inst], np.float32))
        cen = generate_centroids(pts, anchor_ind=anchor)
        ok = close(mc, cen[0].numpy()) and len(mi) == len(inst) and \
            all(close(m, pts[0, k].numpy()) for k, m in enumerate(mi))
        if not ok:
            bad.append({"anchor": anchor, "inst": inst, "model": [mc, mi],
                        "impl": [D.to_json(cen), D.to_json(pts)]})
    run.obligation(f"correspondence: gen_centroid (Coq, fixed={code_fixed}) == generate_centroids (/repo): centroid "
                   "and the caller's keypoints after the call", not bad, json.dumps(bad[:2])[:600])
    run.coverage["centroid_model_cases"] = len(cases)


# ============================================================================
# Part 2c: dataset histories

DATASETS = ["BottomUpDataset", "CenteredInstanceDataset", "CentroidDataset", "SingleInstanceDataset"]


def make_dataset(cls_name, labels, cfg, np_chunks, chunk_dir):
    from omegaconf import OmegaConf, DictConfig
    import sleap_nn.data.custom_datasets as cd
    data_config = OmegaConf.create({
        "user_instances_only": cfg["user_instances_only"],
        "preprocessing": {"max_height": cfg["max_hw"][0], "max_width": cfg["max_hw"][1],
                          "scale": cfg["scale"], "is_rgb": cfg["is_rgb"]},
        "use_augmentations_train": False})
    head = DictConfig({"sigma": cfg["sigma"], "output_stride": cfg["output_stride"], "anchor_part": cfg["anchor"]})
    kw = dict(labels=labels, data_config=data_config, max_stride=cfg["max_stride"], scale=cfg["scale"],
              apply_aug=False, max_hw=tuple(cfg["max_hw"]), np_chunks=np_chunks,
              np_chunks_path=str(chunk_dir) if np_chunks else None)
    if not np_chunks:
        kw["np_chunks_path"] = str(chunk_dir)        # never default to "." (cwd)
    cls = getattr(cd, cls_name)
    if cls_name == "BottomUpDataset":
        return cls(confmap_head_config=head, pafs_head_config=DictConfig(
            {"sigma": cfg["paf_sigma"], "output_stride": cfg["paf_stride"]}), **kw)
    if cls_name == "CenteredInstanceDataset":
        return cls(crop_hw=tuple(cfg["crop_hw"]), confmap_head_config=head, **kw)
    return cls(confmap_head_config=head, **kw)


def target_fails(cms, chan_pts, stride, sigma, cls_name, grid=None):
    """The DERIVED targets of a sample carry every labelled keypoint of the sample and nothing else (round 5).
    cms: (channels, h, w) confidence maps; chan_pts[c]: [(description, [x, y])] = the labelled keypoints that
    belong to channel c (positions in the sample's own coordinates, i.e. labels * scale [- crop offset]).
    make_grid_vectors samples the image at 0, stride, 2*stride, ...; the map of ONE keypoint p is
    exp(-|g - p|^2 / (2 (sigma*stride)^2)), so at the grid point nearest to p (within one output-stride cell;
    clamped to the grid) it is at least that value, >= exp(-1/(4 sigma^2)) for a keypoint inside the grid:
      (a) no NaN/inf;  (b) each labelled keypoint: channel value at its nearest grid point >= its own Gaussian
      there - 1e-4 (a present label keeps its peak whatever the OTHER animals of the frame look like);
      (c) nothing else: the channel never exceeds the maximum of the Gaussians of its labelled keypoints + 1e-4
      (in particular a channel without labelled keypoint is all zero)."""
    import numpy as np
    fails = []
    if not np.isfinite(cms).all():
        return [{"clause": "derived confidence maps hold no NaN/inf", "detail": f"{cls_name}: non-finite values in "
                 f"channels {sorted(set(np.argwhere(~np.isfinite(cms))[:, 0].tolist()))}", "f5": False}]
    if cms.ndim != 3 or cms.shape[0] != len(chan_pts):
        return [{"clause": "shape", "detail": f"{cls_name}: confidence_maps {cms.shape} vs {len(chan_pts)} channels",
                 "f5": False}]
    _, h, w = cms.shape
    if grid is None:
        xv = np.arange(w, dtype=np.float64) * stride
        yv = np.arange(h, dtype=np.float64) * stride
        se2 = 2.0 * (sigma * stride) ** 2
    else:                      # make_confmaps / make_multi_confmaps: explicit grid vectors and sigma
        xv, yv, se2 = np.asarray(grid[0], dtype=np.float64), np.asarray(grid[1], dtype=np.float64), 2.0 * grid[2] ** 2
        if (h, w) != (len(yv), len(xv)):
            return [{"clause": "shape", "detail": f"{cls_name}: maps {cms.shape} vs grid {(len(yv), len(xv))}", "f5": False}]
    for c, pts in enumerate(chan_pts):
        want = np.zeros((h, w))
        for desc, p in pts:
            g = np.exp(-((xv[None, :] - float(p[0])) ** 2 + (yv[:, None] - float(p[1])) ** 2) / se2)
            want = np.maximum(want, g)
            r = int(np.argmin(np.abs(yv - float(p[1]))))
            q = int(np.argmin(np.abs(xv - float(p[0]))))
            if not cms[c, r, q] >= g[r, q] - 1e-4:
                fails.append({"clause": "a labelled keypoint of the sample has its peak in its confidence-map channel",
                              "detail": f"{cls_name} channel {c}, {desc} at {[float(p[0]), float(p[1])]}: value "
                                        f"{float(cms[c, r, q]):.4f} at grid cell ({r},{q}), own Gaussian there "
                                        f"{float(g[r, q]):.4f}; channel max {float(cms[c].max()):.4f}; "
                                        f"{len(pts)} labelled keypoint(s) in this channel", "f5": False})
        if (cms[c] > want + 1e-4).any():
            fails.append({"clause": "a confidence-map channel carries nothing but the labelled keypoints of the sample",
                          "detail": f"{cls_name} channel {c}: exceeds the Gaussians of its {len(pts)} labelled "
                                    f"keypoint(s) by {float((cms[c] - want).max()):.4f}", "f5": False})
    return fails


def check_sample(cls_name, ls, cfg, index, sample, lf_idx, inst_idx):
    """The per-sample clauses of the property.  Returns a list of failures
    {clause, detail, f5} (f5 = the failure is an invented anchor keypoint / peak of an
    instance whose anchor node is unlabelled)."""
    import numpy as np
    fails = []
    uo = cfg["user_instances_only"]
    anchor = cfg["anchor"]
    eff = 1.0
    if cfg["max_hw"][0] is not None:
        eff = min(cfg["max_hw"][0] / ls["H"], cfg["max_hw"][1] / ls["W"])
    s = eff * cfg["scale"]

    def kp_fail(clause, lab, got, inst_desc, node):
        f5 = (cls_name in ("CenteredInstanceDataset", "CentroidDataset") and anchor is not None and node == anchor
              and lab["pts"][anchor] is None and not D.is_empty(lab))
        fails.append({"clause": clause, "detail": f"{inst_desc} node {node}: label {lab['pts'][node]} sample {got}",
                      "f5": f5})

    if cls_name == "CenteredInstanceDataset":
        fi, ii = inst_idx[index]
        lab = D.considered(ls["frames"][fi], uo)[ii]
        inst = sample["instance"].numpy()
        if inst.shape != (1, ls["n_nodes"], 2):
            fails.append({"clause": "shape", "detail": f"instance shape {inst.shape}", "f5": False})
            return fails
        cms = sample["confidence_maps"].numpy()
        ref = None
        for k, p in enumerate(lab["pts"]):
            got = inst[0, k]
            if p is None:
                if not np.isnan(got).all():
                    kp_fail("missing keypoint is NaN in the sample", lab, got.tolist(), f"frame {fi} inst {ii}", k)
                if cms[0, k].any():
                    kp_fail("missing keypoint has an all-zero confidence-map channel", lab,
                            float(cms[0, k].max()), f"frame {fi} inst {ii}", k)
            else:
                if np.isnan(got).any():
                    fails.append({"clause": "labelled keypoint kept", "detail": f"node {k} became NaN", "f5": False})
                elif ref is None:
                    ref = (np.array(p) * s, got)
                elif not np.allclose(got - ref[1], np.array(p) * s - ref[0], atol=1e-3):
                    fails.append({"clause": "keypoints = labels * scale (up to the crop offset)",
                                  "detail": f"node {k}: {got.tolist()}", "f5": False})
        if not fails:
            fails += target_fails(cms[0], [[(f"frame {fi} inst {ii} node {k}", inst[0, k])] if p is not None else []
                                           for k, p in enumerate(lab["pts"])],
                                  cfg["output_stride"], cfg["sigma"], cls_name)
        return fails

    fi = lf_idx[index]
    cons = [i for i in D.considered(ls["frames"][fi], uo) if not D.is_empty(i)]
    if int(sample["num_instances"]) != len(cons):
        fails.append({"clause": "num_instances = number of non-empty instances of the frame",
                      "detail": f"{int(sample['num_instances'])} vs {len(cons)}", "f5": False})
        return fails
    insts = sample["instances"].numpy()
    if insts.shape[0] != 1 or insts.shape[2:] != (ls["n_nodes"], 2) or insts.shape[1] < len(cons):
        fails.append({"clause": "shape", "detail": f"instances shape {insts.shape}", "f5": False})
        return fails
    for j in range(insts.shape[1]):
        if j >= len(cons):
            if not np.isnan(insts[0, j]).all():
                fails.append({"clause": "padding rows are NaN", "detail": f"row {j}", "f5": False})
            continue
        for k, p in enumerate(cons[j]["pts"]):
            got = insts[0, j, k]
            if p is None:
                if not np.isnan(got).all():
                    kp_fail("missing keypoint is NaN in the sample", cons[j], got.tolist(), f"frame {fi} row {j}", k)
            elif not np.allclose(got, np.array(p) * s, atol=1e-3, rtol=1e-4):
                fails.append({"clause": "keypoints = labels * scale", "detail":
                              f"frame {fi} row {j} node {k}: {got.tolist()} vs {(np.array(p) * s).tolist()}", "f5": False})
    n_nodes = ls["n_nodes"]
    rows_ok = not fails
    if cls_name == "BottomUpDataset":
        cms = sample["confidence_maps"].numpy()
        if rows_ok:
            fails += target_fails(cms[0], [[(f"frame {fi} row {j} node {k}", insts[0, j, k]) for j, c in enumerate(cons)
                                            if c["pts"][k] is not None] for k in range(n_nodes)],
                                  cfg["output_stride"], cfg["sigma"], cls_name)
        for k in range(n_nodes):
            if all(c["pts"][k] is None for c in cons) and cms[0, k].any():
                fails.append({"clause": "node missing in every instance has an all-zero confidence-map channel",
                              "detail": f"node {k} max {float(cms[0, k].max())}", "f5": False})
        pafs = sample["part_affinity_fields"].numpy()
        if not np.isfinite(pafs).all():
            fails.append({"clause": "PAFs finite", "detail": "NaN/inf in part_affinity_fields", "f5": False})
        for e, (u, v) in enumerate(ls["edges"]):
            if all(c["pts"][u] is None or c["pts"][v] is None for c in cons) and pafs[2 * e:2 * e + 2].any():
                fails.append({"clause": "edge with a missing end in every instance contributes no PAF",
                              "detail": f"edge {e}", "f5": False})
    elif cls_name == "SingleInstanceDataset":
        cms = sample["confidence_maps"].numpy()
        if rows_ok:
            fails += target_fails(cms[0], [[(f"frame {fi} row {j} node {k}", insts[0, j, k])]
                                           if j < len(cons) and cons[j]["pts"][k] is not None else []
                                           for j in range(insts.shape[1]) for k in range(n_nodes)],
                                  cfg["output_stride"], cfg["sigma"], cls_name)
        for j in range(insts.shape[1]):
            for k in range(n_nodes):
                miss = j >= len(cons) or cons[j]["pts"][k] is None
                if miss and cms[0, j * n_nodes + k].any():
                    fails.append({"clause": "missing keypoint has an all-zero confidence-map channel",
                                  "detail": f"row {j} node {k}", "f5": False})
    elif cls_name == "CentroidDataset":
        cen = sample["centroids"].numpy()
        for j in range(cen.shape[1]):
            if j >= len(cons):
                if not np.isnan(cen[0, j]).all():
                    fails.append({"clause": "padding centroids are NaN", "detail": f"row {j}", "f5": False})
            else:
                pts = [np.array(p) * s for p in cons[j]["pts"] if p is not None]
                a = cons[j]["pts"][anchor] if anchor is not None else None
                want = np.array(a) * s if a is not None else (np.max(pts, 0) + np.min(pts, 0)) * 0.5
                if not np.allclose(cen[0, j], want, atol=1e-3, rtol=1e-4):
                    fails.append({"clause": "centroid = anchor or bbox midpoint of the labelled keypoints",
                                  "detail": f"row {j}: {cen[0, j].tolist()} vs {want.tolist()}", "f5": False})
        if not fails:
            # every non-empty instance of the frame has its centroid peak in the single centroid channel
            fails += target_fails(sample["centroids_confidence_maps"].numpy()[0],
                                  [[(f"frame {fi} centroid of row {j}", cen[0, j]) for j in range(len(cons))]],
                                  cfg["output_stride"], cfg["sigma"], cls_name)
    return fails


def run_dataset_case(case, real_sio=None, tmp_root=None):
    """One dataset history.  Returns (failures, info)."""
    ls, cfg, cls_name, np_chunks, hist = case["labels"], case["cfg"], case["cls"], case["np_chunks"], case["hist"]
    fails = []
    chunk = Path(core.scratch_dir("sv_c11chunks_"))
    info = {}
    try:
        labels = D.build_labels(ls, real_sio)
        snap = D.Snapshot(labels) if real_sio is None else None
        real_before = None
        if real_sio is not None:
            real_before = [[i.numpy().copy() for i in lf.instances] for lf in labels]
            real_objs = [list(lf.instances) for lf in labels]
        ds = make_dataset(cls_name, labels, cfg, np_chunks, chunk / "a")
        lf_idx, inst_idx = D.expected_indices(ls, cfg["user_instances_only"])
        want_len = len(inst_idx) if cls_name == "CenteredInstanceDataset" else len(lf_idx)
        info["len"] = want_len
        info["lf_idx_list"] = list(ds.lf_idx_list)
        info["instance_idx_list"] = [list(t) for t in getattr(ds, "instance_idx_list", [])] \
            if cls_name == "CenteredInstanceDataset" else None
        if len(ds) != want_len:
            fails.append({"clause": "len(dataset) = number of non-empty instances / frames with one",
                          "detail": f"{len(ds)} vs {want_len}", "f5": False})
            return fails, info
        if list(ds.lf_idx_list) != lf_idx or (cls_name == "CenteredInstanceDataset" and
                                               [tuple(t) for t in ds.instance_idx_list] != inst_idx):
            fails.append({"clause": "only non-empty instances produce samples (index lists)",
                          "detail": f"{ds.lf_idx_list} / {getattr(ds, 'instance_idx_list', None)}", "f5": False})
            return fails, info
        first = {}
        for step, raw in enumerate(hist):
            if want_len == 0:
                break
            i = raw % want_len
            sample = ds[i]
            if i not in first:
                first[i] = (step, sample)
                fails += [dict(f, index=i) for f in check_sample(cls_name, ls, cfg, i, sample, lf_idx, inst_idx)]
            elif not D.same_value(first[i][1], sample):
                fails.append({"clause": "same index gives the same sample (bit for bit) whatever was read before",
                              "detail": f"index {i}: read at step {first[i][0]} and at step {step} differ in "
                                        f"{D.first_difference(first[i][1], sample)}", "f5": False, "index": i})
        # every index once more (re-read check) + what the Coq dataset model predicts (Dataset.run_ds)
        info["max_instances"] = int(ds.max_instances)
        info["all"] = []
        import torch as _t
        for i in range(want_len):
            smp = ds[i]
            if i in first and not D.same_value(first[i][1], smp):
                fails.append({"clause": "same index gives the same sample (bit for bit) whatever was read before",
                              "detail": f"index {i}: final sweep differs from the read at step {first[i][0]} in "
                                        f"{D.first_difference(first[i][1], smp)}", "f5": False, "index": i})
            if real_sio is None:
                fi_ = inst_idx[i][0] if cls_name == "CenteredInstanceDataset" else lf_idx[i]
                fr = ls["frames"][fi_]
                got = (int(smp["video_idx"]), int(smp["frame_idx"]))
                if got != (fr.get("video", 0), fr.get("frame_idx", fi_)):
                    fails.append({"clause": "sample carries the video / frame index of its labelled frame",
                                  "detail": f"index {i}: {got} vs {(fr.get('video', 0), fr.get('frame_idx', fi_))}",
                                  "f5": False, "index": i})
            if cls_name == "CenteredInstanceDataset":
                info["all"].append({"rel": D.to_json(smp["instance"][0] - smp["centroid"][0]),
                                    "cen_nan": bool(_t.isnan(smp["centroid"]).any())})
            else:
                info["all"].append({"rows": D.to_json(smp["instances"][0]), "n": int(smp["num_instances"])})
            # which channels of the derived confidence maps carry anything (vs Dataset.run_presence)
            if cls_name == "CenteredInstanceDataset":
                # a labelled keypoint far outside the crop: its float32 Gaussian underflows to exactly 0 on the whole
                # crop grid (exp(-x), x >~ 87..104) - such channels are left out of the live-flag comparison
                import numpy as _n
                _cm = smp["confidence_maps"][0]
                _st, _se2 = cfg["output_stride"], 2.0 * (cfg["sigma"] * cfg["output_stride"]) ** 2
                _gx, _gy = _n.arange(_cm.shape[2]) * _st, _n.arange(_cm.shape[1]) * _st
                info["all"][-1]["far"] = [
                    bool(_n.isfinite(q).all() and (_n.min((_gx - q[0]) ** 2) + _n.min((_gy - q[1]) ** 2)) / _se2 > 80.0)
                    for q in smp["instance"][0].numpy().astype(_n.float64)]
            info["all"][-1]["live"] = [bool(v) for v in (smp["centroids_confidence_maps" if cls_name == "CentroidDataset" else "confidence_maps"][0].flatten(1) != 0).any(1).tolist()]
        # a second dataset object over THE SAME label objects (round 4), read in another order
        uo = cfg["user_instances_only"]
        mixed = [fi for fi, fr in enumerate(ls["frames"]) if uo and D.frame_mixed(fr)]
        max_before = max(len(fr["insts"]) for fr in ls["frames"])
        max_after = max(len(x) for x in D.rebound_frames(ls, uo))
        info["labels_after"] = [[isinstance(i, D.DInst) and not i.predicted for i in lf.instances] for lf in labels] \
            if real_sio is None else None
        if want_len and case.get("second", True):
            ds2 = make_dataset(cls_name, labels, cfg, np_chunks, chunk / "b")
            # the known consequence of F110: max_instances is recomputed over the filtered labels, the
            # frame-level samples get fewer padding rows
            expect_diff = bool(mixed) and max_after != max_before and cls_name != "CenteredInstanceDataset"
            info["second"] = {"lf_idx_list": list(ds2.lf_idx_list), "max_instances": int(ds2.max_instances),
                              "instance_idx_list": [list(t) for t in getattr(ds2, "instance_idx_list", [])]
                              if cls_name == "CenteredInstanceDataset" else None, "all": []}
            for i in range(want_len - 1, -1, -1):
                smp2 = ds2[i]
                if i in first and not D.same_value(first[i][1], smp2):
                    fails.append({"clause": "sample is a function of (labels, index): a second dataset over the "
                                            "same labels, read in another order, returns the same sample",
                                  "detail": f"index {i}: differs in {D.first_difference(first[i][1], smp2)}; "
                                            f"max_instances {int(ds.max_instances)} -> {int(ds2.max_instances)}",
                                  "f5": False, "f110": expect_diff, "index": i})
                if cls_name == "CenteredInstanceDataset":
                    info["second"]["all"].insert(0, {"rel": D.to_json(smp2["instance"][0] - smp2["centroid"][0]),
                                                     "cen_nan": bool(_t.isnan(smp2["centroid"]).any())})
                else:
                    info["second"]["all"].insert(0, {"rows": D.to_json(smp2["instances"][0]),
                                                     "n": int(smp2["num_instances"])})
            if mixed:
                # ... and, where the labels were altered, one over freshly built labels (the old clause)
                ds3 = make_dataset(cls_name, D.build_labels(ls, real_sio), cfg, np_chunks, chunk / "c")
                for i in sorted(first, reverse=True):
                    if not D.same_value(first[i][1], ds3[i]):
                        fails.append({"clause": "sample is a function of (labels, index): a dataset over equal, "
                                                "freshly built labels returns the same sample",
                                      "detail": f"index {i}", "f5": False, "index": i})
        # labels unchanged after building and reading: keypoint arrays, images AND the instance list of every frame
        if snap is not None:
            ch = snap.changed()
            if ch:
                # known (F110): only instance lists changed, only of frames holding user AND predicted instances
                # under user_instances_only, and each lost exactly its predicted instances
                known = all(p.endswith(".instances") and isinstance(b, list) and
                            a == [d for d in b if str(d).startswith("user")] and
                            any(p == f".lf{fi}.instances" for fi in mixed) for p, b, a in ch)
                fails.append({"clause": "labels (keypoint arrays, images, instance lists) unchanged after building / reading",
                              "detail": "; ".join(f"{p}: {b} -> {a}" if isinstance(b, list) else p for p, b, a in ch[:3]),
                              "f5": False, "f110": known})
        else:
            import numpy as np
            for fi, objs in enumerate(real_objs):
                for ii, o in enumerate(objs):
                    if not np.array_equal(o.numpy(), real_before[fi][ii], equal_nan=True):
                        fails.append({"clause": "labels unchanged after building / reading",
                                      "detail": f"frame {fi} instance {ii}", "f5": False})
                now = list(labels[fi].instances)
                if [id(o) for o in now] != [id(o) for o in objs]:
                    users = [o for o in objs if type(o).__name__ != "PredictedInstance"]
                    fails.append({"clause": "labels (instance lists) unchanged after building / reading",
                                  "detail": f"frame {fi}: {len(objs)} -> {len(now)} instances (real sleap-io objects)",
                                  "f5": False, "f110": fi in mixed and [id(o) for o in now] == [id(o) for o in users]})
        info["reads"] = len(hist) if want_len else 0
    finally:
        shutil.rmtree(chunk, ignore_errors=True)
    return fails, info


def code_is_fixed() -> bool:
    """which behaviour does generate_centroids have?  (replayed witness of F5)"""
    import numpy as np
    import torch
    from sleap_nn.data.instance_centroids import generate_centroids
    w = torch.tensor([[[np.nan, np.nan], [4.0, 6.0]]])
    generate_centroids(w, anchor_ind=0)
    return bool(torch.isnan(w[0, 0]).all())


F110_WITNESS = {"n_nodes": 2, "H": 16, "W": 16, "C": 1, "edges": [[0, 1]], "img_seed": 1, "anchor": None, "n_videos": 1,
                "frames": [{"insts": [{"pts": [[5.0, 5.0], [6.0, 6.0]], "pred": True},
                                      {"pts": [[1.0, 2.0], [3.0, 4.0]], "pred": False}], "video": 0, "frame_idx": 0}]}


def labels_fixed() -> bool:
    """which behaviour does the user-instance filter have?  (replayed witness of F110: process_lf with
    user_instances_only on a frame [predicted, user]: does the caller's frame still hold both?)"""
    from sleap_nn.data.providers import process_lf
    labels = D.build_labels(F110_WITNESS)
    process_lf(labels[0], 0, 2, True)
    return len(labels[0].instances) == 2


def single_fixed() -> bool:
    """which behaviour does SingleInstanceDataset have?  (C18 F181: does it pad `instances` to
    get_max_instances(labels) or use max_instances = 1 like single_instance_data_chunks?  Replayed
    witness: a dataset over one frame holding two user instances; read ds.max_instances)"""
    ls = dict(F110_WITNESS, frames=[{"insts": [{"pts": [[5.0, 5.0], [6.0, 6.0]], "pred": False},
                                               {"pts": [[1.0, 2.0], [3.0, 4.0]], "pred": False}],
                                     "video": 0, "frame_idx": 0}])
    cfg = {"user_instances_only": True, "is_rgb": False, "scale": 1.0, "max_stride": 2, "max_hw": [None, None],
           "sigma": 1.5, "output_stride": 2, "paf_sigma": 2.0, "paf_stride": 2, "crop_hw": [8, 8], "anchor": None}
    d = Path(core.scratch_dir("sv_c11single_"))
    try:
        ds = make_dataset("SingleInstanceDataset", D.build_labels(ls), cfg, False, d)
        return int(ds.max_instances) == 1
    finally:
        shutil.rmtree(d, ignore_errors=True)


def ds_model_part(run, idx_cases):
    """Dataset.run_ds (Coq: user-instance filter, index lists, max_instances, process_lf rows and padding,
    num_instances, scale, the centered-instance dataset's source instance and generate_centroids) against what
    the real datasets returned for EVERY index."""
    import numpy as np
    fixed = code_is_fixed()
    groups = {}
    for c, info in idx_cases:
        if "all" not in info:
            continue
        ls, cfg = c["labels"], c["cfg"]
        eff = 1.0 if cfg["max_hw"][0] is None else min(cfg["max_hw"][0] / ls["H"], cfg["max_hw"][1] / ls["W"])
        s = eff * cfg["scale"]
        key = json.dumps([ls["frames"], cfg["user_instances_only"], s, cfg["anchor"]], sort_keys=True)
        groups.setdefault(key, (ls, cfg["user_instances_only"], s, cfg["anchor"], []))[4].append((c, info))
    gl = list(groups.values())

    def kp(p):
        return "None" if p is None else f"(Some ({core.cq(D.frac(p[0]))}, {core.cq(D.frac(p[1]))}))"

    def term(ls, uo, s, anchor):
        raw = core.clist(ls["frames"], lambda fr: core.clist(
            fr["insts"], lambda i: f"({core.cbool(not i['pred'])}, {core.clist(i['pts'], kp)})"))
        return f"({core.cbool(fixed)}, {core.copt(anchor, core.cnat)}, {core.cbool(uo)}, {core.cq(D.frac(s))}, {raw})"
    pre = ("From SV Require Import C11.Values C11.Dataset.\nFrom Coq Require Import List QArith.\nImport ListNotations.\n"
           "Definition rkp := ropt (rpair rQ rQ).\n")
    RDS = ("rpair (rtriple (rlist rnat) (rlist (rpair rnat rnat)) rnat) "
           "(rpair (rlist (rpair (rlist (rlist rkp)) rnat)) (rlist (rpair rkp (rlist rkp))))")
    model = core.coq_eval_sharded(pre, [term(ls, uo, s, a) for ls, uo, s, a, _ in gl], "run_ds", RDS, shard=60) if gl else []
    # the caller's labels after the first dataset was built, and a SECOND dataset over those label objects
    fixedL = labels_fixed()
    model2 = core.coq_eval_sharded(pre, [f"({core.cbool(fixedL)}, {term(ls, uo, s, a)})" for ls, uo, s, a, _ in gl],
                                   "run_ds2", f"rpair (rlist (rlist rbool)) ({RDS})", shard=60) if gl else []
    # SingleInstanceDataset has its own max_instances (1 when C18 F181 is repaired): first and second dataset
    fixedS = single_fixed()

    def term_single(ls, uo, s):
        raw = core.clist(ls["frames"], lambda fr: core.clist(
            fr["insts"], lambda i: f"({core.cbool(not i['pred'])}, {core.clist(i['pts'], kp)})"))
        return f"({core.cbool(fixedS)}, {core.cbool(fixedL)}, {core.cbool(uo)}, {core.cq(D.frac(s))}, {raw})"
    RS = "rpair rnat (rlist (rpair (rlist (rlist rkp)) rnat))"
    msingle = core.coq_eval_sharded(pre, [term_single(ls, uo, s) for ls, uo, s, a, _ in gl], "run_single",
                                    f"rpair ({RS}) ({RS})", shard=60) if gl else []

    # round 5: which channels of the derived targets are live (Dataset.run_presence: channel_live / multi_channels /
    # single_channels of the model's sample) vs `confidence_maps[c].any()` of the real sample, for every index
    mpres = core.coq_eval_sharded(pre, [f"({core.cbool(fixedS)}, {term(ls, uo, s, a)})" for ls, uo, s, a, _ in gl],
                                  "run_presence", "rpair (rlist (rlist rbool)) (rpair (rlist (rlist rbool)) "
                                  "(rlist (rlist rbool)))", shard=60) if gl else []
    bad_live = []
    n_live = 0
    for (ls, uo, s, anchor, members), (pm, (psg, pc)) in zip(gl, mpres):
        for c, info in members:
            want = {"BottomUpDataset": pm, "SingleInstanceDataset": psg, "CenteredInstanceDataset": pc,
                    "CentroidDataset": [[any(x)] for x in pm]}[c["cls"]]
            got = [a.get("live") for a in info["all"]]
            if c["cls"] == "CenteredInstanceDataset" and len(got) == len(want):
                want = [[g if far else w for g, w, far in zip(gl_, wl, a["far"])] if len(gl_) == len(wl) == len(a["far"])
                        else wl for gl_, wl, a in zip(got, want, info["all"])]
            n_live += len(got)
            if got != want:
                k = next((i for i, (g, w) in enumerate(zip(got, want)) if g != w), None)
                bad_live.append({"cls": c["cls"], "np_chunks": c["np_chunks"], "uo": uo, "scale": s, "anchor": anchor,
                                 "frames": ls["frames"], "why": f"index {k}: live channels of confidence_maps: impl "
                                 f"{got[k] if k is not None else len(got)} model {want[k] if k is not None else len(want)}"})
    run.obligation("correspondence: Dataset.run_presence (Coq: channel_live / multi_channels / single_channels of the "
                   "model's sample = which confidence-map channels carry a labelled keypoint) == `confidence_maps[c].any()` "
                   "of the real sample, every index of every dataset class", not bad_live, json.dumps(bad_live[:2])[:900])
    run.coverage["dataset_presence"] = {"samples_compared": n_live}

    def for_cls(cls, m, ms):
        """the run_ds result as it applies to the class: SingleInstanceDataset takes max_instances and its samples
        from run_single"""
        if cls != "SingleInstanceDataset":
            return m
        (mlf, mil, _), (_, mcs) = m
        return (mlf, mil, ms[0]), (ms[1], mcs)

    def kp_close(m, x, shift=None):
        """model keypoint (None / [qx, qy]) vs implementation [x, y] (None = NaN)"""
        if m is None:
            return x[0] is None and x[1] is None
        if x[0] is None or x[1] is None:
            return False
        mv = [float(core.frac(m[0])), float(core.frac(m[1]))]
        if shift is not None:
            mv = [mv[0] - shift[0], mv[1] - shift[1]]
        return bool(np.allclose(mv, x, atol=1e-3, rtol=1e-4))
    bad = []
    n_idx = 0
    n_second = n_changed = 0
    for (ls, uo, s, anchor, members), (mafter, m2), (_, ms2) in zip(gl, model2, msingle):
        for c, info in members:
            if info.get("labels_after") is not None and info["labels_after"] != mafter:
                bad.append({"cls": c["cls"], "uo": uo, "frames": ls["frames"], "why":
                            f"labels after building: impl user flags {info['labels_after']} model (fixedL={fixedL}) {mafter}"})
            n_changed += info.get("labels_after") is not None and \
                info["labels_after"] != [[not i["pred"] for i in fr["insts"]] for fr in ls["frames"]]
            if info.get("second") is not None:
                n_second += 1
                why = cmp_ds(c["cls"], info["second"], for_cls(c["cls"], m2, ms2), kp_close)
                if why:
                    bad.append({"cls": c["cls"], "np_chunks": c["np_chunks"], "uo": uo, "scale": s, "anchor": anchor,
                                "frames": ls["frames"], "why": ("SECOND dataset over the same labels: " + why)[:700]})
    for (ls, uo, s, anchor, members), m1, (ms1, _) in zip(gl, model, msingle):
        for c, info in members:
            (mlf, mil, mmax), (mfs, mcs) = for_cls(c["cls"], m1, ms1)
            why = None
            if info["lf_idx_list"] != mlf or info["max_instances"] != mmax:
                why = f"lf_idx_list / max_instances: impl {info['lf_idx_list']}, {info['max_instances']} model {mlf}, {mmax}"
            elif c["cls"] == "CenteredInstanceDataset":
                if info["instance_idx_list"] != mil or len(info["all"]) != len(mcs):
                    why = f"instance_idx_list: impl {info['instance_idx_list']} model {mil}"
                else:
                    for k, (got, (mc, mk)) in enumerate(zip(info["all"], mcs)):
                        n_idx += 1
                        if mc is None or got["cen_nan"]:
                            why = f"index {k}: centroid missing (model {mc}, impl NaN={got['cen_nan']})"
                            break
                        sh = [float(core.frac(mc[0])), float(core.frac(mc[1]))]
                        if len(mk) != len(got["rel"]) or not all(kp_close(m, x, sh) for m, x in zip(mk, got["rel"])):
                            why = f"index {k}: instance - centroid: impl {got['rel']} model {mk} - {mc}"
                            break
            else:
                if len(info["all"]) != len(mfs):
                    why = f"length {len(info['all'])} vs model {len(mfs)}"
                else:
                    for k, (got, (rows, n)) in enumerate(zip(info["all"], mfs)):
                        n_idx += 1
                        if got["n"] != n or len(got["rows"]) != len(rows) or not all(
                                len(r) == len(g) and all(kp_close(m, x) for m, x in zip(r, g))
                                for r, g in zip(rows, got["rows"])):
                            why = f"index {k}: impl n={got['n']} rows {got['rows']} model n={n} rows {rows}"
                            break
            if why:
                bad.append({"cls": c["cls"], "np_chunks": c["np_chunks"], "uo": uo, "scale": s, "anchor": anchor,
                            "frames": ls["frames"], "why": why[:700]})
    run.obligation("correspondence: Dataset.run_ds / run_ds2 (Coq) == the datasets: index lists, max_instances, and for "
                   "every index the `instances` rows / NaN padding / num_instances (frame-level classes) or the cropped "
                   "instance relative to its centroid (centered-instance); the instance lists the caller's labels hold "
                   f"after construction (labels_after, fixedL={fixedL}); the same for a SECOND dataset built over those "
                   f"label objects; SingleInstanceDataset through run_single (fixedS={fixedS}: max_instances = 1, no padding)", not bad, json.dumps(bad[:2])[:900])
    run.coverage["dataset_model"] = {"label_set_x_config_groups": len(gl), "indices_compared": n_idx,
                                     "fixed": fixed, "fixedL": fixedL, "fixedS": fixedS, "second_datasets_over_same_labels": n_second,
                                     "histories_that_changed_the_labels": int(n_changed)}


def cmp_ds(cls, info, m, kp_close):
    """info {lf_idx_list, instance_idx_list, max_instances, all} of a real dataset vs a run_ds result"""
    (mlf, mil, mmax), (mfs, mcs) = m
    if info["lf_idx_list"] != mlf or info["max_instances"] != mmax:
        return f"lf_idx_list / max_instances: impl {info['lf_idx_list']}, {info['max_instances']} model {mlf}, {mmax}"
    if cls == "CenteredInstanceDataset":
        if info["instance_idx_list"] != mil or len(info["all"]) != len(mcs):
            return f"instance_idx_list: impl {info['instance_idx_list']} model {mil}"
        for k, (got, (mc, mk)) in enumerate(zip(info["all"], mcs)):
            if mc is None or got["cen_nan"]:
                return f"index {k}: centroid missing (model {mc}, impl NaN={got['cen_nan']})"
            sh = [float(core.frac(mc[0])), float(core.frac(mc[1]))]
            if len(mk) != len(got["rel"]) or not all(kp_close(a, x, sh) for a, x in zip(mk, got["rel"])):
                return f"index {k}: instance - centroid: impl {got['rel']} model {mk} - {mc}"
        return None
    if len(info["all"]) != len(mfs):
        return f"length {len(info['all'])} vs model {len(mfs)}"
    for k, (got, (rows, n)) in enumerate(zip(info["all"], mfs)):
        if got["n"] != n or len(got["rows"]) != len(rows) or not all(
                len(r) == len(g) and all(kp_close(a, x) for a, x in zip(r, g)) for r, g in zip(rows, got["rows"])):
            return f"index {k}: impl n={got['n']} rows {got['rows']} model n={n} rows {rows}"
    return None


def gen_dataset_case(rng, cls_name, np_chunks, ls=None):
    ls = ls or D.gen_label_set(rng, single=False)
    cfg = D.gen_dataset_cfg(rng, ls)
    return {"labels": ls, "cfg": cfg, "cls": cls_name, "np_chunks": np_chunks,
            "hist": [rng.randrange(1 << 16) for _ in range(rng.randint(1, 12))]}


def report_dataset_failures(run, case, fails, failing_by_cls):
    if not fails:
        return
    f5 = [f for f in fails if f["f5"]]
    f110 = [f for f in fails if f.get("f110") and not f["f5"]]
    other = [f for f in fails if not f["f5"] and not f.get("f110")]
    if f110:
        failing_by_cls[case["cls"]].append(SEL_F110)
        run.violation("failing-input", {"what": "building a dataset with user_instances_only drops the predicted "
                                                "instances from the caller's labelled frames (lf.instances = "
                                                "lf.user_instances)", "case": case, "failures": f110[:4],
                                        "oracle_clause": f110[0]["clause"]}, selector=SEL_F110)
    if f5:
        failing_by_cls[case["cls"]].append(SEL_F5)
        run.violation("failing-input", {"what": "dataset sample invents a keypoint for an unlabelled anchor node",
                                        "case": case, "failures": f5[:4], "oracle_clause": f5[0]["clause"]},
                      selector=SEL_F5)
    if other:
        failing_by_cls[case["cls"]].append(None)
        run.violation("failing-input", {"what": "dataset property clause fails", "case": case,
                                        "failures": other[:4], "oracle_clause": other[0]["clause"]})


def dataset_part(run, tier):
    rng = run.rng
    n_sets = 30 if tier == "quick" else 800
    failing = {c: [] for c in DATASETS}
    cases = []
    for p in sorted(CORPUS.glob("*.json")) if CORPUS.exists() else []:
        c = json.loads(p.read_text())
        if c.get("kind") == "dataset":
            cases.append(c["case"])
    for _ in range(n_sets):
        ls = D.gen_label_set(rng)
        for cls_name in DATASETS:
            for np_chunks in (False, True):
                cases.append(gen_dataset_case(rng, cls_name, np_chunks, ls))
    t0 = time.time()
    idx_cases = []
    n_reads = 0
    for c in cases:
        fails, info = run_dataset_case(c)
        n_reads += info.get("reads", 0)
        nontrivial = any(p is None for fr in c["labels"]["frames"] for i in fr["insts"] for p in i["pts"])
        run.case({"cls": c["cls"], "np": c["np_chunks"], "labels": c["labels"], "cfg": c["cfg"], "hist": c["hist"]},
                 nontrivial=nontrivial)
        report_dataset_failures(run, c, fails, failing)
        if "lf_idx_list" in info:
            idx_cases.append((c, info))
    # real sleap-io objects on the asset video guard the duck-typed labels
    import sleap_io as sio
    asset = sio.load_slp(str(core.REPO / "tests/assets/minimal_instance.pkg.slp"))
    n_real = 2 if tier == "quick" else 24
    real_n = 0
    for k in range(n_real):
        ls = D.gen_label_set(rng)
        ls.update({"H": 384, "W": 384, "C": 1})
        for fr in ls["frames"]:
            for i in fr["insts"]:
                i["pts"] = [None if p is None else [p[0] * 8, p[1] * 8] for p in i["pts"]]
        ls["frames"] = ls["frames"][:2]
        for cls_name in (DATASETS if tier != "quick" else [DATASETS[k % 2 + 1], DATASETS[(k * 3) % 4]]):
            c = gen_dataset_case(rng, cls_name, rng.random() < 0.5, ls)
            c["cfg"].update({"max_hw": [None, None], "max_stride": 16, "crop_hw": [64, 64], "output_stride": 2,
                             "paf_stride": 4})
            c["hist"] = c["hist"][:4]
            c["second"] = False
            c["real_sio"] = True
            fails, info = run_dataset_case(c, real_sio=(sio, asset))
            real_n += 1
            run.case({"real": True, "cls": cls_name, "labels": ls, "cfg": c["cfg"]}, nontrivial=True)
            report_dataset_failures(run, c, fails, failing)
    # find_instance_crop_size scales `inst.numpy()` in place: harmless only because sleap-io's Instance.numpy()
    # returns a copy (its documented contract); checked on real sleap-io objects (oracle only, not translated)
    from sleap_nn.data.instance_cropping import find_instance_crop_size
    import numpy as _np
    for k in range(2 if tier == "quick" else 12):
        ls = D.gen_label_set(rng)
        labels = D.build_labels(ls, (sio, asset))
        objs = [list(lf.instances) for lf in labels]
        before = [[i.numpy().copy() for i in o] for o in objs]
        shared = any(_np.shares_memory(i.numpy(), i.numpy()) for o in objs for i in o)
        args = {"padding": rng.choice([0, 4]), "maximum_stride": rng.choice([2, 16]),
                "input_scaling": rng.choice([0.5, 2.0]), "min_crop_size": rng.choice([None, 5])}
        find_instance_crop_size(labels, **args)
        changed = [(fi, ii) for fi, o in enumerate(objs) for ii, i in enumerate(o)
                   if not _np.array_equal(i.numpy(), before[fi][ii], equal_nan=True)]
        run.case({"fn": "find_instance_crop_size", "labels": ls, "args": args}, nontrivial=True)
        if changed or shared:
            run.violation("failing-input", {"what": "find_instance_crop_size altered the labels (real sleap-io objects)",
                                            "labels": ls, "args": args, "changed": changed[:4],
                                            "oracle_clause": "labels unchanged"})
    # index lists: Coq model (Values.lf_idx_list / instance_idx_list) vs the datasets' own lists
    uniq = {}
    for c, info in idx_cases:
        pat = [[[p is not None for p in i["pts"]] for i in D.considered(fr, c["cfg"]["user_instances_only"])]
               for fr in c["labels"]["frames"]]
        key = json.dumps(pat)
        if c["cls"] == "CenteredInstanceDataset":
            uniq[key] = (pat, info["lf_idx_list"], info["instance_idx_list"])
        else:
            uniq.setdefault(key, (pat, info["lf_idx_list"], None))
    pats = list(uniq.values())
    terms = [core.clist(p, lambda fr: core.clist(fr, lambda i: core.clist(i, core.cbool))) for p, _, _ in pats]
    pre = "From SV Require Import C11.Values.\nFrom Coq Require Import List.\nImport ListNotations.\n"
    model = core.coq_eval_sharded(pre, terms, "run_idx", "rpair (rlist rnat) (rlist (rpair rnat rnat))", shard=400) \
        if terms else []
    bad = []
    for (pat, lfl, il), (mlf, mil) in zip(pats, model):
        if mlf != lfl or (il is not None and mil != il):
            bad.append({"pattern": pat, "model": [mlf, mil], "impl": [lfl, il]})
    run.obligation("correspondence: lf_idx_list / instance_idx_list (Coq) == the datasets' index lists", not bad,
                   json.dumps(bad[:2])[:500])
    ds_model_part(run, idx_cases)
    run.coverage["datasets"] = {"label_sets": n_sets, "dataset_histories": len(cases), "reads": n_reads,
                                "real_sleap_io_histories": real_n, "index_list_patterns": len(pats),
                                "wall_s": round(time.time() - t0, 1)}
    if cases:
        run.sample({"dataset_case": {k: cases[-1][k] for k in ("cls", "np_chunks", "cfg", "hist")}})
    return failing


# ============================================================================

F5_SITE = ("instance_centroids.py", "generate_centroids")


F110_SITES = {("providers.py", "process_lf"), ("custom_datasets.py", "_get_lf_idx_list"),
              ("custom_datasets.py", "_get_instance_idx_list")}


def finding_of_store(o: str):
    """the finding whose STATEMENT an offending store (file:line:function[:attr=name]) is, else None"""
    parts = o.split(":")
    if parts[0] == F5_SITE[0] and parts[2] == F5_SITE[1] and len(parts) == 3:
        return SEL_F5
    if len(parts) == 4 and parts[3] == "attr=instances" and (parts[0], parts[2]) in F110_SITES:
        return SEL_F110
    return None


def attributable_to_findings(v, found) -> bool:
    """every in-place write the certificate flags is the statement of a finding (F5: inside
    generate_centroids; F110: `lf.instances = lf.user_instances`; possibly inlined into the target) AND a
    failing input of exactly that finding was reproduced on the real code for this target"""
    offs = v.get("offending") or []
    return bool(offs) and all(finding_of_store(o) is not None and finding_of_store(o) in found for o in offs)


def search_targets(name):
    """Which dynamic search explains a rejected target."""
    if "." in name:
        return ("dataset", name.split(".")[0])
    return ("function", name)


def check(run: core.Run) -> int:
    run.build_and_prove(PROP_FILES)
    tr = load_translator()
    verdict, fns = static_part(run, tr)
    probe_table(run, tr)
    core.impl_env_setup()
    import torch
    torch.manual_seed(run.seed)

    failing_fn = functional_part(run, tr, verdict, run.tier)
    failing_ds = dataset_part(run, run.tier)

    # which behaviour does the code have?  (replayed witness of F5)
    code_fixed = code_is_fixed()
    run.coverage["generate_centroids_writes_through_anchor_view"] = not code_fixed
    centroid_model_part(run, code_fixed, run.tier)

    # rejected targets: the dynamic search must explain each of them
    for name, v in sorted(verdict.items()):
        if v.get("accepted"):
            continue
        kind, key = search_targets(name)
        if kind == "function":
            found = failing_fn.get(key, [])
        else:
            found = failing_ds.get(key, []) if key in failing_ds else \
                [s for c in DATASETS for s in failing_ds[c]]          # BaseDataset: any subclass
        why = v.get("why") or (f"no_param_write = false (may write parameter(s) {v.get('written')})"
                               if v.get("closed") else "certificate not closed")
        known_only = all(s is not None and run.selector_known(s) is not None for s in found)
        if found and (not known_only or attributable_to_findings(v, found)):
            # failing inputs were found on the real code and reported (KNOWN-FINDING or VIOLATION); a
            # rejection is put down to a KNOWN finding only if every offending write is that finding's statement
            run.obligation(f"{name}: analysis REJECTS ({why}; offending writes {v.get('offending')}); rejection "
                           f"explained by {len(found)} failing input(s) found on the real code "
                           f"(selectors: {sorted({str(s) for s in found})})", True)
        else:
            run.obligation(f"{name}: purity proved (analysis accepts the regenerated program)", False,
                           f"{why}; offending writes {v.get('offending')}; the dynamic search found no input on "
                           "which the property fails" + (" other than known findings that do not involve these "
                                                         "writes" if found else ""))
    run.assumptions += [
        "the AliasIR translation over-approximates the Python semantics of the translated bodies (trusted: "
        "translator + operation table; validated by the observed-within-predicted tie on every run)",
        "kornia / torchvision functional calls are fresh-result oracles of the operation table",
        "label sets: every frame has at least one instance (user or predicted); missing keypoints are (NaN, NaN): a "
        "half-NaN keypoint (NaN, y) is not representable in the model (kp = option (Q*Q)) and never generated",
        "exact Q in the model vs astype('float32') in the code: dyadic k/4 inputs, compared at atol 1e-3 (run_ds, "
        "run_chunk) / 2e-5 (run_centroid); the centered tie compares instance - centroid only (the crop offset is oracle-only)",
        "same_index_same_sample: contract 1 (the reader refines exec) is proved for the script-guided interpreter rd_of "
        "on every program; contract 2 (locality of the reader) is proved for the example reader only and stays an "
        "explicit hypothesis for the regenerated __getitem__ programs: that clause rests on history_pure + the "
        "bit-identical re-read oracle",
        "process_lf / chunk-function / generate_centroids theorems hold on lf_domain / chunk_anchor_domain (the code "
        "raises outside; checked per run)",
        "sleap-io Instance.numpy() returns a copy (find_instance_crop_size; checked on real objects every run)",
    ]
    run.trusted += ["translator/c11_alias2coq.py (ast -> AliasIR, operation table); torch / numpy view semantics "
                    "as classified by the table, cross-checked by storage data_ptr observations"]
    run.coverage["rule"] = ("case = (helper, argument spec) or (dataset class, storage mode, label set, config, "
                            "history); non-trivial = has a missing keypoint; distinct by content hash")
    return run.finish(explanation=(
        "proof: soundness of the alias-certificate checker over the heap semantics (C11/Props.v), instantiated per "
        "run on the AliasIR programs regenerated from the source (accepted_<f>/pure_<f>, or refuted_<f> for a rejected "
        "target); histories over the heap (history_pure per run: any sequence of calls of the ACCEPTED programs leaves cache, cached "
        "samples and labels unchanged, earlier samples are never altered; same_index_same_sample; the targets that "
        "rebind lf.instances are rejected and refuted: finding F110, labels_unchanged_refuted / _partial over "
        "Dataset.rebind, second_dataset_*); dataset selection "
        "model (user filter, index lists, process_lf rows/padding, centered source instance) with lengths; value-level theorems for generate_centroids / missing stays "
        "missing / dataset length with the F5 refuted-partial-fixed triple.  tie: translator + operation table "
        "validated by observed-within-predicted argument writes and storage sharing; model/code correspondence of "
        "gen_centroid and the index lists; dataset histories (bit-for-bit re-reads, labels unchanged, missing stays "
        "missing, lengths) are the executable oracle.  partial: the translation ast->AliasIR and the operation table "
        "are trusted (tested, not proved); history independence is tied to the code by acceptance of __getitem__ "
        "and the re-read test, not by a refinement proof."))


def replay(run: core.Run, path: str) -> int:
    core.impl_env_setup()
    tr = load_translator()
    rep = json.load(open(path))
    case = rep.get("case")
    if case is None:
        print(json.dumps({"broken": rep.get("broken")}, indent=1))
        return 1
    if "fn" in case:
        obs = run_fn_case(tr, case)
        fails = []
        if case["fn"] in D.CHUNK_FNS:
            fails = [{"clause": "total", "detail": obs["raised"]}] if obs["raised"] else D.check_chunk(case, obs["result"])
        print(json.dumps({"fn": case["fn"], "written": obs["written"], "changes": obs["changes"][:4],
                          "failures": fails[:6]}, default=str))
        return 1 if (obs["written"] or fails) else 0
    real = None
    if case.get("real_sio"):
        import sleap_io as sio
        real = (sio, sio.load_slp(str(core.REPO / "tests/assets/minimal_instance.pkg.slp")))
    fails, info = run_dataset_case(case, real_sio=real)
    print(json.dumps({"cls": case["cls"], "failures": fails[:6]}, default=str))
    return 1 if fails else 0
