"""C13 — frame readers deliver each frame once, in order, and always end the stream.

Model + theorems: coq/theories/C13/{Stream,Lemmas,Poll,PollLemmas,Props}.v (a transition system of the
reader thread, the bounded queue and the consumer loop; queue items carry (orig_size, video_idx) of the
frame they were built from; invariant, own-payload theorem, deadlock freedom, termination on every
schedule, exact trace checker `accepts`; request model of the constructors incl. ranges that run past
the end of the video = derived read failure).

Tie to /repo, every run:
  static   translator/c13_skel2coq.py re-extracts the control skeleton of VideoReader.run,
           LabelsReader.run and Predictor._predict_generator from core.REPO into
           Gen/C13_Skel.v; Gen/C13_SkelCheck.v (`skeletons_match generated`) is recompiled.
  dynamic  the REAL run() threads and the REAL _predict_generator are executed under a
           scheduling controller (harness/c13_sched.py) for every schedule of small
           configurations (exhaustive) and sampled schedules of larger ones, with a read
           fault injected at every position; each recorded trace (put / get events with the payload
           observed) must be accepted by the Coq trace checker (vm_compute); the plain VideoReader on a
           real sio.Video with ranges past the end agrees with the fake video and the request model, and
  oracle   the property itself is evaluated in Python on what the real code did (frames
           yielded = the specified ones, in order, own index and size, right batches, one
           marker, reader thread dead, no deadlock / hang / escaped exception).
"""
from __future__ import annotations

import heapq
import importlib.util
import json
import time

from .. import core
from .. import c13_sched as S

PROP_FILES = [core.THEORIES / "C13" / "Props.v"]
PREAMBLE = ("From SV Require Import C13.Stream C13.Poll.\nFrom Coq Require Import List.\nImport ListNotations.\n")
F130 = "labels_instances_key_bare_frame"      # selector of finding F130
F130_WITNESS = core.VERIF / "corpus" / "C13" / "F130_bare_frame.json"
STATE = {"f130_fixed": False}                  # which LabelsReader the code has (detected by replaying the witness)
GEN = core.THEORIES / "Gen"


def _translator():
    spec = importlib.util.spec_from_file_location("c13_skel2coq", core.VERIF / "translator" / "c13_skel2coq.py")
    mod = importlib.util.module_from_spec(spec)
    spec.loader.exec_module(mod)
    return mod


# ----------------------------------------------------------------------------
# the specification, in Python (independent of the Coq model)

def resolved_range(case):
    """(start, end) requested, from the constructor arguments when the case gives them
    (None = default: 0 resp. the length of the video; 0 is 0)."""
    if case.get("args") is not None:
        a_start, a_end, n_total = case["args"]
        return (0 if a_start is None else a_start), (n_total if a_end is None else a_end)
    return case["start"], case["end"]


def video_len(case):
    """Number of frames of the (fake) video of a video case: what FakeVideo is built with in run_schedule."""
    if case.get("args") is not None:
        return case["args"][2]
    if case.get("defaults"):
        return case["end"]
    return max(case["start"], case["end"]) + 2


def spec_frames(start, end, fault, n_exist=None):
    """The frames that must be delivered: those of the requested range that exist (a range may run past the
    end of the video: reading the first index that does not exist fails, the frames before it are delivered
    and the stream is closed), up to the first one that cannot be read."""
    stop = end if n_exist is None else min(end, n_exist)
    if fault is not None and fault >= start:
        stop = min(fault, stop)
    return list(range(start, stop)) if stop > start else []


def spec_of(case):
    start, end = resolved_range(case)
    return spec_frames(start, end, case["fault"], video_len(case) if case["reader"] == "video" else None)


def label_of(reader, i):
    return i if reader == "video" else S.frame_label(i)


def bare_selected(case):
    """Selector of F130: LabelsReader with instances_key and a labelled frame without a non-empty
    instance among the frames that must be delivered."""
    return bool(case.get("instances_key")) and any(b in spec_of(case) for b in case.get("bare", ()))


def model_fault(case):
    """The fault position of the model configuration (Poll.labels_cfg): a bare frame acts as a fault of
    the unrepaired LabelsReader when instances are requested.  Statistics only."""
    f = case["fault"]
    if case["reader"] == "video":          # Poll.video_fault: injected fault from the start on, or the end of the video
        start, end = resolved_range(case)
        n = video_len(case)
        f = f if (f is not None and f >= start) else None
        if n < end:
            f = max(start, n) if f is None else min(f, max(start, n))
        return f
    if case.get("instances_key") and case.get("bare") and not STATE["f130_fixed"]:
        b = min(case["bare"])
        return b if f is None else min(f, b)
    return f


def oracle(case, res):
    """The property evaluated on one execution of the real code.  Returns None or a reason."""
    reader, cap, batch = (case[k] for k in ("reader", "cap", "batch"))
    nv = case.get("n_videos", 1)
    want = spec_of(case)
    start, end = resolved_range(case)
    if reader == "video":
        if res["total_len"] != end - start:
            return f"total_len() = {res['total_len']}, requested range [{start}, {end})"
        if res["max_hw"] != [4, 6]:
            return f"max_height_and_width = {res['max_hw']}, the video is 4 x 6"
    else:
        if res["total_len"] != end:
            return f"total_len() = {res['total_len']}, the labels hold {end} frames"
        hw = [max(S.vid_shape(v)[1] for v in range(nv)), max(S.vid_shape(v)[2] for v in range(nv))]
        if res["max_hw"] != hw:
            return f"max_height_and_width = {res['max_hw']}, the largest video sides are {hw}"
    if res["status"] == "hang":
        return f"hang: a thread did not reach its next queue/read point within {S.WATCHDOG_S}s (stuck: {res['stuck']})"
    if res["status"] == "livelock":
        return (f"livelock: more than {S.MAX_STEPS} scheduling steps without the run ending (the proved bound is "
                f"8(end-start)+17 under the scheduler's fairness rule); threads still live: {res['stuck']}")
    if "C" in res["errors"]:
        return f"exception escaped the consumer loop: {res['errors']['C']}"
    # (an exception escaping the READER thread is not by itself against the property, as long as
    #  the frames before it are delivered and the stream is closed: checked below)
    if res["status"] == "deadlock":
        return f"deadlock: live thread(s) blocked for ever: {res['stuck']} (inference hangs)"
    gets = [e[1] for e in res["trace"] if e[0] == "get"]
    puts = [e[1] for e in res["trace"] if e[0] == "put"]

    def vid(i):
        return 0 if reader == "video" else S.vid_of(i, nv)
    for name, seq in (("put on", puts), ("taken from", gets)):
        if any("other" in g for g in seq):
            return f"unrecognised item {name} the queue"
        n_mark = sum(1 for g in seq if g.get("sentinel"))
        if n_mark != 1:
            return f"{n_mark} end-of-stream markers {name} the queue (exactly one expected)"
        if not seq[-1].get("sentinel"):
            return f"the marker is not the last item {name} the queue"
        frames = seq[:-1]
        if [g["frame_idx"] for g in frames] != [label_of(reader, i) for i in want]:
            return (f"frames {name} the queue {[g['frame_idx'] for g in frames]} != specified "
                    f"{[label_of(reader, i) for i in want]} (loss / duplication / reordering)")
        for g, i in zip(frames, want):
            if g["size"] != list(S.frame_size(i)) or g["video_idx"] != vid(i):
                return f"frame {i} carries size {g['size']} / video {g['video_idx']}, not its own"
    ys = res["yielded"]
    flat = [x for y in ys for x in y["frame_idx"]]
    if flat != [label_of(reader, i) for i in want]:
        return f"yielded frame_idx {flat} != specified {[label_of(reader, i) for i in want]}"
    sizes = [s for y in ys for s in y["size"]]
    if sizes != [list(S.frame_size(i)) for i in want]:
        return "yielded orig_size does not belong to the yielded frame"
    vids = [v for y in ys for v in y["video_idx"]]
    if vids != [vid(i) for i in want]:
        return f"yielded video_idx {vids} != {[vid(i) for i in want]}"
    if case.get("instances_key"):
        inst = [x for y in ys for x in y.get("inst0", [])]
        bare = set(case.get("bare", ()))
        exp = [None if i in bare else float(i) for i in want]       # a bare frame carries NaN rows only
        if len(inst) != len(exp) or any((a is None) != (e is None) or (e is not None and abs(a - e) > 1e-4)
                                        for a, e in zip(inst, exp)):
            return f"ground-truth instances {inst} do not belong to the yielded frames {want}"
        multi = bool(case.get("multi_inst"))
        n_here = [0 if i in bare else (2 if multi and i % 3 == 2 else 1) for i in want]
        # max_instances = the largest len(lf.instances) of the labels (empty instances are listed, see FakeLabels)
        rows_all = max([(0 if i % 2 == 0 else 1) if i in bare else (2 if multi and i % 3 == 2 else 1)
                        for i in range(end)] + [0])
        real = [x for y in ys for x in y.get("inst_real", [])]
        rows = [x for y in ys for x in y.get("inst_rows", [])]
        if real != n_here or any(x != rows_all for x in rows):
            return (f"instance tensors hold {real} animals in {rows} rows; the frames hold {n_here} and every tensor "
                    f"must have max_instances = {rows_all} rows (NaN padded)")
    for k, y in enumerate(ys):
        n = len(y["frame_idx"])
        if y["n_img"] != n or n < 1 or n > batch or (k < len(ys) - 1 and n != batch):
            return f"batch {k} has {n} frames (batch size {batch}, only the last may be partial, none empty)"
    joins = [e for e in res["trace"] if e[0] == "join"]
    if len(joins) > 1 or any(j[1] is not True for j in joins):
        return "join() did not return with the reader thread dead"
    if res["leaked_threads"]:
        return "a thread is still alive after the stream ended"
    if res["queue_left"]:
        return "items left in the queue after the stream ended"
    return None


# ----------------------------------------------------------------------------
# trace -> Coq term

class Untranslatable(Exception):
    pass


def _pos(reader, label):
    if reader == "video":
        return label
    if (label - 3) % 7 or label < 3:
        raise Untranslatable(f"frame label {label}")
    return (label - 3) // 7


def has_xevents(trace):
    return any(e[0] in ("get_timeout", "alive") for e in trace)


def events_term(reader, trace, x=False):
    """Events of one execution as a Coq list.  A read that is not followed by the put of that frame
    (the loop body raised after the read) is the model's EvReadFail: 'iteration i raised before its
    put'.  x: terms of Poll.xevent (time-outs and is_alive() looks included)."""
    p_events = [k for k, e in enumerate(trace) if e[0] in ("read_ok", "read_fail", "put")]
    failed_after_read = set()
    for a, k in enumerate(p_events):
        e = trace[k]
        if e[0] == "read_ok":
            nxt = trace[p_events[a + 1]] if a + 1 < len(p_events) else None
            if nxt is None or nxt[0] != "put" or nxt[1].get("sentinel"):
                failed_after_read.add(k)
    out = []
    for k_, e in enumerate(trace):
        k = e[0]
        if k == "start":
            t = "EvStart"
        elif k == "read_ok":
            t = f"EvReadFail {e[1]}" if k_ in failed_after_read else f"EvReadOk {e[1]}"
        elif k == "read_fail":
            t = f"EvReadFail {e[1]}"
        elif k in ("put", "get"):
            d = e[1]
            if d.get("sentinel"):
                t = "EvPutSent" if k == "put" else "EvGetSent"
            elif "frame_idx" in d:
                # the payload the item carries (orig_size, video_idx) is part of the event: the model compares it
                # with the source (Stream.exec1, c13_items_carry_own_payload)
                t = (f"{'EvPut' if k == 'put' else 'EvGet'} {_pos(reader, d['frame_idx'])} "
                     f"({int(d['size'][0])}, {int(d['size'][1])}, {int(d['video_idx'])})")
            else:
                raise Untranslatable("unrecognised queue item")
        elif k == "yield":
            t = "EvYield [" + "; ".join(str(_pos(reader, x_)) for x_ in e[1]) + "]"
        elif k == "join":
            t = "EvJoin"
        elif k == "get_timeout" and x:
            out.append("XTimeout")
            continue
        elif k == "alive" and x:
            out.append(f"XAlive {'true' if e[1] else 'false'}")
            continue
        else:
            raise Untranslatable(k)
        out.append(f"XEv ({t})" if x else t)
    return "[" + "; ".join(out) + "]"


def _copt(v):
    return "None" if v is None else f"(Some {v})"


def src_table(case):
    """What the fake source holds, as a Poll.tbl term: for every position the size of its image and the index of
    its video (VideoReader: always 0).  Independent of what the reader reports."""
    if case["reader"] == "video":
        _, end = resolved_range(case)
        n = max(end, video_len(case)) + 1
        rows = [(*S.frame_size(i), 0) for i in range(n)]
    else:
        nv = case.get("n_videos", 1)
        rows = [(*S.frame_size(i), S.vid_of(i, nv)) for i in range(case["end"])]
    return "(tbl [" + "; ".join(f"({h}, {w}, {v})" for h, w, v in rows) + "])"


def request_term(case):
    """The request as a term of Poll.vrequest / Poll.lrequest (constructor arguments as given)."""
    if case["reader"] == "video":
        if case.get("args") is not None:
            a_start, a_end, n_total = case["args"]
        elif case.get("defaults"):
            a_start, a_end, n_total = None, None, case["end"]
        else:
            a_start, a_end, n_total = case["start"], case["end"], max(case["start"], case["end"]) + 2
        return (f"ReqVideo (mkVReqS {n_total} {_copt(a_start)} {_copt(a_end)} {case['cap']} {case['batch']} "
                f"{_copt(case['fault'])} {src_table(case)})")
    bare = sorted(case.get("bare", ()))
    return (f"ReqLabels (mkLReqS {case['end']} {case['cap']} {case['batch']} {_copt(case['fault'])} "
            f"{'true' if case.get('instances_key') else 'false'} {_copt(bare[0] if bare else None)} "
            f"{'true' if STATE['f130_fixed'] else 'false'} {src_table(case)})")


def cfg_term(case):
    """The model configuration of a case: through the request model of Poll.v."""
    r = request_term(case)
    return ("video_cfg (" + r[len("ReqVideo "):] + ")") if r.startswith("ReqVideo") else \
           ("labels_cfg (" + r[len("ReqLabels "):] + ")")


def group_term(case, traces, want_states):
    return (f"({'true' if want_states else 'false'}, {cfg_term(case)}, [" +
            ";\n ".join(events_term(case["reader"], t) for t in traces) + "])")


def xgroup_term(case, traces, mode):
    return (f"({mode}, {cfg_term(case)}, [" +
            ";\n ".join(events_term(case["reader"], t, x=True) for t in traces) + "])")


# ----------------------------------------------------------------------------
# a Python mirror of the transition system — used ONLY for the coverage statistics
# in the evidence file (reachable abstract states / transitions per configuration)

def lts_reachable(start, end, cap, batch, fault):
    def enter_for(k, acc):
        return ("c", k, acc) if k > 0 else ("p", acc)

    def succs(s):
        pp, q, cc, done = s
        full = cap > 0 and len(q) >= cap
        out = []
        if pp == "I" and cc == "s":
            out.append((("L", start), q, enter_for(batch, ()), done))
        if isinstance(pp, tuple) and pp[0] == "L":
            i = pp[1]
            if i < end:
                out.append(((("P", i) if fault != i else "S"), q, cc, done))
            else:
                out.append(("S", q, cc, done))
        if isinstance(pp, tuple) and pp[0] == "P" and not full:
            out.append((("L", pp[1] + 1), q + (pp[1],), cc, done))
        if pp == "S" and not full:
            out.append(("D", q + ("S",), cc, done))
        if isinstance(cc, tuple) and cc[0] == "c" and q:
            k, acc = cc[1], cc[2]
            if q[0] == "S":
                out.append((pp, q[1:], ("p", acc), True))
            else:
                out.append((pp, q[1:], enter_for(k - 1, acc + (q[0],)), done))
        if isinstance(cc, tuple) and cc[0] == "p":
            out.append((pp, q, "j" if done else enter_for(batch, ()), done))
        if cc == "j" and pp == "D":
            out.append((pp, q, "f", done))
        return out

    init = ("I", (), "s", False)
    seen, todo, trans = {init}, [init], set()
    while todo:
        s = todo.pop()
        for t in succs(s):
            trans.add((s, t))
            if t not in seen:
                seen.add(t)
                todo.append(t)
    return seen, trans


def _decode(k, i=0):
    """Stream.skey (list of numbers) -> the mirror's tuple form; returns (state, next index)."""
    tag = k[i]
    if tag in (1, 2):
        pp, i = (("L" if tag == 1 else "P"), k[i + 1]), i + 2
    else:
        pp, i = {0: "I", 3: "S", 4: "D"}[tag], i + 1
    n = k[i]
    q = tuple("S" if x == 0 else x - 1 for x in k[i + 1:i + 1 + n])
    i += 1 + n
    tag = k[i]
    if tag == 1:
        m = k[i + 2]
        cc, i = ("c", k[i + 1], tuple(k[i + 3:i + 3 + m])), i + 3 + m
    elif tag == 2:
        m = k[i + 1]
        cc, i = ("p", tuple(k[i + 2:i + 2 + m])), i + 2 + m
    else:
        cc, i = {0: "s", 3: "j", 4: "f"}[tag], i + 1
    return (pp, q, cc, bool(k[i])), i + 1


def _decode_trans(k):
    a, _ = _decode(k[1:1 + k[0]])
    b, _ = _decode(k[1 + k[0]:])
    return a, b


# ----------------------------------------------------------------------------
# case generation

def word_cost(w, default="P"):
    """Context switches of the schedule `w` followed by the default letter for ever."""
    full = default + w + default
    return sum(1 for a, b in zip(full, full[1:]) if a != b)


def explore(case, limit=None):
    """All schedules of one configuration (stateless model checking: the tree of choice words is
    discovered while executing).  Words are run in order of increasing number of context switches
    (then length): races that need one badly placed pre-emption followed by the other thread running
    to completion are met first, whatever the size of the tree.  The set of words is the same for any
    order.  Yields (choices, result)."""
    heap, n, seq = [(0, 0, 0, "")], 0, 0
    while heap:
        _, _, _, w = heapq.heappop(heap)
        r = run_case(case, w)
        n += 1
        yield w, r
        if r["status"] != "ok" or "C" in r["errors"] or oracle(case, r):
            return                      # a failing execution: siblings add nothing, and hangs are slow
        t = r["taken"]
        for j in range(len(w), len(t)):
            seq += 1
            w2 = t[:j] + ("C" if t[j] == "P" else "P")
            heapq.heappush(heap, (word_cost(w2), len(w2), seq, w2))
        if limit and n >= limit:
            return


def run_case(case, choices, default="P"):
    return S.run_schedule(case["reader"], case["start"], case["end"], case["cap"], case["batch"], case["fault"],
                          choices, default=default, fault_in_image=case.get("fault_in_image", False),
                          defaults=case.get("defaults", False), instances_key=case.get("instances_key", False),
                          yield_point=case.get("yield_point", False), ctor=case.get("ctor", "direct"),
                          args=case.get("args"), n_videos=case.get("n_videos", 1), bare=case.get("bare", ()),
                          poll=case.get("poll", "none"), infer_raises_at=case.get("infer_raises_at"),
                          multi_inst=case.get("multi_inst", False))


def exhaustive_configs(tier):
    cfgs = []
    nmax = 4 if tier == "quick" else 5
    for reader, fim in (("video", False), ("labels", False), ("labels", True)):
        for n in range(0, nmax + 1):
            for cap in ((1, 2) if tier == "quick" else (1, 2, 3)):
                for batch in (1, 2, 3):
                    faults = [None] + list(range(n))
                    if fim:
                        faults = list(range(n))       # without a fault the two labels variants coincide
                    for fault in faults:
                        cfgs.append(dict(reader=reader, start=0, end=n, cap=cap, batch=batch, fault=fault,
                                         fault_in_image=fim))
    # video: a range that does not start at 0; unbounded queue (maxsize 0); capacity 3; default start/end
    for n in range(0, 4):
        for fault in [None] + list(range(2, 2 + n)):
            cfgs.append(dict(reader="video", start=2, end=2 + n, cap=2, batch=2, fault=fault))
            cfgs.append(dict(reader="video", start=0, end=n, cap=0, batch=2,
                             fault=None if fault is None else fault - 2))
            if tier == "quick":
                cfgs.append(dict(reader="video", start=0, end=n, cap=3, batch=2,
                                 fault=None if fault is None else fault - 2))
    for n in (0, 2):
        cfgs.append(dict(reader="video", start=0, end=n, cap=1, batch=2, fault=None, defaults=True))
    # the hand-over of each yielded batch as an additional scheduling point (slow caller of the generator)
    for n in range(1, 4 if tier == "quick" else 5):
        for cap in (1, 2):
            for batch in (1, 2):
                for fault in [None] + list(range(n)):
                    cfgs.append(dict(reader="video", start=0, end=n, cap=cap, batch=batch, fault=fault,
                                     yield_point=True))
    # faults outside the range never trigger; inverted range behaves like an empty one
    cfgs.append(dict(reader="video", start=2, end=4, cap=1, batch=1, fault=1))
    cfgs.append(dict(reader="video", start=2, end=4, cap=1, batch=3, fault=4))
    cfgs.append(dict(reader="video", start=3, end=1, cap=1, batch=2, fault=None))
    if tier == "quick":
        for cap in (1, 2):
            for fault in [None] + list(range(5)):
                cfgs.append(dict(reader="video", start=0, end=5, cap=cap, batch=2, fault=fault))
    else:
        for reader, fim in (("video", False), ("labels", False), ("labels", True)):
            for cap in (1, 2):
                for batch in (2, 3):
                    for fault in ([] if fim else [None]) + list(range(6)):
                        cfgs.append(dict(reader=reader, start=0, end=6, cap=cap, batch=batch, fault=fault,
                                         fault_in_image=fim))
        for fault in (None, 3, 5):
            cfgs.append(dict(reader="video", start=0, end=6, cap=3, batch=4, fault=fault))
    cfgs += construction_configs(tier)
    return cfgs


def _vcase(a_start, a_end, n_total, cap, batch, fault, ctor):
    c = dict(reader="video", cap=cap, batch=batch, fault=fault, ctor=ctor, args=[a_start, a_end, n_total])
    c["start"], c["end"] = resolved_range(c)
    return c


def construction_configs(tier):
    """How the readers are built and what they carry: constructor / from_filename with omitted, None and 0
    arguments; multi-video labels; ground-truth instances, frames without instances (F130)."""
    out = []
    for ctor in ("from_filename", "direct"):
        for a_start, a_end in ((None, None), (None, 0), (0, None), (0, 0), (None, 2), (1, None), (1, 3), (2, 1)):
            for fault in (None, 1):
                out.append(_vcase(a_start, a_end, 3, 1, 2, fault, ctor))
    out.append(_vcase(None, 0, 4, 2, 1, None, "from_filename"))
    out.append(_vcase(0, None, 4, 0, 3, 2, "from_filename"))
    # the requested range runs past the end of the video (end_idx > len(video)): video[len] raises IndexError,
    # a read failure; the start may lie on or past the end too; an undecodable frame before / at / after the end
    for ctor in ("from_filename", "direct"):
        for a_start, a_end, n_total in ((None, 5, 3), (1, 4, 3), (0, 3, 2), (3, 5, 3), (4, 6, 3), (None, 2, 0), (2, 4, 1)):
            for fault in (None, 1, 3):
                if fault is None or ctor == "direct":
                    out.append(_vcase(a_start, a_end, n_total, 1 if fault is None else 2, 2, fault, ctor))
    out.append(_vcase(None, 4, 2, 0, 1, None, "direct"))
    out.append(_vcase(1, 5, 3, 1, 3, None, "direct"))
    for nv in (2, 3):
        for batch in (1, 3):
            for fault in (None, 2):
                out.append(dict(reader="labels", start=0, end=4, cap=2, batch=batch, fault=fault, n_videos=nv,
                                ctor="from_filename" if batch == 1 else "direct"))
    for n in (0, 3):
        out.append(dict(reader="labels", start=0, end=n, cap=1, batch=2, fault=None, ctor="from_filename"))
    for fault in (None, 0, 1, 2):
        out.append(dict(reader="labels", start=0, end=3, cap=1, batch=2, fault=fault, instances_key=True,
                        n_videos=2, ctor="from_filename"))
    # labelled frames without a non-empty instance
    for bare, fault, ik in (([0], None, True), ([1], None, True), ([2], None, True), ([1, 2], None, True),
                            ([1], 2, True), ([2], 1, True), ([1], 1, True), ([1], None, False), ([0, 2], 1, False)):
        out.append(dict(reader="labels", start=0, end=3, cap=1, batch=2, fault=fault, instances_key=ik, bare=bare))
    out.append(dict(reader="labels", start=0, end=4, cap=2, batch=3, fault=None, instances_key=True, bare=[3],
                    n_videos=2))
    # frames with different numbers of animals: max_instances = 2, NaN rows appended elsewhere
    for fault in (None, 3):
        out.append(dict(reader="labels", start=0, end=4, cap=2, batch=2, fault=fault, instances_key=True, multi_inst=True))
    out.append(dict(reader="labels", start=0, end=4, cap=1, batch=3, fault=None, instances_key=True, multi_inst=True,
                    bare=[3], n_videos=2, ctor="from_filename"))
    return out


def polling_configs(tier):
    """The real reader + the real consumer loop whose get() polls (timed get, retry until the marker)."""
    out = []
    nmax = 2 if tier == "quick" else 3
    for n in range(0, nmax + 1):
        for cap in (1, 2):
            for batch in (1, 2):
                for fault in [None] + list(range(n)):
                    out.append(dict(reader="video", start=0, end=n, cap=cap, batch=batch, fault=fault, poll="retry"))
    out.append(dict(reader="labels", start=0, end=2, cap=1, batch=2, fault=1, fault_in_image=True, poll="retry"))
    out.append(dict(reader="video", start=0, end=3, cap=0, batch=2, fault=None, poll="retry"))
    return out


GIVEUP_CONTROL = [dict(reader="video", start=0, end=0, cap=1, batch=1, fault=None, poll="giveup"),
                  dict(reader="video", start=0, end=1, cap=2, batch=1, fault=None, poll="giveup"),
                  dict(reader="video", start=0, end=2, cap=3, batch=2, fault=None, poll="giveup"),
                  dict(reader="video", start=0, end=3, cap=0, batch=2, fault=None, poll="giveup")]

CONSUMER_CRASH = [dict(reader="video", start=0, end=3, cap=1, batch=1, fault=None, infer_raises_at=1),
                  dict(reader="video", start=0, end=1, cap=2, batch=1, fault=None, infer_raises_at=1),
                  dict(reader="labels", start=0, end=4, cap=2, batch=2, fault=None, infer_raises_at=2)]


def sampled_cases(rng, tier):
    n_cases = 120 if tier == "quick" else 1500
    nmax, capmax, bmax = (14, 5, 5) if tier == "quick" else (40, 8, 8)
    out = []
    for _ in range(n_cases):
        reader, fim = rng.choice([("video", False), ("labels", False), ("labels", True)])
        n = rng.randint(0, nmax)
        start = rng.choice([0, 0, 1, 5]) if reader == "video" else 0
        cap = rng.choice([0] + list(range(1, capmax + 1)))
        batch = rng.randint(1, bmax)
        fault = rng.choice([None, None] + list(range(start, start + n + 1))) if n else rng.choice([None, start])
        if fim and fault is None:
            fim = False
        style = rng.choice(["uniform", "producer-heavy", "consumer-heavy", "bursty"])
        length = 3 * n + 8
        if style == "uniform":
            w = "".join(rng.choice("PC") for _ in range(length))
        elif style == "producer-heavy":
            w = "".join("P" if rng.random() < 0.85 else "C" for _ in range(length))
        elif style == "consumer-heavy":
            w = "".join("C" if rng.random() < 0.85 else "P" for _ in range(length))
        else:
            w = ""
            while len(w) < length:
                w += rng.choice("PC") * rng.randint(1, 6)
        case = dict(reader=reader, start=start, end=start + n, cap=cap, batch=batch, fault=fault, fault_in_image=fim)
        if reader == "labels" and rng.random() < 0.4:
            case["instances_key"] = True
        if reader == "labels" and rng.random() < 0.4:
            case["n_videos"] = rng.choice([2, 3])
        if reader == "labels" and rng.random() < 0.3:
            case["multi_inst"] = True
        if reader == "labels" and n and rng.random() < 0.25:
            case["bare"] = sorted(rng.sample(range(n), rng.randint(1, min(2, n))))
        if rng.random() < 0.3:
            case["ctor"] = "from_filename"
        if reader == "video" and rng.random() < 0.3:
            # explicit constructor arguments; the video is shorter than the requested end in most of these
            case["args"] = [start, start + n, rng.randint(0, start + n + 1)]
        if rng.random() < 0.15:
            case["poll"] = "retry"
        if rng.random() < 0.5:
            case["yield_point"] = True
        out.append((case, w, rng.choice("PC")))
    return out


# ----------------------------------------------------------------------------

def static_tie(run: core.Run):
    tr = _translator()
    g = tr.generate(core.REPO, GEN)
    name = "static tie: control skeleton of VideoReader.run / LabelsReader.run / _predict_generator " \
           "(Gen/C13_Skel.v, regenerated from the source) = the modelled skeleton (skeletons_match generated)"
    if not g["ok"]:
        run.obligation(name, False, "translator failed closed: " + g["error"])
        return g
    rc, out = core.coqc(GEN / "C13_Skel.v", timeout=300)
    if rc == 0:
        rc, out = core.coqc(GEN / "C13_SkelCheck.v", timeout=300)
    ok = rc == 0
    if ok:
        blocks = core.parse_print_assumptions(out)
        ok = blocks == [[]]
        if not ok:
            out = "unexpected assumptions: " + repr(blocks)
    run.obligation(name, ok, "" if ok else out[-1200:])
    run.coverage["skeleton"] = {"ok": ok, "sentinel_key": g["skeletons"]["sentinel_key"]}
    return g


class _NoCtl:
    """Controller stand-in for running a fake source under the plain (uncontrolled) reader."""
    def park(self, *a):
        pass

    def event(self, *a):
        pass


def _plain_read(video, a_start, a_end):
    """The repo's VideoReader, unmodified, with a plain unbounded queue.Queue: what it puts, and total_len()."""
    import queue as _q
    from sleap_nn.data.providers import VideoReader
    fb = _q.Queue(maxsize=0)
    rd = VideoReader(video, fb, a_start, a_end)
    rd.daemon = True
    rd.start()
    rd.join(S.WATCHDOG_S)
    items = []
    while not fb.empty():
        it = fb.get()
        items.append(None if it["image"] is None else int(it["frame_idx"]))
    return {"items": items, "total_len": int(rd.total_len()), "alive": rd.is_alive()}


def real_video_fidelity(run: core.Run):
    """A range that runs past the end of the video (review round 4, finding 1): what a REAL sio.Video does, what
    the fake video does under the same plain reader, what the request model says.  All three must agree:
    the frames that exist + one marker, total_len() = end - start."""
    import sleap_io as sio
    name = ("correspondence: VideoReader on a real sio.Video (tests/assets/centered_pair_small.mp4) with a range that "
            "runs past the end / starts at the end / ends at the end delivers what Poll.video_cfg says (existing frames, "
            "marker, total_len), and FakeVideo fails at the same indices as the real video")
    try:
        video = sio.load_video(str(core.REPO / "tests" / "assets" / "centered_pair_small.mp4"))
        n = int(video.shape[0])
        rows, terms, bad = [], [], []
        for a_start, a_end in ((n - 2, n + 3), (n, n + 2), (n - 2, None), (n - 1, n)):
            real = _plain_read(video, a_start, a_end)
            # the same request shifted to a 5-frame fake video
            sh = n - 5
            fake = _plain_read(S.FakeVideo(5, None, _NoCtl()), a_start - sh, None if a_end is None else a_end - sh)
            end = n if a_end is None else a_end
            want = spec_frames(a_start, end, None, n)
            if real["items"] != want + [None] or real["alive"] or real["total_len"] != end - a_start:
                bad.append(f"real video {a_start, a_end}: {real}, specified {want} + marker")
            if [None if x is None else x + sh for x in fake["items"]] != real["items"] or fake["total_len"] != real["total_len"]:
                bad.append(f"fake video differs from the real one for {a_start, a_end}: {fake} vs {real}")
            terms.append(f"ReqVideo (mkVReq {n} (Some {a_start}) {_copt(a_end)} 0 1 None)")
            rows.append((a_start, a_end, real))
        for (a_start, a_end, real), rv in zip(rows, core.coq_eval_sharded(PREAMBLE, terms, "check_request", "rreq", shard=10)):
            if rv["delivered"] + [None] != real["items"] or rv["total_len"][0] - rv["total_len"][1] != real["total_len"]:
                bad.append(f"request model {rv} vs real video {real} for {a_start, a_end}")
        run.coverage["real_video_overrun"] = [{"start": a, "end": b, "delivered": r["items"][:-1], "total_len": r["total_len"]}
                                              for a, b, r in rows]
    except Exception as e:      # noqa: BLE001
        bad = [f"{type(e).__name__}: {e}"]
    run.obligation(name, not bad, "; ".join(bad[:3]))
    if bad:
        run.proof_broken.append("real-video replay: " + bad[0])


def check(run: core.Run) -> int:
    run.build_and_prove(PROP_FILES)
    static_tie(run)

    core.impl_env_setup()
    from loguru import logger
    logger.disable("sleap_nn")              # the readers log every injected fault
    S.repo_classes()
    rng = run.rng
    real_video_fidelity(run)
    t0 = time.time()

    # --- finding F130: replay the corpus witness; which LabelsReader does the code have?
    wit = json.load(open(F130_WITNESS))
    wr = run_case(wit["case"], wit["choices"], wit.get("default", "P"))
    wbad = oracle(wit["case"], wr)
    STATE["f130_fixed"] = wbad is None
    run.coverage["F130"] = {"witness": str(F130_WITNESS.relative_to(core.VERIF)), "defect_present": wbad is not None,
                            "oracle": wbad, "model_variant": "lr_fixed = " + str(STATE["f130_fixed"]).lower()}
    if wbad is not None:
        run.violation("failing-input", {"case": wit["case"], "choices": wit["choices"], "default": "P",
                                        "oracle": wbad, "specified_frames": spec_of(wit["case"])},
                      selector=F130 if bare_selected(wit["case"]) else None)

    records = []                # (case, choices, default, result, exhaustive?)
    n_by_cfg = {}
    hangs = 0
    cfgs = exhaustive_configs(run.tier)
    n_plain = len(cfgs)
    cfgs += polling_configs(run.tier)
    # budgets: the unchanged code needs <= ~60 schedules per configuration and ~20 s in all; code that
    # polls (timed put/get) multiplies the choice points, so cap the work and say so in the evidence
    budget_s = 900 if run.tier == "thorough" else 150
    cap_per_cfg = 5000 if run.tier == "thorough" else 600
    capped, failing_cfgs, out_of_time = 0, 0, False
    cap_poll = 800 if run.tier == "thorough" else 120
    for ci, case in enumerate(cfgs):
        k = 0
        for w, r in explore(case, limit=cap_per_cfg if ci < n_plain else cap_poll):
            records.append((case, w, "P", r, True))
            k += 1
            hangs += r["status"] == "hang"
            if (r["status"] != "ok" or "C" in r["errors"] or oracle(case, r)) and not \
                    (bare_selected(case) and not STATE["f130_fixed"]):
                failing_cfgs += 1
        capped += ci < n_plain and k >= cap_per_cfg
        n_by_cfg[json.dumps(case, sort_keys=True)] = k
        if hangs >= 2:
            run.notes.append("exploration cut short after two hangs (each costs a watchdog period)")
            break
        if failing_cfgs >= 8:
            run.notes.append("exploration stopped after failing executions in 8 configurations")
            break
        if time.time() - t0 > budget_s:
            out_of_time = True
            run.notes.append(f"exhaustive exploration stopped after {budget_s}s: {len(n_by_cfg)} of {len(cfgs)} configurations done")
            break
    if capped:
        run.notes.append(f"{capped} configurations reached the cap of {cap_per_cfg} schedules (not exhausted)")
    run.coverage["exhaustive_complete"] = not (capped or out_of_time or hangs >= 2 or failing_cfgs >= 8)
    n_exh = len(records)
    t_exh = time.time() - t0
    # known-finding corpus (none for C13) and sampled larger configurations
    if hangs < 2:
        for case, w, default in sampled_cases(rng, run.tier):
            r = run_case(case, w, default)
            records.append((case, w, default, r, False))
            if r["status"] == "hang":
                hangs += 1
                if hangs >= 2:
                    break
    run.log(f"{n_exh} exhaustive schedules over {len(n_by_cfg)} configurations in {t_exh:.1f}s, "
            f"{len(records) - n_exh} sampled, total {time.time() - t0:.1f}s")

    # --- oracle on every execution
    failures = []
    for idx, (case, w, default, r, exh) in enumerate(records):
        bad = oracle(case, r)
        if bad:
            failures.append(idx)
            run.violation("failing-input", {
                "case": case, "choices": w, "default": default, "oracle": bad,
                "specified_frames": spec_of(case),
                "observed": {"status": r["status"], "errors": r["errors"], "stuck": r["stuck"],
                             "yielded": [y["frame_idx"] for y in r["yielded"]], "trace": r["trace"][:80]}},
                selector=F130 if (bare_selected(case) and not STATE["f130_fixed"]) else None)
    # --- model: every trace through the Coq trace checker (grouped by configuration).  Traces that hold
    #     time-outs of a timed get / is_alive() looks go through Poll.xaccepts in mode Polling (a consumer
    #     that waits for the marker: c13_xaccepts_spec), all others through Stream.accepts.
    groups, order, untranslatable = {}, [], 0
    for idx, (case, w, default, r, exh) in enumerate(records):
        xk = has_xevents(r["trace"])
        try:
            events_term(case["reader"], r["trace"], x=xk)
        except Untranslatable:
            untranslatable += 1
            if idx not in failures:
                run.proof_broken.append(f"trace of {case} / {w!r} holds an event the model has no name for")
            continue
        gk = (json.dumps(case, sort_keys=True), exh, xk) if exh else ("sampled", idx, xk)
        if gk not in groups:
            groups[gk] = []
            order.append(gk)
        groups[gk].append(idx)
    terms, xterms = [], []
    for gk in order:
        idxs = groups[gk]
        case = records[idxs[0]][0]
        if gk[2]:
            xterms.append(xgroup_term(case, [records[i][3]["trace"] for i in idxs], "Polling"))
        else:
            want = bool(records[idxs[0]][4]) and case["end"] - case["start"] <= 6
            terms.append(group_term(case, [records[i][3]["trace"] for i in idxs], want))
    gvs = core.coq_eval_sharded(PREAMBLE, terms, "check_group", "rgroup", shard=25) if terms else []
    xgvs = core.coq_eval_sharded(PREAMBLE, xterms, "check_xgroup", "rxgroup", shard=25) if xterms else []
    gvs, xgvs = list(gvs), list(xgvs)
    rejected = n_xtraces = n_timeouts = 0
    visited = {}
    for gk in order:
        gv = xgvs.pop(0) if gk[2] else gvs.pop(0)
        idxs = groups[gk]
        case = records[idxs[0]][0]
        key = (case["start"], case["end"], case["cap"], case["batch"], model_fault(case))
        if gv.get("states"):
            st, tr_ = visited.setdefault(key, (set(), set()))
            st.update(_decode(k)[0] for k in gv["states"])
            tr_.update(_decode_trans(k) for k in gv["trans"])
        if len(gv["verdicts"]) != len(idxs):
            raise core.CoqEvalError("verdict count mismatch")
        for idx, verdict in zip(idxs, gv["verdicts"]):
            acc, consumed, vy = verdict[:3]
            case, w, default, r, exh = records[idx]
            if gk[2]:
                n_xtraces += 1
                n_timeouts += sum(1 for e in r["trace"] if e[0] == "get_timeout")
            impl_y = [[_pos(case["reader"], x) for x in y["frame_idx"]] for y in r["yielded"]]
            ok = acc and vy == impl_y and vy == gv["spec"]
            n = case["end"] - case["start"]
            run.case([case, w, default], nontrivial=(n >= 2 and r["choice_points"] >= 1))
            if not ok:
                rejected += 1
                if rejected <= 3:
                    run.log(f"trace not accepted: {case} choices={w!r}: consumed {consumed} of "
                            f"{len(r['trace'])} events; model yielded {vy} spec {gv['spec']} impl {impl_y}")
                if idx not in failures:
                    # the real code did what the property asks, but not the way the model says: tie broken
                    ev = r["trace"][consumed] if consumed < len(r["trace"]) else "end of trace, state not final"
                    run.proof_broken.append(
                        f"correspondence: trace of the real threads not accepted by "
                        f"{'Poll.xaccepts Polling' if gk[2] else 'Stream.accepts'} for {case} "
                        f"choices={w!r} (event #{consumed}: {ev})")
    run.obligation("correspondence: every trace of the real reader thread + consumer loop under a prescribed "
                   "schedule is accepted by Stream.accepts / Poll.xaccepts (Coq, vm_compute) and yields the model's batches",
                   rejected == 0 and untranslatable == 0, f"{rejected} rejected, {untranslatable} untranslatable")
    run.coverage["polling"] = {"traces_with_timeouts_checked_in_mode_Polling": n_xtraces, "timeouts": n_timeouts,
                               "max_steps_seen": max((r["steps"] for _, _, _, r, _ in records), default=0)}

    # --- the request model (Poll.video_cfg / labels_cfg): what must be delivered, total_len, selector of F130
    reqs = {}
    for case, w, default, r, exh in records:
        reqs.setdefault(request_term(case), (case, r))
    rvs = core.coq_eval_sharded(PREAMBLE, list(reqs), "check_request", "rreq", shard=400)
    req_bad = []
    for (term, (case, r)), rv in zip(reqs.items(), rvs):
        tl = rv["total_len"][0] - rv["total_len"][1]
        sel = bare_selected(case)
        if rv["spec"] != spec_of(case) or tl != r["total_len"] or rv["selected"] != sel or \
                (rv["delivered"] != rv["spec"]) != (sel and not STATE["f130_fixed"]):
            req_bad.append(f"{term}: model {rv}, python spec {spec_of(case)}, total_len() {r['total_len']}, selected {sel}")
    run.obligation("correspondence: the request model (Poll.video_cfg / labels_cfg: argument defaulting, total_len, "
                   "bare-frame selector) agrees with the readers' constructors and the Python specification on "
                   f"{len(reqs)} distinct requests", not req_bad, "; ".join(req_bad[:3]))
    if req_bad:
        run.proof_broken.append("request model: " + req_bad[0])

    # --- positive control of the exploration order + tie of the GiveUp model: the give-up consumer
    #     (harness-side, around the real reader and the real consumer loop) must lose frames within a few
    #     executions, and every one of its traces must be a trace of Poll.xstep in mode GiveUp
    ctl_rows, gterms, gobs = [], [], []
    for case in GIVEUP_CONTROL:
        k, lost, traces = 0, None, []
        for w, r in explore(case, limit=40):
            k += 1
            traces.append(r)
            if oracle(case, r):
                lost = k
                break
        ctl_rows.append({"case": {a: case[a] for a in ("end", "cap", "batch")}, "race_found_at_execution": lost})
        gterms.append(xgroup_term(case, [t["trace"] for t in traces], "GiveUp"))
        gobs.append(traces)
    ggv = core.coq_eval_sharded(PREAMBLE, gterms, "check_xgroup", "rxgroup", shard=10)
    g_bad = []
    for case, traces, gv in zip(GIVEUP_CONTROL, gobs, ggv):
        for t, (acc, consumed, vy, qleft) in zip(traces, gv["verdicts"]):
            impl_y = [y["frame_idx"] for y in t["yielded"]]
            if not (acc and vy == impl_y and qleft == t["queue_left"]):
                g_bad.append(f"{case}: accepted {acc}, consumed {consumed}, model yielded {vy} / queue {qleft}, "
                             f"observed {impl_y} / {t['queue_left']}")
    run.coverage["giveup_control"] = ctl_rows
    run.obligation("positive control: the consumer that gives up when the reader is dead (c13_giveup_loses_frames, "
                   "seeded change C13_m4) loses frames within 10 executions of every control configuration, and "
                   "all its traces are accepted by Poll.xaccepts in mode GiveUp with the observed yield and queue rest",
                   all(r_["race_found_at_execution"] and r_["race_found_at_execution"] <= 10 for r_ in ctl_rows)
                   and not g_bad, json.dumps(ctl_rows) + " " + "; ".join(g_bad[:2]))
    if g_bad or not all(r_["race_found_at_execution"] for r_ in ctl_rows):
        run.proof_broken.append("give-up control: " + (g_bad[0] if g_bad else "race not found"))

    # --- observation (outside the property): the inference callable raises in the consumer
    obs = []
    for case in CONSUMER_CRASH:
        r = run_case(case, "")
        obs.append({"case": {a: case[a] for a in ("reader", "end", "cap", "batch", "infer_raises_at")},
                    "exception_reaches_caller": "C" in r["errors"], "status": r["status"],
                    "reader_left_waiting_at": r["stuck"].get("P"), "queue_left": r["queue_left"]})
    run.coverage["observation_consumer_exception"] = {
        "runs": obs,
        "meaning": "the exception propagates out of _predict_generator; pipeline.join() is never reached; when the "
                   "items still to come do not fit into the queue the (non-daemon) reader thread stays blocked in "
                   "put() for ever (status 'deadlock', c13_blocked_reader_needs_get), otherwise it ends and leaves "
                   "its items in the queue.  Outside the property (which speaks about READ failures); not reported."}

    # --- coverage statistics
    reach_s = reach_t = vis_s = vis_t = 0
    mirror_ok = True
    for key, (st, tr_) in visited.items():
        rs, rt = lts_reachable(*key)
        mirror_ok = mirror_ok and st <= rs and tr_ <= rt
        reach_s += len(rs)
        reach_t += len(rt)
        vis_s += len(st & rs)
        vis_t += len(tr_ & rt)
    by_status = {}
    for _, _, _, r, _ in records:
        by_status[r["status"]] = by_status.get(r["status"], 0) + 1
    run.coverage.update({
        "exhaustive": True,
        "exhaustive_scope": (f"every schedule (interleaving at read/put/get/join points) of {len(n_by_cfg)} configurations: "
                             f"VideoReader and LabelsReader (fault in labels[idx] and in lf.image), "
                             f"n <= {4 if run.tier == 'quick' else 5} frames (+ n = {5 if run.tier == 'quick' else 6} for part of the grid), "
                             f"capacity {'1,2' if run.tier == 'quick' else '1,2,3'} (+0 = unbounded, 3), batch 1..3, every fault position and none "
                             f"; readers built by the constructor and by from_filename with omitted / None / 0 range arguments, "
                             f"multi-video labels, ground-truth instances incl. frames without instances; the real threads with a "
                             f"polling get (timed get, retry; <= {cap_poll} schedules per configuration, fewest context switches first) "
                             f"= {n_exh} executions of the real threads"),
        "sampled_schedules": len(records) - n_exh,
        "sampled_scope": "n <= %d, capacity 0..%d, batch <= %d, random/biased/bursty choice words" % (
            (14, 5, 5) if run.tier == "quick" else (40, 8, 8)),
        "executions_by_status": by_status,
        "oracle_failures": len(failures), "traces_rejected_by_model": rejected,
        "lts_coverage_by_validated_traces": {
            "configurations": len(visited), "states_reachable": reach_s, "states_visited": vis_s,
            "transitions_reachable": reach_t, "transitions_visited": vis_t,
            "mirror_consistent": mirror_ok,
            "note": "reachable sets from a Python mirror of Stream.lstep (statistics only); states the real "
                    "threads cannot be stopped in (between a put/get and the next scheduling point) are "
                    "reachable in the finer-grained model but never visited"},
        "max_choice_points": max((r["choice_points"] for _, _, _, r, _ in records), default=0),
        "rule": "case = (reader, start, end, capacity, batch, fault, choice word); non-trivial = at least 2 frames "
                "in the range and at least one point where both threads were enabled; distinct by the case itself",
        "wall_impl_s": round(time.time() - t0, 1),
    })
    for i in (0, n_exh // 3, n_exh // 2, n_exh - 1, len(records) - 1):
        if 0 <= i < len(records):
            case, w, default, r, exh = records[i]
            run.sample({"case": case, "choices": w, "taken": r["taken"], "status": r["status"],
                        "yielded": [y["frame_idx"] for y in r["yielded"]], "events": len(r["trace"])})
    run.trusted += [
        "CPython queue.Queue (FIFO order, blocking discipline, maxsize <= 0 unbounded) and threading.Thread.join are "
        "modelled (Stream.v: full, l_put, l_get_*, l_join), exercised through the real queue object, not verified",
        "translator/c13_skel2coq.py (control-skeleton extraction, fail-closed) and the correspondence between skeleton "
        "nodes and transition rules documented in Stream.v",
        "harness/c13_sched.py: scheduling points are the frame read, put, get, join and is_alive(); code between two points is "
        "assumed thread-local (it touches only the frame just read / taken)",
        "from_filename: sio.load_video / sio.load_slp and the Queue class are substituted in sleap_nn.data.providers for the "
        "duration of the call (fake video / labels, controlled queue); the classmethods' own code runs unchanged",
        "the polling / give-up consumers are harness-side wrappers of the queue's get() around the real _predict_generator "
        "(/repo itself only has the blocking get)",
    ]
    run.assumptions += [
        "only Exception-class read failures are injected (BaseException such as KeyboardInterrupt is out of scope)",
        "failures of the consumer side (inference model raising) are outside the property: the reader thread then "
        "stays blocked in put() when the items still to come do not fit into the queue (observed every run: "
        "coverage.observation_consumer_exception; c13_blocked_reader_needs_get; not reported)",
        "timed get: fairness = a timed get that raised Empty is not scheduled again until the shared state changes "
        "(scheduler) / the run does not time out for ever while another step is enabled (c13_poll_* theorems)",
        "batch size >= 1 (batch 0 makes the consumer spin without calling get: ex_batch0_livelock)",
    ]
    return run.finish(explanation="C13: LTS model of reader thread / bounded queue / consumer loop (blocking and timed get) with unbounded "
                                  "proofs of the stream invariant, deadlock freedom and termination on every (fair) schedule, request "
                                  "model of the readers' constructors, refutation of the give-up consumer and of the bare-frame reader; "
                                  "tied to the source by skeleton extraction and by replaying traces of the real "
                                  "threads under exhaustive small schedules through the verified trace checker")


def replay(run: core.Run, path: str) -> int:
    core.impl_env_setup()
    from loguru import logger
    logger.disable("sleap_nn")
    rep = json.load(open(path))
    if "case" not in rep:
        print(json.dumps({"note": "not a failing-input replay", "broken": rep.get("broken")}))
        return 1
    r = run_case(rep["case"], rep["choices"], rep.get("default", "P"))
    bad = oracle(rep["case"], r)
    print(json.dumps({"case": rep["case"], "choices": rep["choices"], "status": r["status"],
                      "yielded": [y["frame_idx"] for y in r["yielded"]], "oracle": bad}))
    return 1 if bad else 0
