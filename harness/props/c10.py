"""C10 — well-separated animals keep their identity across frames.

Model: C09's tracker state machines (coq/theories/C09/Tracker.v) + C10/Scene.v
(owners computed from outputs, the dominance premise); theorems:
coq/theories/C10/Props.v.

Tie: simulated in-class scenes (1..4 animals on separated, slowly moving
trajectories, per-frame permutations, absences shorter than the window, late
arrivals only while every previously seen animal is visible) are run through
the real Tracker with recording (score matrices, matcher answers); the Coq
model `run10` replays them (vm_compute) and must return the same outputs; the
DOMINANCE premise of the theorem is evaluated by the model on every recorded
matrix (and independently in Python) — non-vacuity: it must hold on the scenes
of the generator.  Oracle: every detection is returned with a track, an animal
has one track over the whole scene, two animals never hold the same track.
"""
from __future__ import annotations

import json
import math
from fractions import Fraction as F

from .. import core
from .. import c09_common as cc

PROP_FILES = [core.THEORIES / "C10" / "Props.v"]
PREAMBLE = cc.PREAMBLE + "From SV Require Import C10.Scene.\n"
RENDER = "rpair (rlist (rpair routcome rbool)) (rlist (rpair rnat rnat))"
WINDOWS = [1, 2, 3, 5]
SPACING = 64          # px between home positions
SIZE = 4              # instance spans 16 x 20 px
KNOWN = [("F4i", cc.SEL_I, "one_animal.json"), ("F4ii", cc.SEL_II, "late_arrival_local_queue.json"),
         ("F4iii", cc.SEL_III, "departed_animal_max.json")]


# ---------------------------------------------------------------------------
# scenes

def presence(rng, K, Fr, w):
    """presence[f][a]: absences shorter than the window, late arrivals, departures for good, an
    occasional empty frame; `check_class` decides whether the result is inside the property's class."""
    first = [0] * K
    for a in range(1, K):
        if rng.random() < 0.45:
            first[a] = rng.randrange(1, Fr)
    leave = [Fr] * K
    for a in range(K):
        if rng.random() < 0.2 and first[a] + 1 < Fr:
            leave[a] = rng.randrange(first[a] + 1, Fr)          # leaves for good
    pres = [[False] * K for _ in range(Fr)]
    for a in range(K):
        f = first[a]
        while f < leave[a]:
            run = rng.randint(1, 5)
            for g in range(f, min(leave[a], f + run)):
                pres[g][a] = True
            f += run
            if w > 1 and rng.random() < 0.6:
                f += rng.randint(1, w - 1)                      # an absence of < w frames
    # a newcomer only appears while everyone seen before is visible
    seen = set()
    for f in range(Fr):
        if any(pres[f][a] and a not in seen for a in range(K)):
            for b in seen:
                pres[f][b] = True
        seen.update(a for a in range(K) if pres[f][a])
    if rng.random() < 0.15:
        pres[rng.randrange(Fr)] = [False] * K                   # an empty frame
    return pres


def check_class(pres, w):
    """the property's side conditions, re-checked on the final pattern"""
    K = len(pres[0])
    seen = set()
    last = {}
    for f, row in enumerate(pres):
        now = {a for a in range(K) if row[a]}
        if (now - seen) and not seen <= now:
            return False
        for a in now:
            if a in last and f - last[a] - 1 >= w:
                return False
            last[a] = f
        seen |= now
    return True


def scene_regime(rng, cfg, regime):
    """Two further in-class regimes (every detection present in every frame, identity must be kept):
    'fast_small'  animals ~1000 px apart, bodies 8 x 10 px, one nearly stationary, the others jumping
                  up to 5 px per axis around their home (OKS of the right track is tiny but positive,
                  of the wrong track exactly 0; distances 10 against 1000);
    'thin'        two-keypoint animals on one row / in one column (zero-height / zero-width boxes),
                  moving along their own axis by less than their length."""
    K = rng.randint(3, 4) if regime == "fast_small" else rng.randint(2, 4)
    Fr = rng.randint(3, 8)
    sp = 1000 if regime == "fast_small" else SPACING
    home = [(F((a % 2) * sp + 32), F((a // 2) * sp + 32)) for a in range(K)]
    shapes = ["tri"] * K if regime == "fast_small" else [rng.choice(["hline", "vline"]) for _ in range(K)]
    still = rng.randrange(K)
    hop = [(F(rng.randrange(16, 33), 8), F(rng.randrange(16, 33), 8)) for _ in range(K)]
    if regime == "fast_small" and rng.random() < 0.6:
        cfg["window"] = 1               # with a longer window the candidate from two frames back scores ~1
    hist = []
    for f in range(Fr):
        fr = []
        for a in range(K):
            if regime == "fast_small":
                if a == still:
                    dx, dy = F(rng.randrange(-1, 2), 8), F(rng.randrange(-1, 2), 8)
                else:                                              # hops between two spots 4..8 px apart (per axis)
                    sgn = 1 if (f + a) % 2 else -1
                    dx = sgn * hop[a][0] + F(rng.randrange(-2, 3), 8)
                    dy = sgn * hop[a][1] + F(rng.randrange(-2, 3), 8)
                size = 2
            else:
                t = F(rng.randrange(-24, 25), 8)                   # +-3 px along the animal's own axis
                dx, dy = (t, F(0)) if shapes[a] == "hline" else (F(0), t)
                size = SIZE
            fr.append({"uid": a, "animal": a, "x": home[a][0] + dx, "y": home[a][1] + dy, "score": F(1), "size": size,
                       "shape": shapes[a]})
        rng.shuffle(fr)
        hist.append(fr)
    return hist, [[True] * K for _ in range(Fr)]


def scene(rng, cfg):
    r = rng.random()
    flow = bool(cfg.get("flow"))
    if not flow and r < (0.35 if cfg["features"] == "keypoints" else 0.12) and cfg["features"] != "bboxes":
        return scene_regime(rng, cfg, "fast_small")
    if not flow and r < 0.30 and cfg["features"] == "bboxes":
        return scene_regime(rng, cfg, "thin")
    K = rng.randint(1, 4)
    Fr = rng.randint(2, 12)
    w = cfg["window"]
    for _ in range(50):
        pres = presence(rng, K, Fr, w)
        if check_class(pres, w):
            break
    else:
        pres = [[True] * K for _ in range(Fr)]
    if flow:
        # optical flow needs the animal in the new frame: no absences (late arrivals stay), everything inside
        # the 160 x 160 synthetic frame (homes at 32 / 96, extent 16 x 20, drift <= 6)
        first = [min((f for f in range(Fr) if pres[f][a]), default=0) for a in range(K)]
        pres = [[f >= first[a] for a in range(K)] for f in range(Fr)]
    home = [(F((a % 2) * SPACING + 32), F((a // 2) * SPACING + 32)) for a in range(K)]
    kind = [rng.choice(["line", "arc", "jitter"]) for _ in range(K)]
    par = [(rng.random() * 6.28, rng.choice([-1, 1]) * rng.uniform(0.05, 0.12), rng.uniform(2, 6),
            F(rng.randrange(-4, 5), 8), F(rng.randrange(-4, 5), 8)) for _ in range(K)]
    hist = []
    for f in range(Fr):
        fr = []
        for a in range(K):
            if not pres[f][a]:
                continue
            ph, om, R, vx, vy = par[a]
            if kind[a] == "line":
                dx, dy = vx * (f - Fr // 2), vy * (f - Fr // 2)
            elif kind[a] == "arc":
                dx = F(round(8 * R * math.cos(ph + om * f)), 8)
                dy = F(round(8 * R * math.sin(ph + om * f)), 8)
            else:
                dx, dy = F(rng.randrange(-3, 4), 8), F(rng.randrange(-3, 4), 8)
            fr.append({"uid": a, "animal": a, "x": home[a][0] + dx, "y": home[a][1] + dy, "score": F(1), "size": SIZE})
        rng.shuffle(fr)
        hist.append(fr)
    return hist, pres


def max_step(hist):
    last, m = {}, 0.0
    for fr in hist:
        for d in fr:
            if d["animal"] in last:
                px, py = last[d["animal"]]
                m = max(m, math.hypot(float(d["x"] - px), float(d["y"] - py)))
            last[d["animal"]] = (d["x"], d["y"])
    return m


# ---------------------------------------------------------------------------
# the dominance premise, measured on the recorded matrices with the ground truth (independent of the model)

def dominance_py(fr, M, own, m):
    """own: animal -> track (from the implementation's earlier outputs)."""
    n = len(fr)

    def lt(a, b):          # cost a < cost b  <=>  score a > score b, NaN worst
        if a is None or (isinstance(a, float) and math.isnan(a)):
            return False
        if b is None or (isinstance(b, float) and math.isnan(b)):
            return True
        return a > b
    for i, d in enumerate(fr):
        t = own.get(d["animal"])
        if t is None:
            continue
        s = M[i][t]
        if math.isnan(s):
            return False
        if any(t2 != t and not lt(s, M[i][t2]) for t2 in range(m)):
            return False
        if any(j != i and not lt(s, M[j][t]) for j in range(n)):
            return False
    return True


def scene_oracle(hist, recs):
    """C10's statement on the implementation's outputs.  Returns (frame, reason) of the first failure or None."""
    track_of, holder = {}, {}
    for k, (fr, rec) in enumerate(zip(hist, recs)):
        if "raises" in rec:
            return k, f"raises {rec['raises']}: {rec.get('msg', '')}"
        got = {}
        for i in rec["out"]:
            got.setdefault(i.animal, []).append(None if i.track is None else int(i.track.name))
        for d in fr:
            a = d["animal"]
            ts = got.get(a, [])
            if len(ts) != 1 or ts[0] is None:
                return k, f"animal {a} detected but returned {ts} (no track)"
            t = ts[0]
            if a in track_of and track_of[a] != t:
                return k, f"animal {a} changed track {track_of[a]} -> {t}"
            if a not in track_of:
                if t in holder:
                    return k, f"newcomer {a} received track {t} already held by animal {holder[t]}"
                track_of[a], holder[t] = t, a
    if len(recs) < len(hist):
        return len(recs) - 1, "history not completed"
    return None


def evaluate(run, cases, fixes):
    recs_all = [cc.run_impl(cfg, hist) for cfg, hist in cases]
    terms = [f"(run10 {cc.cconfig(cfg, fixes)} {cc.frames_term(cfg, hist, recs)})"
             for (cfg, hist), recs in zip(cases, recs_all)]
    model = core.coq_eval_sharded(PREAMBLE, terms, "fun x => x", RENDER, shard=60, jobs=12)
    # the same recorded data through C09's checked run: NaN pattern of every matrix = candidates in the model's
    # queues, answers valid / greedy runs (ties the queue bookkeeping, which the identity oracle cannot see)
    checked = core.coq_eval_sharded(cc.XPREAMBLE, [cc.xcase_term(cfg, hist, recs, fixes)
                                                   for (cfg, hist), recs in zip(cases, recs_all)],
                                    "(fun r : result => r)", "rresult", shard=60, jobs=12)
    queue_bad = xdis = room_bad = contract_bad = contract_n = 0
    for (cfg, hist), recs, (mres, _) in zip(cases, recs_all, checked):
        xout = [({"raises": o[1]} if o[0] == "raise" else [list(x) for x in o[1]]) for o, _, _ in mres]
        if xout != [cc.out_pairs(r) for r in recs]:
            xdis += 1
            if len(run.proof_broken) < 8:
                run.proof_broken.append(f"C10 scene: widened model {xout} != implementation "
                                        f"{[cc.out_pairs(r) for r in recs]}; case {json.dumps(cc.hist_json(cfg, hist))[:1200]}")
        for k, ((o, chk, cands), rec) in enumerate(zip(mres, recs)):
            nan_ok = chk[1] or bool(cfg.get("flow"))
            cands_ok = True
            if "cands" in rec:
                a, b = rec["cands"], cands
                if cfg.get("flow") and cfg["lq"]:
                    a, b = [sorted(x) for x in a], [sorted(x) for x in b]
                cands_ok = a == b
            if not (nan_ok and chk[2] and chk[3] and cands_ok) or chk[7]:
                queue_bad += 1
                if len(run.proof_broken) < 8:
                    run.proof_broken.append(f"C10 scene, frame {k}: nan_consistent={chk[1]} answer_valid={chk[2]} "
                                            f"greedy_run={chk[3]} candidates_equal={cands_ok} max_tracks_selector={chk[7]}; "
                                            f"case {json.dumps(cc.hist_json(cfg, hist))[:1200]}")
            # premises of c10x_identity_preserved_widened_any_fix evaluated inside Coq on the recorded call: room under the cap
            # (TrackerX.cap_roomb = c10x_room_is_checked; `sel_cap` above is constantly false once F4cap is repaired), the
            # answer is a one-to-one assignment (valid_ansb), and afd312c's branch is not taken (proved for in-class calls)
            v_ans, s_ivb, s_room = chk[10:13]
            if not (s_room and v_ans) or s_ivb:
                room_bad += 1
                if len(run.proof_broken) < 8:
                    run.proof_broken.append(f"C10 scene, frame {k}: cap_room={s_room} valid_ans={v_ans} iv_branch={s_ivb}; "
                                            f"case {json.dumps(cc.hist_json(cfg, hist))[:1200]}")
            if "scores" in rec and not cfg["greedy"] and ("answer" in rec or "answer_error" in rec):
                # the Hungarian CONTRACT (optimality) is a premise of every C10 theorem: brute force on every recorded answer
                # (matrices are at most 4 x 4)
                M = rec["scores"].tolist()
                contract_n += 1
                why = cc.hungarian_contract(M, len(hist[k]), rec["n_tracks_before"], rec, fixes["iii_hungarian"])
                if why:
                    contract_bad += 1
                    if len(run.proof_broken) < 8:
                        run.proof_broken.append(f"C10 scene, frame {k}: hungarian contract: {why}; "
                                                f"case {json.dumps(cc.hist_json(cfg, hist))[:1200]}")
    run.obligation("correspondence (widened model TrackerX.xrun, incl. max_tracks and the optical-flow tracker) on every scene",
                   xdis == 0, f"{xdis} disagreements")
    run.obligation("model-side checks on every recorded call of every scene: NaN pattern of the score matrix = "
                   "candidates the model's queues hold (no flow); the candidates given to get_scores are the model's; answers "
                   "valid; greedy answers are greedy runs; the max_tracks selector never fires (cap >= number of animals)",
                   queue_bad == 0, f"{queue_bad} calls")
    run.obligation("premises of c10x_identity_preserved_widened_any_fix evaluated INSIDE Coq on every recorded call of every "
                   "scene: room under the cap (TrackerX.cap_roomb), the answer is a one-to-one assignment (valid_ansb), the "
                   "branch added by afd312c is not taken", room_bad == 0, f"{room_bad} calls")
    run.obligation("Hungarian oracle contract (optimal finite assignment; premise `contract_step` of the C10 theorems) by "
                   "brute force on every recorded Hungarian answer of the scenes", contract_bad == 0 and contract_n > 0,
                   f"{contract_bad} of {contract_n} answers")
    check_geometry(run, cases, recs_all)
    st = run.coverage.setdefault("steps", {})

    def bump(k, n=1):
        st[k] = st.get(k, 0) + n
    disagree = premise_mismatch = 0
    for (cfg, hist), recs, (msteps, mowners) in zip(cases, recs_all, model):
        impl_out = [cc.out_pairs(r) for r in recs]
        model_out = [({"raises": o[1]} if o[0] == "raise" else [list(x) for x in o[1]]) for o, _ in msteps]
        same = impl_out == model_out
        # premise per call: model's evaluation vs Python's on the same recorded matrix
        own, why = {}, None
        prem_all = True
        bad = scene_oracle(hist, recs)
        first_bad = bad[0] if bad else len(hist)
        for k, (fr, rec) in enumerate(zip(hist, recs)):
            bump("calls")
            m = rec["n_tracks_before"]
            if "scores" in rec:
                bump("calls_with_matching")
                seen_all = set(own) <= {d["animal"] for d in fr}
                known_all = all(d["animal"] in own for d in fr)
                prem = (known_all or seen_all) and dominance_py(fr, rec["scores"].tolist(), own, m)
                if k <= first_bad:      # after a failing call the owners (and the premise relative to them) are meaningless
                    if cfg.get("flow"):
                        bump("flow_premise_holds" if prem else "flow_premise_fails")
                    else:
                        bump("premise_holds" if prem else "premise_fails")
                    prem_all = prem_all and prem
                if k < len(msteps) and msteps[k][1] != prem:
                    premise_mismatch += 1
                    why = why or f"frame {k}: premise model={msteps[k][1]} python={prem}"
            if "out" in rec:
                for i in rec["out"]:
                    if i.track is not None and int(i.track.name) >= m and i.animal not in own:
                        own[i.animal] = int(i.track.name)
        if "raises" not in recs[-1] and len(recs) == len(hist):
            if sorted(own.items()) != sorted((a, t) for a, t in mowners):
                same, why = False, why or f"owners differ: impl {sorted(own.items())} model {mowners}"
        if not same:
            disagree += 1
        failing = None
        if bad and cfg.get("flow") and not prem_all:
            bump("flow_scenes_outside_premise")     # optical flow did not deliver dominated scores: outside the class
            bad = None
        if bad:
            k, reason = bad
            sel = cc.selector_of(cfg, hist[k], recs[k], fixes)
            bump("oracle_fail_" + (sel or "unclassified"))
            run.violation("failing-input", {"case": cc.hist_json(cfg, hist), "frame": k, "oracle": reason,
                                            "impl": impl_out, "model": model_out, "premise_held": prem_all,
                                            "code_behaviour": fixes}, selector=sel)
            if sel is None:
                failing = reason
        else:
            bump("scenes_identity_preserved")
        if (not same or why) and not failing:
            msg = (f"correspondence C10: {why or 'outputs differ'}; impl {impl_out} model {model_out}; "
                   f"case {json.dumps(cc.hist_json(cfg, hist))[:1500]}")
            if len(run.proof_broken) < 8:
                run.proof_broken.append(msg)
            if disagree + premise_mismatch <= 3:
                run.log(msg[:800])
        run.case(cc.hist_json(cfg, hist), nontrivial=any("scores" in r for r in recs))
        bump("cfg_" + ("lq" if cfg["lq"] else "fw") + "/" + ("greedy" if cfg["greedy"] else "hungarian"))
        bump("feat_" + cfg["features"] + "+" + cfg["scoring"] + "/" + ("max" if cfg["red_max"] else "mean"))
        bump(f"window_{cfg['window']}")
        bump(f"animals_{len({d['animal'] for fr in hist for d in fr})}")
        bump("x_flow", int(bool(cfg.get("flow")))); bump("x_max_tracks", int(cfg.get("max_tracks") is not None))
    return disagree, premise_mismatch


# ---------------------------------------------------------------------------
# geometry tie (C10/Geometry.v): bboxes + iou.  The Coq score function `iou` / `gmatrix` (exact over Q) is evaluated
# on the boxes of the generated scenes — detections through /repo's get_bbox, candidates = the features the real
# tracker handed to its scoring function — and compared with /repo's compute_iou and with the matrix recorded from
# Tracker.get_scores.  Inputs are dyadic (k/8 px), so every box corner is exact in float64; compute_iou is about ten
# float64 operations and nanmean adds at most `window` terms: relative error below 40 * 2^-53 < 1e-14; tolerance 1e-12.
GEO_PREAMBLE = PREAMBLE + "From SV Require Import C10.Geometry.\n"
GEO_RENDER = "rtriple (rlist (rlist (ropt rQ))) rbool (rlist (rlist (rlist rQ)))"
GEO_TOL = F(1, 10 ** 12)


def _cbox(b):
    return "(" + ", ".join(core.cq(F(float(v))) + "%Q" for v in b) + ")"


def check_geometry(run, cases, recs_all):
    im = cc.impl()
    np = im["np"]
    from sleap_nn.tracking.utils import get_bbox, compute_iou
    terms, meta = [], []
    for (cfg, hist), recs in zip(cases, recs_all):
        if cfg["features"] != "bboxes" or cfg["scoring"] != "iou" or cfg.get("flow"):
            continue
        own = {}
        for k, (fr, rec) in enumerate(zip(hist, recs)):
            m = rec["n_tracks_before"]
            if "scores" in rec and "cand_feats" in rec and "insts" in rec:
                bs = [np.asarray(get_bbox(i), dtype=float) for i in rec["insts"]]
                C = rec["cand_feats"]
                tr = [own.get(i.animal) for i in rec["insts"]]
                term = ("(%s, [%s], [%s], [%s])" % (
                    "true" if cfg["red_max"] else "false",
                    "; ".join(_cbox(b) for b in bs),
                    "; ".join("[" + "; ".join(_cbox(c) for c in cl) + "]" for cl in C),
                    "; ".join("None" if t is None else f"(Some {t})" for t in tr)))
                terms.append(term)
                meta.append((cfg, hist, k, fr, rec, bs, C, dict(own), m))
            if "out" in rec:
                for i in rec["out"]:
                    if i.track is not None and int(i.track.name) >= m and i.animal not in own:
                        own[i.animal] = int(i.track.name)
    res = core.coq_eval_sharded(GEO_PREAMBLE, terms, "geo_run", GEO_RENDER, shard=60, jobs=12) if terms else []
    bad_matrix = bad_iou = prem_true = prem_false = prem_not_dominant = n_iou = 0

    def note(msg):
        if len(run.proof_broken) < 8:
            run.proof_broken.append(msg)
    for (cfg, hist, k, fr, rec, bs, C, own, m), (Mq, premb, ious) in zip(meta, res):
        M = rec["scores"]
        ok = len(Mq) == M.shape[0] and all(len(r) == M.shape[1] for r in Mq)
        if ok:
            for r, row in enumerate(Mq):
                for c, q in enumerate(row):
                    v = float(M[r][c])
                    if (q is None) != math.isnan(v) or (q is not None and abs(F(q[0], q[1]) - F(v)) > GEO_TOL):
                        ok = False
        if not ok:
            bad_matrix += 1
            note(f"C10 geometry, frame {k}: Geometry.gmatrix {Mq} != Tracker.get_scores {M.tolist()}; "
                 f"case {json.dumps(cc.hist_json(cfg, hist))[:1200]}")
        for b, per_track in zip(bs, ious):
            for cl, qs in zip(C, per_track):
                for c, q in zip(cl, qs):
                    n_iou += 1
                    v = float(compute_iou(b, c))
                    if abs(F(q[0], q[1]) - F(v)) > GEO_TOL:
                        bad_iou += 1
                        note(f"C10 geometry: Geometry.iou {q} != compute_iou({b.tolist()}, {c.tolist()}) = {v!r}")
        if premb:
            prem_true += 1
            if not dominance_py(fr, M.tolist(), own, m):
                prem_not_dominant += 1
                note(f"C10 geometry, frame {k}: box-level premise (Geometry.geo_premb) holds but the recorded matrix is not "
                     f"dominant; case {json.dumps(cc.hist_json(cfg, hist))[:1200]}")
        else:
            prem_false += 1
    run.coverage["geometry_bboxes_iou"] = {"calls": len(terms), "iou_pairs": n_iou, "box_premise_holds": prem_true,
                                           "box_premise_fails": prem_false}
    run.obligation("geometry model (C10/Geometry.v, bboxes + iou): the score matrix computed INSIDE Coq over Q "
                   "(Geometry.gmatrix: compute_iou, nanmean / nanmax, NaN for a track without candidate) from the detections' "
                   "boxes (/repo get_bbox) and the candidate features the real tracker scored == the matrix recorded from "
                   "Tracker.get_scores (1e-12), on every call of every non-flow bboxes+iou scene",
                   bad_matrix == 0 and len(terms) > 0, f"{bad_matrix} of {len(terms)} calls")
    run.obligation("geometry model: Geometry.iou == /repo compute_iou on every (detection box, candidate box) pair (1e-12)",
                   bad_iou == 0 and n_iou > 0, f"{bad_iou} of {n_iou} pairs")
    run.obligation("geometry premise on the evaluated path: the box-level premise of c10_geometry_gives_dominance (own boxes "
                   "overlap, other animals' boxes one pixel apart; Geometry.geo_premb, evaluated inside Coq) holds on the "
                   "generated bboxes+iou scenes, and wherever it holds the RECORDED matrix satisfies the dominance premise",
                   prem_true > 0 and prem_not_dominant == 0 and prem_false * 19 <= prem_true,
                   f"holds on {prem_true}, fails on {prem_false} calls; {prem_not_dominant} not dominant")


def check_two_trackers(run, cases, fixes):
    """Several real trackers alive in one process, the class-level `Tracker._track_objects` dict left shared as in the code,
    scenes interleaved frame by frame.  C10 speaks about one scene = one run of one tracker ("no other animal" = of that
    scene): every tracker must keep every identity of ITS scene exactly as it does alone.  That animals of different
    scenes then carry the same `sio.Track` object is recorded as a fact; it is outside the statement."""
    groups = [cases[i:i + 2] for i in range(0, len(cases) - 1, 2)]
    bad, shared, n = [], 0, 0
    for g in groups:
        recs, facts = cc.run_impl_interleaved(g)
        shared += facts["tracker_pairs_sharing_a_Track_object"]
        for (cfg, hist), rs in zip(g, recs):
            n += 1
            alone = cc.run_impl(cfg, hist)
            if [cc.out_pairs(r) for r in alone] != [cc.out_pairs(r) for r in rs]:
                bad.append(f"outputs differ from the isolated run; case {json.dumps(cc.hist_json(cfg, hist))[:800]}")
            elif scene_oracle(hist, rs) and not scene_oracle(hist, alone):
                bad.append(f"identity lost only when interleaved; case {json.dumps(cc.hist_json(cfg, hist))[:800]}")
    run.coverage["two_trackers_one_process"] = {"trackers": n, "tracker_pairs_sharing_a_Track_object": shared}
    for b in bad[:3]:
        run.proof_broken.append("several trackers in one process (shared class-level _track_objects): " + b)
    run.obligation("several Tracker instances alive in one process (class-level `_track_objects` shared, scenes interleaved): "
                   "every tracker returns exactly what it returns alone", not bad, f"{len(bad)} of {n} trackers")


def corpus_cases():
    out = []
    for fid, sel, fname in KNOWN:
        path = core.CORPUS / "C10" / fname
        if path.exists():
            out.append((fid, sel, cc.hist_from_json(json.load(open(path)))))
    return out


def check(run: core.Run) -> int:
    run.build_and_prove(PROP_FILES, extra_targets=["theories/C09/RenderT.vo"])
    cc.impl()
    rng = run.rng
    thorough = run.tier == "thorough"
    fixes, details = cc.detect_fixes()
    run.log(f"behaviour of the code under test on the F4 witnesses (True = repaired): {fixes}")
    run.coverage["code_behaviour"] = fixes

    cases = [c for _, _, c in corpus_cases()]
    n_scenes = 3000 if thorough else 240
    feats = cc.FEATURES + cc.FEATURES + [("keypoints", "euclidean_dist"), ("bboxes", "euclidean_dist")]
    combos = [(lq, gr, feat) for lq in (False, True) for gr in (False, True) for feat in feats]
    worst_step = 0.0
    i = 0
    while len(cases) < n_scenes + len(KNOWN):
        lq, gr, (feat, scoring) = combos[i % len(combos)]
        i += 1
        cfg = {"lq": lq, "greedy": gr, "window": rng.choice(WINDOWS), "red_max": rng.random() < 0.35,
               "threshold": rng.choice([F(0), F(1, 2)]), "features": feat, "scoring": scoring}
        if rng.random() < 0.25:
            cfg["flow"] = True                       # FlowShiftTracker on synthetic frames (blobs at the keypoints)
        hist, pres = scene(rng, cfg)
        if rng.random() < 0.35:                      # a cap that is never binding: identity must not depend on it
            cfg["max_tracks"] = len(pres[0]) + rng.randrange(0, 3)
        worst_step = max(worst_step, max_step(hist))
        cases.append((cfg, hist))
    disagree, premise_mismatch = evaluate(run, cases, fixes)
    check_two_trackers(run, [c for c in cases[len(KNOWN):] if not c[0].get("flow")][:24 if not thorough else 120], fixes)
    st = run.coverage["steps"]
    run.obligation("correspondence: Scene.run10 (Coq, vm_compute, fed with the recorded score matrices and matcher "
                   "answers) == Tracker.track (/repo) on every scene, incl. the animal -> track map", disagree == 0,
                   f"{disagree} disagreements")
    run.obligation("the dominance premise evaluated by the model (scene_step_ok) agrees with its evaluation on the "
                   "ground truth in Python on every recorded matrix", premise_mismatch == 0, f"{premise_mismatch}")
    held, failed = st.get("premise_holds", 0), st.get("premise_fails", 0)
    run.obligation("non-vacuity: the dominance premise holds on the recorded matrices of the generated in-class scenes",
                   held > 0 and failed == 0, f"holds on {held}, fails on {failed} calls")
    fh, ff = st.get("flow_premise_holds", 0), st.get("flow_premise_fails", 0)
    run.obligation("non-vacuity (optical-flow tracker): the dominance premise holds on at least 95 % of the recorded matrices "
                   "of the flow scenes (where Lucas-Kanade loses an animal the scene is outside the class)",
                   fh > 0 and ff * 19 <= fh, f"holds on {fh}, fails on {ff} calls")
    run.coverage.update({
        "exhaustive": False, "scenes": len(cases), "disagreements": disagree,
        "largest_step_px": round(worst_step, 3), "spacing_px": SPACING,
        "spacing_over_step": round(SPACING / worst_step, 1) if worst_step else None,
        "rule": "case = (tracker configuration, simulated scene); non-trivial = at least one call goes through scoring "
                "and matching; distinct by full content",
    })
    for c in (cases[0], cases[len(cases) // 2], cases[-1]):
        run.sample(cc.hist_json(*c))
    run.trusted += [
        "scipy linear_sum_assignment / numpy argsort enter through the recorded matcher answers (Hungarian contract brute-forced "
        "on every recorded answer here; greedy answers recognised exactly inside Coq)",
        "idealisation: each scene runs on a tracker whose `_track_objects` dict is its own; `check_two_trackers` runs pairs of "
        "trackers with the class-level dict shared as in the code",
        "feature extraction and scoring functions enter through the recorded score matrices; 'far apart compared with the "
        "motion' is represented by the dominance premise, which is measured on every recorded matrix; for bboxes + iou it is "
        "PROVED from the geometry (C10/Geometry.v) and the Coq score function is compared with compute_iou / get_scores "
        "on every non-flow scene (check_geometry); for oks / euclidean_dist and flow-shifted candidates it stays measured",
        "duck-typed instances stand for sleap_io.PredictedInstance",
    ]
    run.assumptions += ["home positions 64 px apart (1000 px in regime fast_small), instance extent 16 x 20 px, largest per-frame step and spacing/step measured per run (coverage.largest_step_px, spacing_over_step: about 11 px, 6 x), window in {1,2,3,5}",
                        "all instance scores above the new-track threshold",
                        "max_tracks = None or >= number of animals (room under the cap at every call: evaluated inside Coq, cap_roomb)",
                        "optical-flow scenes: no absences; judged only where the recorded scores satisfy the dominance premise"]
    return run.finish()


def replay(run: core.Run, path: str) -> int:
    cc.impl()
    rep = json.load(open(path))
    cfg, hist = cc.hist_from_json(rep["case"] if "case" in rep else rep)
    recs = cc.run_impl(cfg, hist)
    bad = scene_oracle(hist, recs)
    print(json.dumps({"impl": [cc.out_pairs(r) for r in recs], "oracle": bad}))
    return 1 if bad else 0
