"""C02 — single-instance and top-down inference return original-image coordinates.

Model:    coq/theories/C02/Decode.v (integer size bookkeeping, content maps, both decode chains)
Theorems: coq/theories/C02/Props.v
Tie:      the REAL predictor classes (SingleInstancePredictor / TopDownPredictor:
          make_pipeline, LabelsReader / VideoReader threads, _predict_generator,
          the inference nn.Modules, _make_labeled_frames_from_generator) are run
          on ramp frames with stub networks (harness/c02_stub.py) and fake
          labels / video sources; every output coordinate, value, network input
          shape and measured content map is compared with the Coq model.
Oracle:   the property statement itself: every visible keypoint within half an
          output-stride cell of the truth (per axis, original pixels), invisible
          ones NaN with value 0, labels-file answer == video answer.
"""
from __future__ import annotations

import json
import math
from fractions import Fraction as F

from .. import core
from .. import c02_stub as S
from .. import c02_co as CO
from .. import c02_gray as GR

PROP_FILES = [core.THEORIES / "C02" / "Props.v"]
PREAMBLE = ("From SV Require Import C02.Decode.\nFrom Coq Require Import List ZArith QArith.\n"
            "Import ListNotations.\nOpen Scope Q_scope.\n")
PREAMBLE_MB = ("From SV Require Import C02.Decode C02.CentroidOnly C02.MixedBatch.\nFrom Coq Require Import List ZArith QArith.\n"
               "Import ListNotations.\nOpen Scope Q_scope.\n")
SIGMA = F(3, 2)
THR = 0.2
LN_THR = F(-1609438, 1000000)           # ln 0.2
MU = F(1, 8)                            # general position: distance (cells) from the half-cell lattice
ATOL, RTOL = 2e-4, 3e-4                 # float32 coordinates
VTOL = 4e-3                             # confidence values (the stub places bumps to ~1e-4 px)
CM_TOL = 0.05                           # content map, px (antialiased non-integer downscaling wiggles by <= 0.05 px around the affine map; the fit averages most of it; the smallest bookkeeping offset, (s-1)/2 at s = 3/4, is 0.125 px)
SEL_F8 = "labels_provider_skips_preprocess"
SEL_F10 = "last_half_cell_band"
SEL_F11 = "resize_registration_offset"
SEL_F7 = "gt_centroid_crops_before_resize"
SEL_FZ = "zero_threshold_invisible_keypoint"
# peak_threshold of a case (key "thr", a string; absent = 0.2): float value and ln (None: threshold 0 has no logarithm,
# model flag si_thr0 / td_thr0).  0.0 is the constructor default of SingleInstanceInferenceModel / CentroidCrop /
# FindInstancePeaks; the predictor classes default to 0.2.
THRS = {"0.2": (0.2, LN_THR), "0.1": (0.1, F(-2302585, 1000000)), "0.0": (0.0, None)}
STATE = {"fixed_fz": False,             # does the tree mask an all-zero channel at threshold 0 (F02z repaired)?
         "fixed_f62": False}            # does SingleInstancePredictor skip a frame whose points are all NaN (C12 F62, fix 8463f22)?


def thr_float(c):
    return THRS[c.get("thr", "0.2")][0]


def ln_thr(c):
    return THRS[c.get("thr", "0.2")][1]


# ------------------------------------------------------------------ geometry mirror (generator only)
def frac(q):
    return q - math.floor(q)


def sizematch(H, W, mh, mw):
    mh2 = H if mh is None else mh
    mw2 = W if mw is None else mw
    if H == mh2 and W == mw2:
        return dict(h=H, w=W, th=H, tw=W, eff=F(1), resized=False)
    hr, wr = F(mh2, H), F(mw2, W)
    eff = wr if hr > wr else hr
    return dict(h=mh2, w=mw2, th=round(H * eff), tw=round(W * eff), eff=eff, resized=True)


def resize_map(n, m):
    r = F(m, n)
    return (r, (r - 1) / 2)


def then(m1, m2):
    return (m2[0] * m1[0], m2[0] * m1[1] + m2[1])


def app(m, x):
    return m[0] * x + m[1]


def pad(n, ms):
    return n + (ms - n % ms) % ms if ms > 1 else n


def rdim(n, s):
    return math.floor(n * s)


def ncells(n, os_):
    return -(-n // os_)


def tie_margin(u, os_):
    f = frac(u / os_ - F(1, 2))
    return min(f, 1 - f)


def nearest(u, os_, n):
    return max(0, min(n - 1, math.ceil(u / os_ - F(1, 2))))


def si_axis(pre, n0, nm, nt, resized, s, ms):
    a0 = resize_map(n0, nt) if resized else (F(1), F(0))
    if not pre:
        return a0, nm
    if s != 1:
        a0, nm = then(a0, resize_map(nm, rdim(nm, s))), rdim(nm, s)
    return a0, pad(nm, ms)


def crop_hw(c):
    """(crop height, crop width) of a case; `crop` is an int (square) or [height, width]."""
    cr = c["crop"]
    return (cr, cr) if isinstance(cr, int) else (int(cr[0]), int(cr[1]))


def is_mixed(c):
    return "sizes" in c


def fsize(c, fid):
    """(H, W) of frame `fid`: the size of the video it lives in (cases with `sizes`/`vid`: several videos
    of DIFFERENT frame sizes in one labels file), else the case's single size."""
    if is_mixed(c):
        h, w = c["sizes"][c["vid"][fid]]
        return int(h), int(w)
    return c["H"], c["W"]


def fview(c, fid):
    """The case as seen by frame `fid`: same configuration, the frame's own H and W."""
    if not is_mixed(c):
        return c
    h, w = fsize(c, fid)
    v = dict(c)
    v["H"], v["W"] = h, w
    return v


def config_ok(H, W, mh, mw, scales):
    g = sizematch(H, W, mh, mw)
    if g["resized"]:
        for n in (H, W):
            if abs(frac(n * g["eff"]) - F(1, 2)) < F(1, 1000):      # float round() could differ from exact
                return False
        if g["th"] < 8 or g["tw"] < 8 or g["th"] > g["h"] or g["tw"] > g["w"]:
            return False
    for s in scales:
        if rdim(g["h"], s) < 8 or rdim(g["w"], s) < 8:
            return False
    return True


# ------------------------------------------------------------------ generation
def gen_sizes(rng):
    while True:
        H = rng.randint(32, 160)
        W = rng.randint(max(32, H // 2), min(160, 2 * H))
        v = rng.choice(["none", "none", "equal", "larger", "smaller", "aspect", "one"])
        if v == "none":
            mh = mw = None
        elif v == "equal":
            mh, mw = H, W
        elif v == "larger":
            mh, mw = H + rng.randint(1, 64), W + rng.randint(1, 64)
        elif v == "smaller":
            mh, mw = max(24, H - rng.randint(1, 40)), max(24, W - rng.randint(1, 40))
        elif v == "aspect":
            mh, mw = rng.randint(32, 192), rng.randint(32, 192)
        else:
            mh, mw = (H + rng.randint(0, 48), None) if rng.random() < 0.5 else (None, W + rng.randint(0, 48))
        return H, W, mh, mw, v


def gen_mixed_sizes(rng, min_side=32):
    """(max_height, max_width) and 2-3 videos of DIFFERENT frame sizes (smaller, larger, other aspect ratio,
    equal to the maximum, exact multiples); the first two have eff_scales that differ by >= 15 %."""
    for _ in range(2000):
        mh, mw = rng.randint(max(40, min_side), 176), rng.randint(max(40, min_side), 176)
        n = rng.choice([2, 2, 3])
        sizes = []
        for _ in range(n):
            v = rng.choice(["equal", "any", "any", "any", "scaled"])
            if v == "equal":
                H, W = mh, mw
            elif v == "scaled":
                k = rng.choice([F(1, 2), F(2, 3), F(3, 2), F(2)])
                H, W = int(mh * k), int(mw * k)
            else:
                H = rng.randint(min_side, 160)
                W = rng.randint(max(min_side, H // 2), min(160, 2 * H))
            sizes.append((H, W))
        if any(not (min_side <= h <= 200 and min_side <= w <= 200) for h, w in sizes) or len(set(sizes)) != n:
            continue
        effs = [sizematch(h, w, mh, mw)["eff"] for h, w in sizes]
        if abs(effs[0] / effs[1] - 1) < F(15, 100):
            continue
        return mh, mw, sizes
    raise RuntimeError("generator could not choose mixed video sizes")


def frame_videos(rng, n_frames, n_videos):
    """video of each frame: frames 0 and 1 (always in one batch: batch size >= 2) come from the two videos
    whose eff_scales differ; the rest at random"""
    return [0, 1][:n_frames] + [rng.randrange(n_videos) for _ in range(max(0, n_frames - 2))]


def gen_single(rng, idx, band=False, mixed=False):
    for _ in range(300):
        if mixed:
            mh, mw, sizes = gen_mixed_sizes(rng)
            variant = "mixed"
            H, W = sizes[0]
        else:
            H, W, mh, mw, variant = gen_sizes(rng)
            sizes = [(H, W)]
        scale = rng.choice([F(1, 2), F(3, 4), F(1)])
        ms = rng.choice([1, 8, 16])
        os_ = 4 if band else rng.choice([1, 2, 4])
        if band:
            ms = 1
        if not all(config_ok(h, w, mh, mw, [scale]) for h, w in sizes):
            continue
        refinement = None if band else rng.choice([None, None, "integral"])
        n_frames = rng.randint(2, 5) if mixed else rng.randint(1, 5)
        n_nodes = rng.randint(1, 4)
        vid = frame_videos(rng, n_frames, len(sizes)) if mixed else [0] * n_frames
        geoms_of = []
        for (h, w) in sizes:
            g = sizematch(h, w, mh, mw)
            geoms_of.append([(si_axis(pre, w, g["w"], g["tw"], g["resized"], scale, ms),
                              si_axis(pre, h, g["h"], g["th"], g["resized"], scale, ms)) for pre in (True, False)])

        def coord(axis, n_orig, geoms):
            for _ in range(400):
                if band:
                    x = F(rng.randrange(8 * (n_orig - 3), 8 * (n_orig - 1) + 1), 8)
                else:
                    x = F(rng.randrange(8 * 2, 8 * (n_orig - 3) + 1), 8)
                ok = True
                inband = False
                for gm in geoms:
                    a, n = gm[axis]
                    u = app(a, x)
                    nc = ncells(n, os_)
                    if tie_margin(u, os_) < MU:
                        ok = False
                        break
                    if u / os_ > nc - 1 + F(1, 2):
                        inband = True
                    if refinement and not (2 <= nearest(u, os_, nc) <= nc - 3):
                        ok = False
                        break
                if ok and (inband == band or (band and axis == 1)):
                    return x
            return None

        frames = []
        good = True
        for f in range(n_frames):
            h, w = sizes[vid[f]]
            geoms = geoms_of[vid[f]]
            must = mixed and f < 2                   # the two frames that share a batch and differ in eff_scale
            if rng.random() < 0.08 and not band and not must:
                frames.append([])                      # a frame with nothing in it
                continue
            kps = []
            for _ in range(n_nodes):
                if rng.random() < 0.25 and not band and not (must and not kps):
                    kps.append(None)
                    continue
                x, y = coord(0, w, geoms), coord(1, h, geoms)
                if x is None or y is None:
                    good = False
                    break
                kps.append((x, y))
            if not good:
                break
            frames.append([{"kps": kps, "cent": (F(w, 2), F(h, 2))}])
        if not good:
            continue
        c = {"kind": "single", "idx": idx, "H": H, "W": W, "mh": mh, "mw": mw, "variant": variant,
             "scale": scale, "ms": ms, "os": os_, "refinement": refinement,
             "batch": rng.randint(2, 4) if mixed else rng.randint(1, 4),
             "n_nodes": n_nodes, "frames": frames, "band": band, "n_videos": rng.choice([1, 1, 2])}
        if mixed:
            c["sizes"], c["vid"], c["n_videos"] = [list(x) for x in sizes], vid, len(sizes)
        return c
    raise RuntimeError("generator could not place a single-instance case")


def td_geom(c):
    """geometry of ONE frame size (c["H"], c["W"]): pass fview(case, fid) for cases with several video sizes"""
    g = sizematch(c["H"], c["W"], c["mh"], c["mw"])
    ch, cw = crop_hw(c)
    out = {"eff": g["eff"]}
    for ax, n0, nm, nt, crop in (("x", c["W"], g["w"], g["tw"], cw), ("y", c["H"], g["h"], g["th"], ch)):
        a0 = resize_map(n0, nt) if g["resized"] else (F(1), F(0))
        out["c" + ax] = (then(a0, resize_map(nm, rdim(nm, c["scale_c"]))), pad(rdim(nm, c["scale_c"]), c["ms_c"]))
        out["p" + ax] = then(a0, resize_map(nm, rdim(nm, c["scale_i"])))
        out["np" + ax] = rdim(nm, c["scale_i"])
        out["ni" + ax] = pad(crop, c["ms_i"])
    return out


CROPS = [32, 48, 64, [32, 48], [48, 32], [32, 64], [64, 32], [48, 64], [64, 48]]      # int = square, else [height, width]


def td_place_params(fc):
    """Placement parameters of a top-down configuration for ONE frame size; None when the crop leaves no room."""
    g = td_geom(fc)
    eff = g["eff"]
    k = fc["scale_i"] * eff
    osc, osi = fc["os_c"], fc["os_i"]
    ch, cw = crop_hw(fc)
    quant = F(osc, 1) / fc["scale_c"] * fc["scale_i"]          # centroid quantisation in crop pixels (one cell)
    reach_px = [F(n, 2) - quant - 2 * osi - 3 for n in (cw, ch)]   # crop pixels available around the centre, per axis
    if fc["refinement"]:
        reach_px = [r - 2 * osi for r in reach_px]
    if min(reach_px) < 3:
        return None
    return {"g": g, "eff": eff, "reach": [r / k for r in reach_px],            # original pixels, (x, y)
            "sep": 4 * osc / (fc["scale_c"] * eff) + 2}                        # >= 4 centroid cells apart (Chebyshev)


def gen_td_animals(rng, fc, pp, n_an):
    """`n_an` animals (fewer when they cannot be placed) of one frame of size (fc["H"], fc["W"])."""
    H, W = fc["H"], fc["W"]
    g, eff, reach, sep = pp["g"], pp["eff"], pp["reach"], pp["sep"]
    osc, osi = fc["os_c"], fc["os_i"]
    ch, cw = crop_hw(fc)
    animals = []
    for _ in range(n_an):
        placed = None
        for _ in range(200):
            border = 3 + (3 * osc / (fc["scale_c"] * eff) if fc["refinement"] else 0)
            lo_x, hi_x = math.ceil(border), math.floor(W - 1 - border)
            lo_y, hi_y = math.ceil(border), math.floor(H - 1 - border)
            if lo_x >= hi_x or lo_y >= hi_y:
                break
            cx = F(rng.randrange(8 * lo_x, 8 * hi_x + 1), 8)
            cy = F(rng.randrange(8 * lo_y, 8 * hi_y + 1), 8)
            ux, uy = app(g["cx"][0], cx), app(g["cy"][0], cy)
            if tie_margin(ux, osc) < MU or tie_margin(uy, osc) < MU:
                continue
            if ux / osc > ncells(g["cx"][1], osc) - 1 + F(1, 2) or uy / osc > ncells(g["cy"][1], osc) - 1 + F(1, 2):
                continue
            if any(max(abs(cx - a["cent"][0]), abs(cy - a["cent"][1])) < sep for a in animals):
                continue
            placed = (cx, cy)
            break
        if placed is None:
            continue
        cx, cy = placed
        # crop corner the code will use when refinement is off
        cellx = nearest(app(g["cx"][0], cx), osc, ncells(g["cx"][1], osc))
        celly = nearest(app(g["cy"][0], cy), osc, ncells(g["cy"][1], osc))
        tlx = cellx * osc / fc["scale_c"] * fc["scale_i"] - F(cw, 2) + F(1, 2)
        tly = celly * osc / fc["scale_c"] * fc["scale_i"] - F(ch, 2) + F(1, 2)
        kps = []
        for _ in range(fc["n_nodes"]):
            if rng.random() < 0.25:
                kps.append(None)
                continue
            pt = None
            for _ in range(300):
                rx, ry = min(reach[0], F(40)), min(reach[1], F(40))
                x = cx + F(rng.randrange(-int(8 * rx), int(8 * rx) + 1), 8)
                y = cy + F(rng.randrange(-int(8 * ry), int(8 * ry) + 1), 8)
                if not (2 <= x <= W - 3 and 2 <= y <= H - 3):
                    continue
                vx, vy = app(g["px"], x) - tlx, app(g["py"], y) - tly
                if fc["refinement"] is None and (tie_margin(vx, osi) < MU or tie_margin(vy, osi) < MU):
                    continue
                lo = 2 * osi if fc["refinement"] else 1
                if not (lo <= vx <= cw - 1 - lo - osi and lo <= vy <= ch - 1 - lo - osi):
                    continue
                pt = (x, y)
                break
            kps.append(pt)
        animals.append({"kps": kps, "cent": (cx, cy)})
    return animals


def gen_topdown(rng, idx, mixed=False):
    for _ in range(400):
        if mixed:
            mh, mw, sizes = gen_mixed_sizes(rng, 48)
            variant = "mixed"
            H, W = sizes[0]
        else:
            H, W, mh, mw, variant = gen_sizes(rng)
            sizes = [(H, W)]
        if min(min(x) for x in sizes) < 48:
            continue
        c = {"kind": "topdown", "idx": idx, "H": H, "W": W, "mh": mh, "mw": mw, "variant": variant,
             "scale_c": rng.choice([F(1, 2), F(3, 4), F(1)]), "scale_i": rng.choice([F(1, 2), F(3, 4), F(1)]),
             "ms_c": rng.choice([1, 8, 16]), "ms_i": rng.choice([1, 8, 16]),
             "os_c": rng.choice([1, 2, 4]), "os_i": rng.choice([1, 2, 4]), "crop": rng.choice(CROPS),
             "refinement": rng.choice([None, None, "integral"]),
             "batch": rng.randint(2, 4) if mixed else rng.randint(1, 4),
             "n_nodes": rng.randint(1, 4), "band": False, "n_videos": rng.choice([1, 1, 2])}
        if not all(config_ok(h, w, mh, mw, [c["scale_c"], c["scale_i"]]) for h, w in sizes):
            continue
        n_frames = rng.randint(2, 5) if mixed else rng.randint(1, 5)
        if mixed:
            c["sizes"], c["vid"], c["n_videos"] = [list(x) for x in sizes], frame_videos(rng, n_frames, len(sizes)), len(sizes)
        pps = [td_place_params(dict(c, H=h, W=w)) for h, w in sizes]
        if any(pp is None for pp in pps):
            continue
        frames = []
        for f in range(n_frames):
            v = c["vid"][f] if mixed else 0
            n_an = rng.choice([0, 1, 1, 2, 2, 3, 4])
            if mixed and f < 2:
                n_an = max(1, n_an)
            frames.append(gen_td_animals(rng, dict(c, H=sizes[v][0], W=sizes[v][1]), pps[v], n_an))
        if sum(len(a) for a in frames) == 0 or (mixed and (not frames[0] or not frames[1])):
            continue
        c["frames"] = frames
        return c
    raise RuntimeError("generator could not place a top-down case")


def bbox_mid(kps):
    vis = [p for p in kps if p is not None]
    xs, ys = [p[0] for p in vis], [p[1] for p in vis]
    return ((min(xs) + max(xs)) / 2, (min(ys) + max(ys)) / 2)


def gen_gt_animals(rng, fc, n_an):
    """Animals of one frame (size fc["H"], fc["W"]) for the ground-truth-centroid leg, one per image quadrant;
    None when the configuration leaves no room."""
    H, W = fc["H"], fc["W"]
    g = td_geom(fc)
    sm = sizematch(H, W, fc["mh"], fc["mw"])
    eff, si, osi = g["eff"], fc["scale_i"], fc["os_i"]
    ch, cw = crop_hw(fc)
    a0 = {"x": resize_map(W, sm["tw"]) if sm["resized"] else (F(1), F(0)),
          "y": resize_map(H, sm["th"]) if sm["resized"] else (F(1), F(0))}
    # keypoints must stay inside the crop both as pinned (crop cut from the un-resized image) and repaired
    reach = [(F(n, 2) - 2 * osi - 3) / eff for n in (cw, ch)]
    if min(reach) < 3:
        return None
    quads = [(i, j) for i in range(2) for j in range(2)]
    animals = []
    for (qi, qj) in rng.sample(quads, n_an):
        for _ in range(300):
            rx = min(reach[0], F(W, 4) - 3, F(30))
            ry = min(reach[1], F(H, 4) - 3, F(30))
            if rx < 2 or ry < 2:
                break
            cx = F(rng.randrange(8 * int(qj * W // 2 + rx + 2), 8 * int((qj + 1) * W // 2 - rx - 2) + 1), 8)
            cy = F(rng.randrange(8 * int(qi * H // 2 + ry + 2), 8 * int((qi + 1) * H // 2 - ry - 2) + 1), 8)
            kps = [None if rng.random() < 0.2 else
                   (cx + F(rng.randrange(-int(8 * rx), int(8 * rx) + 1), 8), cy + F(rng.randrange(-int(8 * ry), int(8 * ry) + 1), 8))
                   for _ in range(fc["n_nodes"])]
            if all(p is None for p in kps):
                continue
            mid = bbox_mid(kps)
            ok = True
            for fixed in (False, True):
                for ax, n_crop in ((0, cw), (1, ch)):
                    key = "xy"[ax]
                    amap = g["p" + key] if fixed else a0[key]
                    tl = (mid[ax] * eff * si if fixed else mid[ax] * eff) - F(n_crop, 2) + F(1, 2)
                    for p in kps:
                        if p is None:
                            continue
                        v = app(amap, p[ax]) - tl
                        if tie_margin(v, osi) < MU or not (1 <= v <= n_crop - 2 - osi):
                            ok = False
            if ok:
                animals.append({"kps": kps, "cent": mid})
                break
    return animals


def gen_topdown_gt(rng, idx, mixed=False):
    """Top-down with ground-truth centroids (centroid model = None; LabelsReader only)."""
    for _ in range(400):
        if mixed:
            mh, mw, sizes = gen_mixed_sizes(rng, 64)
            variant = "mixed"
            H, W = sizes[0]
        else:
            H, W, mh, mw, variant = gen_sizes(rng)
            sizes = [(H, W)]
        if min(min(x) for x in sizes) < 64:
            continue
        c = {"kind": "topdown_gt", "idx": idx, "H": H, "W": W, "mh": mh, "mw": mw, "variant": variant,
             "scale_c": F(1), "scale_i": rng.choice([F(1, 2), F(3, 4), F(1), F(1)]), "ms_c": 1,
             "ms_i": rng.choice([1, 8, 16]), "os_c": 1, "os_i": rng.choice([1, 2, 4]), "crop": rng.choice(CROPS),
             "refinement": None, "batch": rng.randint(2, 3) if mixed else rng.randint(1, 3),
             "n_nodes": rng.randint(1, 4), "band": False, "n_videos": rng.choice([1, 2])}
        if not all(config_ok(h, w, mh, mw, [c["scale_i"]]) for h, w in sizes):
            continue
        n_frames = rng.randint(2, 4) if mixed else rng.randint(1, 4)
        if mixed:
            c["sizes"], c["vid"], c["n_videos"] = [list(x) for x in sizes], frame_videos(rng, n_frames, len(sizes)), len(sizes)
        frames = []
        for f in range(n_frames):
            v = c["vid"][f] if mixed else 0
            animals = gen_gt_animals(rng, dict(c, H=sizes[v][0], W=sizes[v][1]), rng.randint(1, 3))
            if not animals:
                break
            frames.append(animals)
        if len(frames) < (2 if mixed else 1):
            continue
        if mixed:
            c["vid"] = c["vid"][:len(frames)]
        c["frames"] = frames
        return c
    raise RuntimeError("generator could not place a ground-truth-centroid case")


# ------------------------------------------------------------------ (de)serialisation
def fr_s(x):
    return None if x is None else str(x)


def case_json(c):
    j = {k: v for k, v in c.items() if k != "frames"}
    for k in ("scale", "scale_c", "scale_i"):
        if k in j:
            j[k] = str(j[k])
    j["frames"] = [[{"cent": [str(a["cent"][0]), str(a["cent"][1])],
                     "kps": [None if p is None else [str(p[0]), str(p[1])] for p in a["kps"]]}
                    for a in fr] for fr in c["frames"]]
    return j


def case_from_json(j):
    c = dict(j)
    for k in ("scale", "scale_c", "scale_i"):
        if k in c:
            c[k] = F(c[k])
    c["frames"] = [[{"cent": (F(a["cent"][0]), F(a["cent"][1])),
                     "kps": [None if p is None else (F(p[0]), F(p[1])) for p in a["kps"]]}
                    for a in fr] for fr in j["frames"]]
    return c


# ------------------------------------------------------------------ Coq terms
def ckp(p):
    return "None" if p is None else f"(Some ({core.cq(p[0])}, {core.cq(p[1])}))"


def coz(v):
    return "None" if v is None else f"(Some {core.cz(v)})"


def si_cfg_term(c, fixed):
    return ("{| si_H := %s; si_W := %s; si_mh := %s; si_mw := %s; si_scale := %s; si_ms := %s; si_os := %s; "
            "si_sigma := %s; si_lthr := %s; si_fixed_F8 := %s; si_thr0 := %s; si_fixed_Fz := %s |}" % (
                core.cz(c["H"]), core.cz(c["W"]), coz(c["mh"]), coz(c["mw"]), core.cq(c["scale"]),
                core.cz(c["ms"]), core.cz(c["os"]), core.cq(SIGMA), core.cq(ln_thr(c) or F(0)), core.cbool(fixed),
                core.cbool(ln_thr(c) is None), core.cbool(STATE["fixed_fz"])))


def td_cfg_term(c):
    return ("{| td_H := %s; td_W := %s; td_mh := %s; td_mw := %s; td_sc := %s; td_si := %s; td_msc := %s; "
            "td_msi := %s; td_osc := %s; td_osi := %s; td_ch := %s; td_cw := %s; td_sigma := %s; td_lthr := %s; "
            "td_thr0 := %s; td_fixed_Fz := %s |}" % (
                core.cz(c["H"]), core.cz(c["W"]), coz(c["mh"]), coz(c["mw"]), core.cq(c["scale_c"]),
                core.cq(c["scale_i"]), core.cz(c["ms_c"]), core.cz(c["ms_i"]), core.cz(c["os_c"]),
                core.cz(c["os_i"]), core.cz(crop_hw(c)[0]), core.cz(crop_hw(c)[1]), core.cq(SIGMA),
                core.cq(ln_thr(c) or F(0)), core.cbool(ln_thr(c) is None), core.cbool(STATE["fixed_fz"])))


def batches_of(c, prov):
    """The batches _predict_generator assembles: chunks of `batch` frames in reading order.  LabelsReader reads all
    the frames of the labels file (the batches MIX the video sizes); the VideoReader leg reads every video on its own."""
    fids = list(range(len(c["frames"])))
    if prov == "VideoReader" and is_mixed(c):
        streams = [[f for f in fids if c["vid"][f] == v] for v in sorted(set(c["vid"]))]
    else:
        streams = [fids]
    return [st[i:i + c["batch"]] for st in streams for i in range(0, len(st), c["batch"])]


def sframe_term(c, fid, kps):
    h, w = fsize(c, fid)
    return "{| sf_H := %s; sf_W := %s; sf_kps := %s |}" % (core.cz(h), core.cz(w), core.clist(kps, ckp))


def tframe_term(c, fid, animals):
    h, w = fsize(c, fid)
    return "{| tf_H := %s; tf_W := %s; tf_animals := %s |}" % (core.cz(h), core.cz(w), core.clist(animals, animal_term))


def gframe_term(c, fid, animals):
    h, w = fsize(c, fid)
    return "{| gf_H := %s; gf_W := %s; gf_insts := %s |}" % (
        core.cz(h), core.cz(w), core.clist([a["kps"] for a in animals], lambda k: core.clist(k, ckp)))


def animal_term(a):
    return "{| an_cent := (%s, %s); an_kps := %s |}" % (core.cq(a["cent"][0]), core.cq(a["cent"][1]),
                                                        core.clist(a["kps"], ckp))


# ------------------------------------------------------------------ running the implementation
def build_scene(c):
    sc = S.Scene(c["n_nodes"])
    for f, animals in enumerate(c["frames"]):
        h, w = fsize(c, f)
        sc.add(f, h, w, animals)
    return sc


def build_predictor(c, mods, sc):
    if c["kind"] == "single":
        cfg = dict(os=c["os"], scale=float(c["scale"]), max_stride=c["ms"], max_h=c["mh"], max_w=c["mw"],
                   batch=c["batch"], refinement=c["refinement"], peak_threshold=thr_float(c))
        pred, stub = S.build_single_predictor(mods, sc, cfg)
        return pred, {"single": stub}
    if c["kind"] == "topdown_gt":
        cfg = dict(os_i=c["os_i"], scale_i=float(c["scale_i"]), ms_i=c["ms_i"], max_h=c["mh"], max_w=c["mw"],
                   crop=c["crop"], batch=c["batch"], refinement=c["refinement"], peak_threshold=thr_float(c))
        pred, si_ = S.build_topdown_gt_predictor(mods, sc, cfg)
        return pred, {"centroid": type("E", (), {"log": []})(), "instance": si_}
    cfg = dict(os_c=c["os_c"], os_i=c["os_i"], scale_c=float(c["scale_c"]), scale_i=float(c["scale_i"]),
               ms_c=c["ms_c"], ms_i=c["ms_i"], max_h=c["mh"], max_w=c["mw"], crop=c["crop"], batch=c["batch"],
               refinement=c["refinement"], max_instances=None, peak_threshold=thr_float(c))
    pred, sc_, si_ = S.build_topdown_predictor(mods, sc, cfg)
    return pred, {"centroid": sc_, "instance": si_}


def run_impl(c, mods, provider):
    """One case through the real predictor with one provider.  A labels file holds all the frames (several
    videos, of different frame sizes when the case has `sizes`: batches then MIX the sizes); a video holds
    frames of one size, so with `sizes` the VideoReader leg reads each video of the labels file in its own run."""
    sc = build_scene(c)
    fids = list(range(len(c["frames"])))
    mixed = is_mixed(c)
    if provider == "LabelsReader":
        video, labels, where = S.make_sources(sc, fids, c.get("n_videos", 1), c["vid"] if mixed else None)
        groups = [(None, labels, {w: f for f, w in zip(fids, where)})]
    elif not mixed:
        video, labels, where = S.make_sources(sc, fids, 1)
        groups = [(video, None, {(0, f): f for f in fids})]
    else:
        groups = []
        for v in sorted(set(c["vid"])):
            sub = [f for f in fids if c["vid"][f] == v]
            video, _, _ = S.make_sources(sc, sub, 1)
            groups.append((video, None, {(0, k): f for k, f in enumerate(sub)}))
    per_frame, order, raws, flags = {}, [], [], None
    logs = {}
    for video, labels, back in groups:
        pred, stubs = build_predictor(c, mods, sc)
        frames, raw, flags = S.run_predictor(pred, provider, video, labels)
        for ex in raw:                                  # which frame every entry of the raw dictionary belongs to
            vi, fi = ex.get("video_idx"), ex.get("frame_idx")
            if vi is not None and fi is not None:
                import numpy as np
                ex["_fids"] = [back.get((int(a), int(b))) for a, b in zip(np.asarray(vi).ravel().tolist(),
                                                                         np.asarray(fi).ravel().tolist())]
        raws += raw
        for vi, fi, insts in frames:
            fid = back.get((vi, fi))
            order.append(fid)
            per_frame.setdefault(fid, []).extend(insts)
        for k, v in stubs.items():
            logs.setdefault(k, []).extend(v.log)
    return {"per_frame": per_frame, "order": order, "raw": raws, "flags": flags, "logs": logs}


# ------------------------------------------------------------------ the property, executable
def close(a, b, scale=1.0):
    return abs(a - b) <= ATOL + RTOL * max(abs(b), scale)


def oracle_point(pred_xy, val, true_p, half, reg, ctx):
    """One keypoint.  Returns None | (reason, selector or None).
    half: (hx, hy) half cell in original pixels; reg: (rx, ry) registration term or None."""
    px, py = float(pred_xy[0]), float(pred_xy[1])
    if true_p is None:
        if not (math.isnan(px) and math.isnan(py)):
            # selector of F02z: peak_threshold = 0 (not positive), no refinement, the tree does not mask all-zero channels
            return (f"invisible keypoint reported at ({px}, {py})" + (" with peak_threshold 0" if ctx.get("zero_thr") else ""),
                    SEL_FZ if ctx.get("zero_thr") else None)
        if val != 0:
            return (f"invisible keypoint has value {val}, not 0", None)
        return None
    if math.isnan(px) or math.isnan(py):
        return ("visible keypoint reported as NaN", ctx.get("nan_selector"))
    worst = None
    for ax, (p, t, h, r) in enumerate(zip((px, py), true_p, half, reg or (None, None))):
        err = abs(p - float(t))
        tol = ATOL + RTOL * abs(float(t))
        if err <= h + tol:
            continue
        msg = f"axis {'xy'[ax]}: |{p} - {float(t)}| = {err:.5f} > half cell {h:.5f}"
        if ctx.get("override"):
            sel = ctx["override"]
        elif ctx.get("band") and ctx["band"][ax]:
            sel = SEL_F10
        elif r is not None and r > 1e-6 and err <= h + r + tol + 2e-3:
            sel = SEL_F11
            msg += f" (<= half cell + registration term {r:.5f})"
        else:
            sel = None
        if worst is None or sel is None:
            worst = (msg, sel)
    return worst


def in_last_band(jx, jy, shape, os_):
    """Selector of F10, per axis: the keypoint sits (in the network input it was
    decoded from) beyond the last grid sample by more than half a cell."""
    h, w = shape
    return (jx > (-(-w // os_) - 1) * os_ + os_ / 2, jy > (-(-h // os_) - 1) * os_ + os_ / 2)


def match_instances(preds, animals):
    """Order-insensitive optimal assignment of predicted instances to
    ground-truth animals (cost: per-node distance, a NaN-pattern mismatch costs
    more than any distance)."""
    import numpy as np
    from scipy.optimize import linear_sum_assignment
    if not preds or not animals:
        return {}
    cost = np.zeros((len(animals), len(preds)))
    for j, a in enumerate(animals):
        for i, (pts, _, _) in enumerate(preds):
            for k, p in enumerate(a["kps"]):
                nan = bool(np.isnan(pts[k][0]))
                if (p is None) != nan:
                    cost[j, i] += 1e3
                elif p is not None:
                    cost[j, i] += min(50.0, math.hypot(pts[k][0] - float(p[0]), pts[k][1] - float(p[1])))
    rows, cols = linear_sum_assignment(cost)
    return {int(j): int(i) for j, i in zip(rows, cols)}


def eff_of(c, fid=None):
    """eff_scale of a frame of the case (its OWN size: pass the frame id for cases with several video sizes)"""
    if fid is not None:
        c = fview(c, fid)
    mh = c["H"] if c["mh"] is None else c["mh"]
    mw = c["W"] if c["mw"] is None else c["mw"]
    return 1.0 if (mh == c["H"] and mw == c["W"]) else min(mh / c["H"], mw / c["W"])


def oracle_case(c, res, provider, fixed_f8, fixed_f7=False):
    """The property on one provider's output.  Returns list of (reason, selector, where)."""
    fails = []
    single = c["kind"] == "single"
    s = float(c["scale"] if single else c["scale_i"])
    os_ = c["os"] if single else c["os_i"]
    f8 = single and provider == "LabelsReader" and c["scale"] != 1 and not fixed_f8
    f7 = c["kind"] == "topdown_gt" and c["scale_i"] != 1 and not fixed_f7
    logs = res["logs"]["single" if single else "instance"]
    # F02z selector (mirrors thr_masks_zero of Lemmas.v, negated): threshold not positive, refinement None, tree not repaired
    zero_thr = thr_float(c) <= 0 and c["refinement"] is None and not STATE["fixed_fz"]
    for fid, animals in enumerate(c["frames"]):
        eff = eff_of(c, fid)                      # the frame's own size-matching scale
        half = os_ / (2 * s * eff)                # half an output-stride cell in ORIGINAL pixels of this frame
        preds = res["per_frame"].get(fid, [])
        vis_animals = [a for a in animals if any(p is not None for p in a["kps"])]
        if single:
            a = animals[0] if animals else {"kps": [None] * c["n_nodes"]}
            # a frame without any visible keypoint: C02 has no keypoint to speak about; the number of instances follows
            # the variant the tree has (C12 F62: one all-NaN instance before fix 8463f22, no instance after) — exactly.
            # (With threshold 0, no refinement, F02z open, the invisible nodes come back as points: one instance.)
            nothing = all(p is None for p in a["kps"]) and not zero_thr
            want = 0 if (nothing and STATE["fixed_f62"]) else 1
            if len(preds) != want:
                fails.append((f"frame {fid}: {len(preds)} instances returned by the single-instance model, expected {want}"
                              + (" (frame without a visible keypoint)" if nothing else ""), None, fid))
                continue
            if want == 0:
                continue
            rec = next((r for r in logs if r["fid"] == fid), None)
            pts, vals, _ = preds[0]
            for k, p in enumerate(a["kps"]):
                reg = None
                band = None
                if p is not None and rec is not None and rec.get("ax"):
                    jx = (float(p[0]) - rec["bx"]) / rec["ax"]
                    jy = (float(p[1]) - rec["by"]) / rec["ay"]
                    reg = (abs(jx - s * eff * float(p[0])) / (s * eff), abs(jy - s * eff * float(p[1])) / (s * eff))
                    band = in_last_band(jx, jy, rec["shape"], os_)
                bad = oracle_point(pts[k], vals[k], p, (half, half), reg,
                                   {"override": SEL_F8 if f8 else None, "band": band,
                                    "nan_selector": SEL_F8 if f8 else None, "zero_thr": zero_thr})
                if bad:
                    fails.append((f"frame {fid} node {k}: {bad[0]}", bad[1], fid))
        else:
            if len(preds) != len(animals):
                fails.append((f"frame {fid}: {len(preds)} instances for {len(animals)} animals", None, fid))
                continue
            m = match_instances(preds, animals)
            for j, a in enumerate(animals):
                if j not in m:
                    fails.append((f"frame {fid}: animal {j} unmatched", None, fid))
                    continue
                pts, vals, _ = preds[m[j]]
                rec = next((r for r in logs if r["fid"] == fid and r.get("animal") == j), None)
                for k, p in enumerate(a["kps"]):
                    reg = None
                    band = None
                    if p is not None and rec is not None and rec.get("ax") and "tl" in rec:
                        jx = (float(p[0]) - rec["bx"]) / rec["ax"] + rec["tl"][0]
                        jy = (float(p[1]) - rec["by"]) / rec["ay"] + rec["tl"][1]
                        reg = (abs(jx - s * eff * float(p[0])) / (s * eff),
                               abs(jy - s * eff * float(p[1])) / (s * eff))
                        band = in_last_band(jx - rec["tl"][0], jy - rec["tl"][1], rec["shape"], os_)
                    bad = oracle_point(pts[k], vals[k], p, (half, half), reg,
                                       {"band": band, "override": SEL_F7 if f7 else None,
                                        "nan_selector": SEL_F7 if f7 else None, "zero_thr": zero_thr})
                    if bad:
                        fails.append((f"frame {fid} animal {j} node {k}: {bad[0]}", bad[1], fid))
    return fails


def provider_independence(c, rl, rv):
    """Labels-file answer == video answer (order-insensitive per frame)."""
    import numpy as np
    fails = []
    for fid in range(len(c["frames"])):
        a, b = rl["per_frame"].get(fid, []), rv["per_frame"].get(fid, [])
        if len(a) != len(b):
            fails.append(f"frame {fid}: {len(a)} instances from the labels file, {len(b)} from the video")
            continue
        key = lambda inst: tuple(np.nan_to_num(inst[0], nan=-1e6).ravel().round(2))
        for (pa, va, sa), (pb, vb, sb) in zip(sorted(a, key=key), sorted(b, key=key)):
            same = np.allclose(pa, pb, atol=ATOL * 5, rtol=RTOL, equal_nan=True) and \
                np.allclose(va, vb, atol=VTOL, equal_nan=True)
            if not same:
                fails.append(f"frame {fid}: labels file {np.round(pa, 3).tolist()} vs video {np.round(pb, 3).tolist()}")
                break
    return fails


# ------------------------------------------------------------------ correspondence
def q2f(j):
    return None if j is None else j[0] / j[1]


def cmp_points(model_pts, pts, vals, refinement, half, margins, where, out, stats, lthr=LN_THR):
    """model_pts: [[ [x,y]|null, arg|null ], ...] ; pts/vals: implementation.  arg = null: value 0 (with a point:
    the all-zero channel of an invisible keypoint at peak_threshold 0, cell (0,0) decoded).  lthr: ln of the case's
    threshold (None: threshold 0)."""
    if len(model_pts) != len(pts):
        out.append(f"{where}: {len(pts)} nodes vs model {len(model_pts)}")
        return
    for k, ((mp, marg), p, v) in enumerate(zip(model_pts, pts, vals)):
        if margins and q2f(margins[k]) < 1 / 64:
            stats["skipped_low_margin"] += 1
            continue
        if marg is not None and lthr is not None and abs(q2f(marg) - float(lthr)) < 0.03:
            stats["skipped_near_threshold"] += 1
            continue
        if mp is not None and marg is None:
            stats["zero_channel_points"] = stats.get("zero_channel_points", 0) + 1
            if refinement is None:
                if not (close(p[0], q2f(mp[0])) and close(p[1], q2f(mp[1])) and v == 0):
                    out.append(f"{where} node {k}: impl {p.tolist()} value {v}, model all-zero channel at "
                               f"({q2f(mp[0])}, {q2f(mp[1])}) value 0")
            elif not (math.isnan(p[0]) and math.isnan(p[1]) and v == 0):
                # integral refinement of an all-zero patch is 0/0: NaN, value 0 (C06: selector F9, peak value <= 0)
                out.append(f"{where} node {k}: impl {p.tolist()} value {v}, all-zero channel with integral refinement: NaN/0")
            continue
        if mp is None:
            if not (math.isnan(p[0]) and math.isnan(p[1]) and v == 0):
                out.append(f"{where} node {k}: impl {p.tolist()} value {v}, model NaN/0")
            continue
        mx, my = q2f(mp[0]), q2f(mp[1])
        if math.isnan(p[0]) or math.isnan(p[1]):
            out.append(f"{where} node {k}: impl NaN, model ({mx}, {my})")
            continue
        if refinement is None:
            if not (close(p[0], mx) and close(p[1], my)):
                out.append(f"{where} node {k}: impl ({p[0]}, {p[1]}) model ({mx}, {my})")
        else:
            # integral refinement moves the rough (model) peak by less than half a cell
            if abs(p[0] - mx) > half * 1.0005 + ATOL or abs(p[1] - my) > half * 1.0005 + ATOL:
                out.append(f"{where} node {k}: refined impl ({p[0]}, {p[1]}) further than half a cell from rough model ({mx}, {my})")
        ev = math.exp(q2f(marg))
        if abs(v - ev) > VTOL:
            out.append(f"{where} node {k}: value impl {v} model {ev}")


def cmp_affine(model_aff, n_model, rec, axis, n_orig, where, out):
    """measured content map (stub fit) vs the model's: compare where original
    coordinates 0 and n-1 land in the network input."""
    a, b = q2f(model_aff[0]), q2f(model_aff[1])
    fa, fb = (rec["ax"], rec["bx"]) if axis == "x" else (rec["ay"], rec["by"])
    for x in (0.0, float(n_orig - 1)):
        if abs((x - fb) / fa - (a * x + b)) > CM_TOL:
            out.append(f"{where}: content of original {axis}={x} measured at {(x - fb) / fa:.4f}, model {a * x + b:.4f}")
            return
    shape_n = rec["shape"][1] if axis == "x" else rec["shape"][0]
    if shape_n != n_model:
        out.append(f"{where}: network input {axis}-size {shape_n}, model {n_model}")


# ------------------------------------------------------------------ witnesses
def f8_witness():
    return {"kind": "single", "idx": -1, "H": 64, "W": 64, "mh": None, "mw": None, "variant": "none",
            "scale": F(1, 2), "ms": 16, "os": 2, "refinement": None, "batch": 2, "n_nodes": 1, "band": False,
            "n_videos": 1, "frames": [[{"kps": [(F(40), F(24))], "cent": (F(32), F(32))}]]}


def f10_witness():
    # os 4, 64 px, no padding: grid 0..60; x = 62.875 is 2.875 px (> half a cell) from the last sample
    return {"kind": "single", "idx": -2, "H": 64, "W": 64, "mh": None, "mw": None, "variant": "none",
            "scale": F(1), "ms": 1, "os": 4, "refinement": None, "batch": 1, "n_nodes": 1, "band": True,
            "n_videos": 1, "frames": [[{"kps": [(F(503, 8), F(24))], "cent": (F(32), F(32))}]]}


def f11_witness():
    # scale 1/2, os 1: content of x = 39.375 sits at 19.4375, peak 19, answer 38: error 1.375 > half cell 1
    return {"kind": "single", "idx": -3, "H": 64, "W": 64, "mh": None, "mw": None, "variant": "none",
            "scale": F(1, 2), "ms": 1, "os": 1, "refinement": None, "batch": 1, "n_nodes": 1, "band": False,
            "n_videos": 1, "frames": [[{"kps": [(F(315, 8), F(24))], "cent": (F(32), F(32))}]]}


def f7_witness():
    # ground-truth centroids, centered-instance scale 1/2: (30,24),(36,30) come back as ~(59,47),(71,59)
    kps = [(F(30), F(24)), (F(36), F(30))]
    return {"kind": "topdown_gt", "idx": -4, "H": 64, "W": 64, "mh": None, "mw": None, "variant": "none",
            "scale_c": F(1), "scale_i": F(1, 2), "ms_c": 1, "ms_i": 16, "os_c": 1, "os_i": 2, "crop": 32,
            "refinement": None, "batch": 1, "n_nodes": 2, "band": False, "n_videos": 1,
            "frames": [[{"kps": kps, "cent": (F(33), F(27))}]]}


def fz_witness():
    # peak_threshold 0 (constructor default of the inference modules), no refinement: the invisible second node comes
    # back at (0, 0) with value 0 instead of NaN
    return {"kind": "single", "idx": -5, "H": 64, "W": 64, "mh": None, "mw": None, "variant": "none",
            "scale": F(1), "ms": 1, "os": 2, "refinement": None, "batch": 1, "n_nodes": 2, "band": False,
            "n_videos": 1, "thr": "0.0", "frames": [[{"kps": [(F(40), F(24)), None], "cent": (F(32), F(32))}]]}


WITNESSES = {"F02z_zero_threshold_invisible.json": fz_witness, "F7_gt_centroids_scale_half.json": f7_witness, "F8_labels_scale_half.json": f8_witness, "F10_last_band.json": f10_witness,
             "F11_resize_half.json": f11_witness, "F61_gt_match_eff_half.json": CO.f61_witness}


def ensure_corpus():
    d = core.CORPUS / "C02"
    d.mkdir(parents=True, exist_ok=True)
    for name, fn in WITNESSES.items():
        p = d / name
        if not p.exists():
            p.write_text(json.dumps(case_json(fn()), indent=1) + "\n")


def attach_tls(c, res):
    """Attach the crop corners (measured from the implementation's raw output,
    in pre-crop image pixels) to the instance-stage stub logs."""
    if c["kind"] not in ("topdown", "topdown_gt") or "error" in res:
        return
    tls = []
    for ex in res["raw"]:
        for n, bb in enumerate(ex["instance_bbox"]):
            fid = ex["_fids"][n] if n < len(ex.get("_fids", [])) else None
            k = float(c["scale_i"]) * (eff_of(c, fid) if fid is not None else eff_of(c))
            tls.append((float(bb[0][0][0]) * k, float(bb[0][0][1]) * k))
    recs = res["logs"]["instance"]
    if len(recs) == len(tls):
        for rec, tl in zip(recs, tls):
            rec["tl"] = tl
    res["tls"] = tls


# ------------------------------------------------------------------ the check
def providers_of(c):
    return ("LabelsReader",) if c["kind"] == "topdown_gt" else ("VideoReader", "LabelsReader")


def evaluate(run, cases, mods, fixed_f8, fixed_f7=False):
    """Runs impl (both providers) + model + oracle + correspondence on the cases."""
    import numpy as np
    results = []
    for c in cases:
        r = {}
        for prov in providers_of(c):
            try:
                r[prov] = run_impl(c, mods, prov)
            except Exception as e:          # noqa
                import traceback
                r[prov] = {"error": f"{type(e).__name__}: {e}", "tb": traceback.format_exc()[-1200:]}
        results.append(r)

    for c, r in zip(cases, results):
        for prov, res in r.items():
            attach_tls(c, res)

    # ---- model terms.  Cases with several video sizes go through the BATCH model (MixedBatch.run_batch: the
    # eff_scale list travels next to the frame list, one term per batch actually assembled); the others through
    # the per-frame model (Decode.run).
    terms, index = [], []
    bterms, bindex = [], []
    for ci, (c, r) in enumerate(zip(cases, results)):
        if is_mixed(c) and c["kind"] == "single":
            for prov in ("VideoReader", "LabelsReader"):
                for fb in batches_of(c, prov):
                    fr = [sframe_term(c, f, c["frames"][f][0]["kps"] if c["frames"][f] else [None] * c["n_nodes"]) for f in fb]
                    bterms.append(f"BSingle {si_cfg_term(c, fixed_f8)} {prov} [{'; '.join(fr)}]")
                    bindex.append([(ci, prov, f, "single") for f in fb])
        elif is_mixed(c) and c["kind"] == "topdown_gt":
            for fb in batches_of(c, "LabelsReader"):
                bterms.append(f"BTopDownGT {core.cbool(fixed_f7)} {td_cfg_term(c)} "
                              f"[{'; '.join(gframe_term(c, f, c['frames'][f]) for f in fb)}]")
                bindex.append([(ci, "LabelsReader", f, "gt") for f in fb])
        elif is_mixed(c) and c["kind"] == "topdown":
            for fb in batches_of(c, "LabelsReader"):
                bterms.append(f"BTopDown {td_cfg_term(c)} [{'; '.join(tframe_term(c, f, c['frames'][f]) for f in fb)}]")
                bindex.append([(ci, None, f, "topdown") for f in fb])
        if is_mixed(c) and c["kind"] != "topdown":
            continue
        if c["kind"] == "single":
            for prov in ("VideoReader", "LabelsReader"):
                for fid, animals in enumerate(c["frames"]):
                    kps = animals[0]["kps"] if animals else [None] * c["n_nodes"]
                    terms.append(f"CSingle {si_cfg_term(fview(c, fid), fixed_f8)} {prov} {core.clist(kps, ckp)}")
                    index.append((ci, prov, fid, "single"))
        elif c["kind"] == "topdown_gt":
            for fid, animals in enumerate(c["frames"]):
                terms.append(f"CTopDownGT {core.cbool(fixed_f7)} {td_cfg_term(fview(c, fid))} "
                             f"{core.clist([a['kps'] for a in animals], lambda k: core.clist(k, ckp))}")
                index.append((ci, "LabelsReader", fid, "gt"))
        else:
            if not is_mixed(c):
                for fid, animals in enumerate(c["frames"]):
                    terms.append(f"CTopDown {td_cfg_term(fview(c, fid))} {core.clist(animals, animal_term)}")
                    index.append((ci, None, fid, "topdown"))
            if c["refinement"]:
                for prov, res in r.items():
                    if "error" in res or len(res.get("tls", [])) != len(res["logs"]["instance"]):
                        continue
                    for n, (rec, tl) in enumerate(zip(res["logs"]["instance"], res["tls"])):
                        if rec["fid"] is None or rec.get("animal") is None:
                            continue
                        kps = c["frames"][rec["fid"]][rec["animal"]]["kps"]
                        tlq = (F(np.float32(tl[0]).item()), F(np.float32(tl[1]).item()))
                        terms.append(f"CTopDownAt {td_cfg_term(fview(c, rec['fid']))} ({core.cq(tlq[0])}, {core.cq(tlq[1])}) "
                                     f"{core.clist(kps, ckp)}")
                        index.append((ci, prov, n, "at"))
    model = core.coq_eval_sharded(PREAMBLE, terms, "run", "rresult", shard=40, jobs=12)
    bmodel = core.coq_eval_sharded(PREAMBLE_MB, bterms, "run_batch", "rbatch", shard=12, jobs=12) if bterms else []
    by_case = {}
    for ix, m in zip(index, model):
        by_case.setdefault(ix[0], []).append((ix, m))
    batch_len_diffs = {}
    for ixs, ms in zip(bindex, bmodel):
        if len(ixs) != len(ms):
            batch_len_diffs.setdefault(ixs[0][0], []).append(f"batch model returns {len(ms)} frames for a batch of {len(ixs)}")
            continue
        for ix, m in zip(ixs, ms):
            by_case.setdefault(ix[0], []).append((ix, m))

    stats = {"skipped_low_margin": 0, "skipped_near_threshold": 0, "points_compared": 0}
    disagreements = 0
    for ci, (c, r) in enumerate(zip(cases, results)):
        single = c["kind"] == "single"
        nvis = sum(p is not None for fr in c["frames"] for a in fr for p in a["kps"])
        run.case(case_json(c), nontrivial=nvis >= 1)
        diffs = list(batch_len_diffs.get(ci, []))
        fails = []
        errored = [p for p in r if "error" in r[p]]
        for p in errored:
            fails.append((f"{p}: implementation raised {r[p]['error']}", None, None))
        for (ix, m) in by_case.get(ci, []):
            _, prov, fid, what = ix
            eff = eff_of(c, fid) if what != "at" else None        # the frame's own eff_scale
            fH, fW = fsize(c, fid) if what != "at" else (None, None)
            if what == "single":
                res = r[prov]
                if "error" in res:
                    continue
                gx, gy, meff, mpts, margins, ninst = m
                preds = res["per_frame"].get(fid, [])
                where = f"{prov} frame {fid}"
                want = si_instances_model(ninst, c["refinement"])
                if len(preds) != want:
                    diffs.append(f"{where}: {len(preds)} instances, model {want}")
                    continue
                if want == 1:
                    pts, vals, score = preds[0]
                    s_dec = float(c["scale"]) * eff
                    cmp_points(mpts, pts, vals, c["refinement"], c["os"] / (2 * s_dec), margins, where, diffs, stats, ln_thr(c))
                    stats["points_compared"] += len(mpts)
                else:
                    stats["frames_without_instance"] = stats.get("frames_without_instance", 0) + 1
                rec = next((x for x in res["logs"]["single"] if x["fid"] == fid), None)
                if rec is not None and rec.get("ax"):
                    cmp_affine(gx[0], gx[1], rec, "x", fW, where, diffs)
                    cmp_affine(gy[0], gy[1], rec, "y", fH, where, diffs)
                elif c["frames"][fid]:
                    diffs.append(f"{where}: the stub could not read the frame it was given")
                if abs(q2f(meff) - eff) > 1e-9:
                    diffs.append(f"{where}: eff_scale {eff} model {q2f(meff)}")
            elif what == "topdown":
                cgx, cgy, pmx, pmy, meff, (nix, niy), insts, cmargins = m
                for prov in providers_of(c):
                    res = r[prov]
                    if "error" in res:
                        continue
                    where = f"{prov} frame {fid}"
                    preds = res["per_frame"].get(fid, [])
                    if len(preds) != len(insts):
                        diffs.append(f"{where}: {len(preds)} instances, model {len(insts)}")
                        continue
                    k = float(c["scale_i"]) * eff
                    for n, ((pts, vals, score), (cell, carg, tl, mpts, margins)) in enumerate(zip(preds, insts)):
                        w2 = f"{where} instance {n}"
                        if abs(score - math.exp(q2f(carg))) > VTOL and c["refinement"] is None:
                            diffs.append(f"{w2}: centroid value {score} model {math.exp(q2f(carg))}")
                        if c["refinement"] is None:
                            cmp_points(mpts, pts, vals, None, c["os_i"] / (2 * k), margins, w2, diffs, stats, ln_thr(c))
                            stats["points_compared"] += len(mpts)
                    # centroid-stage network input and content map
                    for rec in res["logs"]["centroid"]:
                        if rec["fid"] == fid and rec.get("ax"):
                            cmp_affine(cgx[0], cgx[1], rec, "x", fW, where + " centroid net", diffs)
                            cmp_affine(cgy[0], cgy[1], rec, "y", fH, where + " centroid net", diffs)
                    for rec in res["logs"]["instance"]:
                        if rec["fid"] == fid and rec.get("ax") and "tl" in rec:
                            if rec["shape"] != (niy, nix):
                                diffs.append(f"{where}: instance net input {rec['shape']} model {(niy, nix)}")
                            # content map of the pre-crop image: crop pixel + top-left
                            for axis, pm, n0 in (("x", pmx, fW), ("y", pmy, fH)):
                                a, b = q2f(pm[0]), q2f(pm[1])
                                fa, fb = (rec["ax"], rec["bx"]) if axis == "x" else (rec["ay"], rec["by"])
                                tlv = rec["tl"][0 if axis == "x" else 1]
                                x0 = float(c["frames"][fid][rec["animal"]]["cent"][0 if axis == "x" else 1])
                                if abs((x0 - fb) / fa + tlv - (a * x0 + b)) > CM_TOL:
                                    diffs.append(f"{where}: crop content map {axis}: measured {(x0 - fb) / fa + tlv:.4f} "
                                                 f"model {a * x0 + b:.4f}")
                            if c["refinement"] is None:
                                # the crop corner itself
                                inst = next((i for i in insts if True and rec.get("animal") is not None and
                                             abs(q2f(i[2][0]) - rec["tl"][0]) < 2e-3 and abs(q2f(i[2][1]) - rec["tl"][1]) < 2e-3), None)
                                if inst is None:
                                    diffs.append(f"{where}: crop corner {rec['tl']} not among the model's "
                                                 f"{[(q2f(i[2][0]), q2f(i[2][1])) for i in insts]}")
            elif what == "gt":
                res = r[prov]
                if "error" in res:
                    continue
                where = f"{prov} frame {fid} (ground-truth centroids)"
                preds = res["per_frame"].get(fid, [])
                minsts = [x for x in m if x is not None]
                if len(preds) != len(minsts):
                    diffs.append(f"{where}: {len(preds)} instances, model {len(minsts)}")
                    continue
                k = float(c["scale_i"]) * eff
                recs = [x for x in res["logs"]["instance"] if x["fid"] == fid]
                for n, ((pts, vals, score), (tl, mpts, margins)) in enumerate(zip(preds, minsts)):
                    cmp_points(mpts, pts, vals, None, c["os_i"] / (2 * k), margins, f"{where} instance {n}", diffs, stats, ln_thr(c))
                    stats["points_compared"] += len(mpts)
                    if n < len(recs) and "tl" in recs[n]:
                        if abs(recs[n]["tl"][0] - q2f(tl[0])) > 2e-3 or abs(recs[n]["tl"][1] - q2f(tl[1])) > 2e-3:
                            diffs.append(f"{where} instance {n}: crop corner {recs[n]['tl']} model {(q2f(tl[0]), q2f(tl[1]))}")
            else:   # "at": instance stage at the measured crop corner (integral refinement)
                res = r[prov]
                mpts, margins = m
                rec = res["logs"]["instance"][fid]
                preds = res["per_frame"].get(rec["fid"], [])
                k = float(c["scale_i"]) * eff_of(c, rec["fid"])
                # find this crop's prediction: the n-th instance overall in generator order
                flat = [i for f in sorted(set(res["order"]), key=res["order"].index) for i in res["per_frame"][f]]
                if fid < len(flat):
                    pts, vals, score = flat[fid]
                    cmp_points(mpts, pts, vals, "integral", c["os_i"] / (2 * k), margins,
                               f"{prov} crop {fid} (frame {rec['fid']})", diffs, stats, ln_thr(c))
                    stats["points_compared"] += len(mpts)
        # ---- oracle
        for prov in providers_of(c):
            if "error" not in r[prov]:
                fails += [(f"{prov}: {a}", b, w) for a, b, w in oracle_case(c, r[prov], prov, fixed_f8, fixed_f7)]
        if not errored and len(providers_of(c)) == 2:
            pi = provider_independence(c, r["LabelsReader"], r["VideoReader"])
            f8dom = single and c["scale"] != 1 and not fixed_f8
            fails += [(f"provider independence: {x}", SEL_F8 if f8dom else None, None) for x in pi]
        if diffs:
            disagreements += 1
            if disagreements <= 4:
                run.log(f"model/impl disagree on case {c['idx']} ({c['kind']}): {diffs[:3]}")
        unknown = []
        for reason, sel, _ in fails:
            if sel is not None and run.selector_known(sel) is not None:
                run.violation("failing-input", {"case": case_json(c), "oracle": reason}, selector=sel)
            else:                                        # outside every listed selector: a plain violation
                unknown.append((reason + (f" [selector {sel} is not a listed known finding]" if sel else ""), sel, None))
        if unknown:
            run.violation("failing-input", {"case": case_json(c), "oracle": [u[0] for u in unknown][:6],
                                            "correspondence": diffs[:4]})
        elif diffs:
            run.proof_broken.append(f"correspondence C02 model vs implementation, case {json.dumps(case_json(c))[:900]}: {diffs[:3]}")
    return disagreements, stats, results


def detect_fixed_f8(mods):
    """Does the working tree still skip preprocessing for LabelsReader (F8)?"""
    c = f8_witness()
    rl = run_impl(c, mods, "LabelsReader")
    return bool(rl["flags"]["preprocess"]), rl


def detect_fixed_f7(mods):
    """Does CentroidCrop(use_gt_centroids=True) still cut the crops before resizing (F7)?"""
    c = f7_witness()
    res = run_impl(c, mods, "LabelsReader")
    pts = res["per_frame"][0][0][0]
    return bool(abs(pts[0][0] - 30.0) <= 2.5 and abs(pts[0][1] - 24.0) <= 2.5)


def si_instances_model(ninst, refinement):
    """Instances of one single-instance frame per Decode.si_frame_instances: `ninst` = rendered counts of the repaired
    variant [without, with integral refinement]; the un-repaired variant always has one."""
    return int(ninst[1 if refinement else 0]) if STATE["fixed_f62"] else 1


def f62_probe():
    # one frame with a visible node, one frame without any: the second gives 1 all-NaN instance (HEAD afd312c and
    # before) or no instance (after fix 8463f22)
    return {"kind": "single", "idx": -6, "H": 64, "W": 64, "mh": None, "mw": None, "variant": "none",
            "scale": F(1), "ms": 1, "os": 2, "refinement": None, "batch": 2, "n_nodes": 2, "band": False,
            "n_videos": 1, "thr": "0.2", "frames": [[{"kps": [(F(40), F(24)), None], "cent": (F(32), F(32))}],
                                                    [{"kps": [None, None], "cent": (F(32), F(32))}]]}


def detect_fixed_f62(mods):
    """Does SingleInstancePredictor drop a frame whose predicted points are all NaN (C12 F62 repaired)?"""
    res = run_impl(f62_probe(), mods, "VideoReader")
    return len(res["per_frame"].get(1, [])) == 0 and len(res["per_frame"].get(0, [])) == 1


def detect_fixed_fz(mods):
    """Does the tree report NaN for an all-zero channel at peak_threshold 0 (F02z repaired)?"""
    res = run_impl(fz_witness(), mods, "VideoReader")
    pts = res["per_frame"][0][0][0]
    return bool(math.isnan(pts[1][0]) and math.isnan(pts[1][1]))


def assign_thresholds(rng, cases):
    """peak_threshold of the generated ramp cases: 0.2 (predictor default), 0.1, 0.0 (module default)."""
    for c in cases:
        if c["kind"] in ("single", "topdown", "topdown_gt") and "thr" not in c and c["idx"] >= 0:
            c["thr"] = rng.choice(["0.2", "0.2", "0.1", "0.0", "0.0"])


def check_f7(run, mods):
    """F7 (latent): _predict_generator with preprocess=True and instances_key=True
    calls apply_resizer without the scale.  Unreachable through make_pipeline;
    recorded as a note, never as a violation."""
    import inspect
    from sleap_nn.inference import predictors
    src = inspect.getsource(predictors.Predictor._predict_generator)
    latent = 'apply_resizer(\n                                ex["image"], ex["instances"]\n                            )' in src
    reachable = []
    for cls in (predictors.SingleInstancePredictor, predictors.BottomUpPredictor, predictors.TopDownPredictor):
        s = inspect.getsource(cls.make_pipeline)
        if "self.preprocess = True" in s and "instances_key" in s:
            reachable.append(cls.__name__)
    run.notes.append(f"F7 latent call apply_resizer(image, instances) without scale present: {latent}; "
                     f"predictors that could reach it (preprocess=True together with instances_key): {reachable or 'none'}")
    return latent, reachable


def check(run: core.Run) -> int:
    ensure_corpus()
    run.build_and_prove(PROP_FILES)
    core.impl_env_setup()
    import torch
    from omegaconf import OmegaConf
    from sleap_nn.inference import predictors
    mods = (torch, OmegaConf, predictors)
    thorough = run.tier == "thorough"
    fixed_f8, _ = detect_fixed_f8(mods)
    fixed_f7 = detect_fixed_f7(mods)
    STATE["fixed_fz"] = detect_fixed_fz(mods)
    STATE["fixed_f62"] = detect_fixed_f62(mods)
    run.notes.append(f"C12 F62 state of the tree: a single-instance frame without any detected node yields "
                     f"{'no instance (fix 8463f22)' if STATE['fixed_f62'] else 'one all-NaN instance (un-repaired)'}")
    run.notes.append(f"F02z state of the tree: an invisible keypoint (all-zero channel) at peak_threshold 0 without refinement is "
                     f"{'NaN (repaired)' if STATE['fixed_fz'] else 'reported at cell (0, 0) with value 0 (open)'}")
    run.notes.append(f"F7 state of the tree: ground-truth-centroid crops are cut {'after' if fixed_f7 else 'BEFORE'} "
                     f"the pre-crop resize ({'repaired' if fixed_f7 else 'as pinned'})")
    run.notes.append(f"F8 state of the tree: LabelsReader preprocess flag = {fixed_f8} "
                     f"({'repaired' if fixed_f8 else 'as pinned: preprocessing skipped'})")
    check_f7(run, mods)
    fixed_f61 = CO.detect_fixed_f61(mods)
    run.notes.append(f"F61 state of the tree: FindInstancePeaksGroundTruth compares centroids and labelled instances "
                     f"{'in one coordinate system (repaired)' if fixed_f61 else 'in MIXED coordinate systems when eff_scale != 1 (as pinned)'}")

    cases, co_cases = [], []
    for f in sorted((core.CORPUS / "C02").glob("*.json")):
        c = case_from_json(json.load(open(f)))
        (co_cases if c["kind"] == "centroid_only" else cases).append(c)
    cases.append(f62_probe())
    n_single, n_td, n_band = (420, 700, 80) if thorough else (60, 70, 10)
    n_gt = 200 if thorough else 20
    # every stream: the first part with ONE frame size, the last part ("mixed") with a labels file of 2-3 videos of
    # DIFFERENT frame sizes and max_height/max_width size matching, batch size >= 2, the first batch mixing the sizes
    n_mix = {"single": 100, "topdown": 160, "gt": 60, "co": 60} if thorough else {"single": 14, "topdown": 18, "gt": 8, "co": 8}
    for i in range(n_single):
        cases.append(gen_single(run.rng, len(cases), mixed=i >= n_single - n_mix["single"]))
    for i in range(n_band):
        cases.append(gen_single(run.rng, len(cases), band=True))
    for i in range(n_td):
        cases.append(gen_topdown(run.rng, len(cases), mixed=i >= n_td - n_mix["topdown"]))
    for i in range(n_gt):
        cases.append(gen_topdown_gt(run.rng, len(cases), mixed=i >= n_gt - n_mix["gt"]))
    n_co = 220 if thorough else 24
    for i in range(n_co):
        co_cases.append(CO.gen_centroid_only(run.rng, len(cases) + len(co_cases), mixed=i >= n_co - n_mix["co"]))
    import random
    assign_thresholds(random.Random(run.rng.getrandbits(64)), cases)
    disagreements, stats, _ = evaluate(run, cases, mods, fixed_f8, fixed_f7)
    co_dis, co_stats = CO.evaluate(run, co_cases, mods, fixed_f61)
    stats.update(co_stats)
    run.obligation("correspondence: CentroidOnly.co_run (Coq, vm_compute) == real TopDownPredictor without a "
                   "centered-instance model (CentroidCrop(return_crops=False) + FindInstancePeaksGroundTruth): centroids, "
                   "centroid values, matched labelled instance, returned keypoints, NaN rows, eff_scale, content maps",
                   co_dis == 0, f"{co_dis} cases disagree")
    gray_cases = [GR.gen_gray(run.rng, len(cases) + len(co_cases) + i) for i in range(160 if thorough else 20)]
    gr_dis, gr_stats = GR.evaluate(run, gray_cases, mods, fixed_f8)
    stats.update(gr_stats)
    run.obligation("correspondence: channel modes (is_rgb x 1-/3-channel frames) through the real SingleInstancePredictor with "
                   "the blob stub == Decode.si_run (same decode chain) and CentroidOnly.net_channels (channels of the network "
                   "input), both providers", gr_dis == 0, f"{gr_dis} cases disagree")
    cases = cases + co_cases + gray_cases
    run.obligation("correspondence: Decode.run (Coq, vm_compute) == real predictors with the ramp stub "
                   "(coordinates, values, NaN pattern, instance order, network input shapes, content maps); cases with "
                   "several video sizes in one labels file: MixedBatch.run_batch (one term per batch assembled by "
                   "_predict_generator, the eff_scale list next to the frame list) == the same outputs, eff_scale per frame",
                   disagreements == 0, f"{disagreements} cases disagree")
    dist = {}
    for c in cases:
        for k in ("kind", "variant", "refinement", "band", "is_rgb", "channels"):
            key = f"{k}={c.get(k)}"
            dist[key] = dist.get(key, 0) + 1
        for k in ("scale", "scale_c", "scale_i", "os", "os_c", "os_i", "ms", "ms_c", "ms_i", "crop", "batch", "thr"):
            if k in c:
                key = f"{k}={c[k]}"
                dist[key] = dist.get(key, 0) + 1
    run.coverage.update({
        "input_distribution": dist, "disagreements": disagreements, **stats,
        "providers": ["LabelsReader", "VideoReader"],
        "rule": "case = (model type, H, W [or 2-3 video sizes + the video of every frame], max_h, max_w, scales, max strides, "
                "output strides, crop (square or [height, width]), batch, refinement, frames with animals/keypoints); each case "
                "is run through both providers (several video sizes: one labels file with all videos, batches mixing the sizes, "
                "against one VideoReader run per video); non-trivial = at least one visible keypoint; distinct by full case content",
        "mixed_size_cases": sum(1 for c in cases if is_mixed(c)),
        "non_square_crop_cases": sum(1 for c in cases if "crop" in c and not isinstance(c["crop"], int) and c["kind"] in ("topdown", "topdown_gt")),
        "tolerance": {"coords_atol": ATOL, "coords_rtol": RTOL, "values_atol": VTOL},
        "general_position_margin_cells": str(MU),
    })
    for c in cases[3:6]:
        run.sample(case_json(c))
    run.trusted += [
        "torchvision bilinear resize (half-pixel centres), F.pad and kornia crop_and_resize are modelled by their content "
        "maps (Decode.v: resize_map, identity, translation); the stub network measures the content map from ramp images on "
        "every run and it is compared with the model (5e-3 px)",
        "ideal network = harness/c02_stub.py: Gaussian bumps from the repo's own generate_confmaps/generate_multiconfmaps at "
        "the measured content positions; peak finding on such maps is covered by C06/C07 and re-observed here end to end",
        "sleap_io object construction is replaced by recorders (sleap-io 0.9.2 no longer accepts the keywords the pinned "
        "repo uses); everything else in predictors.py/providers.py runs unmodified",
    ]
    run.assumptions += [
        "general position: every scaled coordinate at least 1/16 cell from the half-cell lattice; centroids of different "
        "animals at least 4 centroid-map cells apart; keypoints inside their animal's crop",
        "ramp-stub cases: 3-channel frames with is_rgb=True (the ramp encodes x, y and the frame id in the three channels); "
        "is_rgb=False and 1-channel frames are exercised through the single-instance predictor with the blob stub (one node)",
        "with integral refinement the 5x5 patch lies inside the map (keypoints >= 2 cells from the grid border)",
    ]
    return run.finish()


def replay(run: core.Run, path: str) -> int:
    core.impl_env_setup()
    import torch
    from omegaconf import OmegaConf
    from sleap_nn.inference import predictors
    mods = (torch, OmegaConf, predictors)
    STATE["fixed_fz"] = detect_fixed_fz(mods)
    STATE["fixed_f62"] = detect_fixed_f62(mods)
    rep = json.load(open(path))
    c = case_from_json(rep["case"])
    if c["kind"] == "centroid_only":
        return CO.replay(run, c, mods)
    if c["kind"] == "single_gray":
        return GR.replay(run, c, mods, detect_fixed_f8(mods)[0])
    fixed_f8, _ = detect_fixed_f8(mods)
    fixed_f7 = detect_fixed_f7(mods)
    STATE["fixed_fz"] = detect_fixed_fz(mods)
    STATE["fixed_f62"] = detect_fixed_f62(mods)
    out = {}
    bad = False
    res = {}
    for prov in providers_of(c):
        res[prov] = run_impl(c, mods, prov)
        attach_tls(c, res[prov])
        f = oracle_case(c, res[prov], prov, fixed_f8, fixed_f7)
        out[prov] = [(a, b) for a, b, _ in f]
        bad = bad or any(b is None or run.selector_known(b) is None for _, b, _ in f)
    if len(providers_of(c)) == 1:
        print(json.dumps(out, indent=1))
        return 1 if bad else 0
    pi = provider_independence(c, res["LabelsReader"], res["VideoReader"])
    out["provider_independence"] = pi
    f8dom = c["kind"] == "single" and c["scale"] != 1 and not fixed_f8 and run.selector_known(SEL_F8) is not None
    print(json.dumps(out, indent=1))
    return 1 if (bad or (pi and not f8dom)) else 0
