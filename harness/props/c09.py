"""C09 — tracking never drops, duplicates or double-assigns detections, never crashes.

Model: coq/theories/C09/Tracker.v (both candidate methods, both matchers, the
three F4 defects behind switches fix_i / fix_ii / fix_iii); theorems:
coq/theories/C09/Props.v.

Tie: the real `Tracker.from_config(...).track(...)` is run on generated
histories with duck-typed instances; `Tracker.get_scores` and the matching
function are wrapped to record each frame's score matrix (float64 -> exact
rational) and the matcher's answer; both are fed to the Coq model, which
replays all bookkeeping (vm_compute) and must return exactly what the
implementation returned, frame by frame (uids, track ids, order, exception
kind).  The model also checks, per step, that the NaN pattern of the recorded
matrix is the one its queues predict, that the recorded answer is a valid
one-to-one assignment and (greedy) an admissible greedy run; the Hungarian
contract (optimal finite assignment, or failure iff infeasible) is checked by
brute force.  The reference matchers of the model are compared with
utils.hungarian_matching / greedy_matching on random small matrices.

Oracle: the property statement evaluated on the implementation's own output.
Which F4 defects the code under test has is detected by running the witness
histories; model switches and expectations follow (known-finding selectors are
only offered while the corresponding witness still fails).
"""
from __future__ import annotations

import itertools
import json
import math
from fractions import Fraction as F

from .. import core
from .. import c09_common as cc

PROP_FILES = [core.THEORIES / "C09" / "Props.v"]
RENDER = "rresult"
WINDOWS = [1, 2, 3, 5]

KNOWN = [  # (finding id, selector, corpus file, witness name)
    ("F4i", cc.SEL_I, "one_animal.json", "one_animal_fw"),
    ("F4i", cc.SEL_I, "one_animal_local_queue.json", "one_animal_lq"),
    ("F4ii", cc.SEL_II, "third_appears_local_queue.json", "third_appears_local_queue"),
    ("F4iii", cc.SEL_III, "stale_track_hungarian.json", "stale_track_hungarian"),
    ("F4iii", cc.SEL_III, "stale_track_max.json", "stale_track_max"),
    ("F4cap", cc.SEL_CAP, "max_tracks_exceeded.json", "max_tracks_exceeded"),
    ("F4iv", cc.SEL_IV, "flow_all_nan_fixed_window.json", "flow_all_nan_fw"),
    ("F4iv", cc.SEL_IV, "flow_all_nan_local_queue.json", "flow_all_nan_lq"),
    ("F4iv", cc.SEL_IV, "nan_instance_fixed_window.json", "nan_instance_fw"),
]


# ---------------------------------------------------------------------------
# generators

def random_cfg(rng, lq=None, greedy=None):
    feat, scoring = rng.choice(cc.FEATURES)
    return {"lq": rng.random() < 0.5 if lq is None else lq,
            "greedy": rng.random() < 0.5 if greedy is None else greedy,
            "window": rng.choice(WINDOWS), "red_max": rng.random() < 0.35,
            "threshold": rng.choice([F(0), F(0), F(1, 2)]),
            "features": feat, "scoring": scoring}


def history_from_pattern(rng, pattern, cfg, spacing, low_scores=0.0, shuffle=True):
    """pattern[f][a] = animal a is detected in frame f.  Positions are dyadic (k/8)."""
    K = len(pattern[0]) if pattern else 0
    base = [(F((a % 2) * spacing) + F(rng.randrange(0, 9), 8), F((a // 2) * spacing) + F(rng.randrange(0, 9), 8))
            for a in range(K)]
    vel = [(F(rng.randrange(-8, 9), 8), F(rng.randrange(-8, 9), 8)) for _ in range(K)]
    thr = cfg["threshold"]
    hist = []
    for f, row in enumerate(pattern):
        fr = []
        for a, present in enumerate(row):
            if not present:
                continue
            sc = F(1)
            if rng.random() < low_scores:
                sc = rng.choice([thr, thr - F(1, 8), thr + F(1, 8), thr - F(1, 4)])
            jx, jy = F(rng.randrange(-2, 3), 8), F(rng.randrange(-2, 3), 8)
            fr.append({"uid": f * 10 + a, "x": base[a][0] + vel[a][0] * f + jx,
                       "y": base[a][1] + vel[a][1] * f + jy, "score": sc, "animal": a})
        if shuffle:
            rng.shuffle(fr)
        hist.append(fr)
    return hist


def exhaustive_patterns(maxK=2, maxF=4):
    for K in range(1, maxK + 1):
        for Fr in range(1, maxF + 1):
            for bits in itertools.product([False, True], repeat=K * Fr):
                yield [list(bits[f * K:(f + 1) * K]) for f in range(Fr)]


def sampled_pattern(rng):
    K = rng.randint(1, 4)
    Fr = rng.randint(2, 12)
    p = rng.choice([0.5, 0.8, 0.95])
    pat = [[rng.random() < p for _ in range(K)] for _ in range(Fr)]
    if rng.random() < 0.3:                       # a late arrival
        a, t0 = rng.randrange(K), rng.randrange(Fr)
        for f in range(t0):
            pat[f][a] = False
    if rng.random() < 0.3:                       # an empty frame
        pat[rng.randrange(Fr)] = [False] * K
    if rng.random() < 0.3:                       # an animal leaves for good
        a, t0 = rng.randrange(K), rng.randrange(Fr)
        for f in range(t0, Fr):
            pat[f][a] = False
    return pat


def random_xcfg(rng):
    """Widened configuration space: max_tracks, optical flow, further feature/score pairs, invalid names."""
    feat, scoring = rng.choice(cc.FEATURES_X)
    cfg = {"lq": rng.random() < 0.6, "greedy": rng.random() < 0.4, "window": rng.choice(WINDOWS),
           "red_max": rng.random() < 0.35, "threshold": rng.choice([F(0), F(0), F(1, 2)]),
           "features": feat, "scoring": scoring}
    r = rng.random()
    if r < 0.55:
        cfg["max_tracks"] = rng.choice([0, 1, 1, 2, 2, 3])          # read by local queues only
    if rng.random() < 0.4:
        cfg["flow"] = True
        if cfg["scoring"] == "cosine_sim":
            cfg["features"], cfg["scoring"] = rng.choice(cc.FEATURES)
    r = rng.random()
    if r < 0.03:
        cfg["features"] = "image"                                    # documented, not implemented
    elif r < 0.06:
        cfg["scoring"] = rng.choice(["cosine", "dist"])
    elif r < 0.09:
        cfg["red_name"] = "weighted"                                 # documented, not implemented
    elif r < 0.12:
        cfg["match_name"] = "bipartite"
    return cfg


def xhistory(rng, cfg):
    pat = sampled_pattern(rng) if rng.random() < 0.7 else rng.choice(list(exhaustive_patterns(3, 3)))
    hist = history_from_pattern(rng, pat, cfg, rng.choice([64, 64, 16, 2]), low_scores=rng.choice([0, 0.25, 0.4]))
    off = F(rng.choice([24, 40]))
    for fr in hist:
        for d in fr:
            d["x"], d["y"] = d["x"] + off, d["y"] + off            # inside the synthetic frame (mostly)
            d["size"] = rng.choice([1, 2])
    if rng.random() < 0.3:                                           # missing keypoints; sometimes a whole instance
        for fr in hist:
            for d in fr:
                if rng.random() < 0.3:
                    d["nan"] = rng.choice([[0], [1], [0, 2], [0, 1, 2]])
    if cfg.get("flow"):
        cfg["img_mode"] = rng.choice(cc.IMG_MODES)
        cfg["img_scale"] = rng.choice([1.0, 1.0, 0.5])
        r = rng.random()
        if r < 0.25 and len(hist) > 1:                               # uniform frames from some frame on
            cfg["blank"] = list(range(rng.randrange(0, len(hist)), len(hist)))
            if rng.random() < 0.6:
                cfg["window"] = rng.choice([1, 2])
        elif r < 0.45:
            cfg["blank"] = [f for f in range(len(hist)) if rng.random() < 0.3]
    return hist


# ---------------------------------------------------------------------------

def evaluate(run, cases, fixes, label, widened=False):
    """cases: list of (cfg, hist).  Runs implementation and model, compares, applies the oracle."""
    recs_all = [cc.run_impl(cfg, hist) for cfg, hist in cases]
    skipped = [i for i, recs in enumerate(recs_all) if any("scores" in r and not math.isfinite(
        float(abs(r["scores"][~(r["scores"] != r["scores"])]).sum())) for r in recs)]
    if skipped:                                   # an infinite score cannot be written as a rational: not produced by the
        run.coverage["cases_with_infinite_scores_skipped"] = len(skipped)   # generators; counted if it ever happens
        cases = [c for i, c in enumerate(cases) if i not in skipped]
        recs_all = [r for i, r in enumerate(recs_all) if i not in skipped]
    if widened:
        terms = [cc.xcase_term(cfg, hist, recs, fixes) for (cfg, hist), recs in zip(cases, recs_all)]
        model = core.coq_eval_sharded(cc.XPREAMBLE, terms, "(fun r : result => r)", RENDER, shard=120, jobs=12)
    else:
        terms = [cc.case_term(cfg, hist, recs, fixes) for (cfg, hist), recs in zip(cases, recs_all)]
        model = core.coq_eval_sharded(cc.PREAMBLE, terms, "run_case", RENDER, shard=120, jobs=12)
    disagree = contract_bad = check_bad = 0
    stats = run.coverage.setdefault("steps", {})
    prem = run.coverage.setdefault("premises", {"valid_ans_false": 0, "valid_ans_calls": 0, "round1_model_branch_calls": 0})

    def bump(k, n=1):
        stats[k] = stats.get(k, 0) + n

    for (cfg, hist), recs, (mres, mtracks) in zip(cases, recs_all, model):
        scoring_steps = 0
        all_uids = [d["uid"] for fr in hist for d in fr]
        unique_uids = len(set(all_uids)) == len(all_uids)
        impl_out = [cc.out_pairs(r) for r in recs]
        model_out = [({"raises": o[1]} if o[0] == "raise" else [list(x) for x in o[1]]) for o, _, _ in mres]
        same = impl_out == model_out
        # per-step checks made by the model on the recorded inputs
        why = None
        nok = all(cc.names_ok(cfg))
        loose_nan = bool(cfg.get("flow") or cfg["scoring"] == "cosine_sim"
                         or any(d.get("nan") for fr in hist for d in fr))
        for k, ((o, chk, cands), rec) in enumerate(zip(mres, recs)):
            scoring, nan_ok, valid_ok, greedy_ok, s1, s2, s3 = chk[:7]
            if "cands" in rec:
                # the candidates update_candidates handed to get_scores (uids per current track, oldest first) are the
                # ones the model's queues hold; the optical-flow tracker lists a local queue grouped by frame: as a set
                bump("candidate_lists_compared")
                a, b = rec["cands"], cands
                if cfg.get("flow") and cfg["lq"]:
                    a, b = [sorted(x) for x in a], [sorted(x) for x in b]
                if a != b:
                    check_bad += 1
                    why = why or f"frame {k}: candidates of the implementation {rec['cands']} != model {cands}"
            if loose_nan:
                if "scores" in rec and (rec["scores"].shape[1] != len(cands) or any(
                        not cl and not all(math.isnan(row[t]) for row in rec["scores"].tolist())
                        for t, cl in enumerate(cands))):
                    check_bad += 1
                    why = why or f"frame {k}: a track without candidate has a score"
                nan_ok = True
            if widened:
                s_cap, s_iv, s_allnan = chk[7:10]
                bump("sel_cap_steps", int(s_cap)); bump("sel_iv_steps", int(s_iv)); bump("all_nan_matrices", int(s_allnan))
                cap_raise = rec.get("raises") == "Exception" and "Exceeding max tracks" in rec.get("msg", "")
                if cap_raise or (fixes.get("cap") and cfg["lq"] and cfg.get("max_tracks") is not None and any(
                        i.track is None and i.score > float(cfg["threshold"]) for i in rec.get("out", []))):
                    bump("max_tracks_binding_calls")        # the cap decided the outcome of this call
                if s_cap != cap_raise:
                    check_bad += 1
                    why = why or f"frame {k}: model's max_tracks selector {s_cap}, implementation raised: {cap_raise}"
                v_ans, s_ivb, s_room = chk[10:13]
                bump("iv_branch_calls", int(s_ivb)); bump("cap_room_false_calls", int(not s_room))
                if nok and "raises" not in rec:
                    # premise `valid_ans` of the operative theorem c09x_repaired_full_any_matcher, evaluated inside Coq
                    # (TrackerX.valid_ansb: the matcher answered, one-to-one, inside the matrix) on every returned call
                    prem["valid_ans_calls"] += 1
                    if not v_ans:
                        prem["valid_ans_false"] += 1
                        why = why or f"frame {k}: premise valid_ans of c09x_repaired_full_any_matcher is false"
            elif (fixes.get("iv") and rec.get("answer") == [] and "scores" in rec
                  and any(F(d["score"]) > F(cfg["threshold"]) for d in hist[k])):
                # non-widened stream, evaluated with round 1's model `Tracker.step`: it IS the current code only on calls
                # that do not take afd312c's branch (hypothesis `iv_branch = false` of c09x_step_conservative_any_fix)
                prem["round1_model_branch_calls"] += 1
                why = why or f"frame {k}: the call takes the branch added by afd312c; Tracker.step does not model it"
            if "scores" in rec and unique_uids and not cfg.get("flow"):
                # the recorded matrix is the reduction, over the candidates the model's queues hold, of the
                # repo's scoring function (ties window/queue contents to get_scores beyond the NaN pattern)
                M0 = rec["scores"]
                M1 = cc.recompute_scores(cfg, recs, k, cands)
                bump("score_matrices_recomputed")
                okm = len(M1) == M0.shape[0] and all(len(r) == M0.shape[1] for r in M1) and all(
                    (math.isnan(a) and math.isnan(b)) or abs(a - b) <= 1e-9 * (1 + abs(b))
                    for ra, rb in zip(M1, M0.tolist()) for a, b in zip(ra, rb))
                if not okm:
                    check_bad += 1
                    why = why or f"frame {k}: score matrix recomputed from the model's candidates {cands} = {M1} != recorded {M0.tolist()}"
            bump("frames")
            if scoring:
                scoring_steps += 1
                bump("scoring_steps")
            if scoring != ("scores" in rec or ("scores_error" in rec and nok)):
                same, why = False, f"frame {k}: scoring path taken by impl={not scoring} model={scoring}"
            if not (nan_ok and valid_ok and greedy_ok):
                check_bad += 1
                why = why or f"frame {k}: nan_consistent={nan_ok} answer_valid={valid_ok} greedy_run={greedy_ok}"
            if "raises" in rec:
                bump("raises_" + rec["raises"])
            if "scores" in rec and cc.match_name(cfg) == "hungarian" and ("answer" in rec or "answer_error" in rec):
                M = rec["scores"].tolist()
                n, m = len(hist[k]), rec["n_tracks_before"]
                bad = cc.hungarian_contract(M, n, m, rec, fixes["iii_hungarian"]) if n * m <= 48 else None
                if n and m and all(v != v for row in M for v in row):
                    bump("hungarian_all_nan_matrices")      # premise `finite_step` fails here: selector of F4iv
                # only brute-forced answers count as checked (optimality is needed by C10's theorems only; C09's operative
                # theorem needs `valid_ans`, which Coq evaluates exactly on every call of every size)
                bump("hungarian_contract_checked" if n * m <= 48 else "hungarian_contract_not_checked_large_matrix")
                if bad:
                    contract_bad += 1
                    why = why or f"frame {k}: hungarian contract: {bad}"
        if not same:
            disagree += 1
        # the property itself on the implementation's output
        failing = None
        for k, (fr, rec) in enumerate(zip(hist, recs)):
            bad = cc.frame_oracle(fr, rec, cfg["threshold"], cfg, fixes)
            if bad and not nok and rec.get("raises") == "ValueError" and rec.get("msg", "").startswith("Invalid `"):
                bump("invalid_name_rejected")               # a name that is no key of the tracker's tables: the
                bad = None                                  # documented ValueError, outside the property's domain
            if bad:
                sel = cc.selector_of(cfg, fr, rec, fixes)
                bump("oracle_fail_" + (sel or "unclassified"))
                new = run.violation("failing-input", {
                    "case": cc.hist_json(cfg, hist), "frame": k, "oracle": bad, "impl": impl_out,
                    "model": model_out, "code_behaviour": fixes}, selector=sel)
                if sel is None:
                    failing = failing or bad
        if (not same or why) and not failing:
            msg = (f"correspondence C09 ({label}): {why or 'outputs differ'}; impl {impl_out} model {model_out}; "
                   f"case {json.dumps(cc.hist_json(cfg, hist))[:1500]}")
            if len(run.proof_broken) < 8:
                run.proof_broken.append(msg)
            if disagree + check_bad + contract_bad <= 3:
                run.log(msg[:800])
        nontrivial = scoring_steps >= 1
        run.case(cc.hist_json(cfg, hist), nontrivial)
        key = ("lq" if cfg["lq"] else "fw") + "/" + ("greedy" if cfg["greedy"] else "hungarian")
        bump("cfg_" + key)
        bump("feat_" + cfg["features"] + "+" + cfg["scoring"] + "/" + cc.red_name(cfg))
        bump(f"window_{cfg['window']}")
        if widened:
            bump("x_flow", int(bool(cfg.get("flow")))); bump("x_max_tracks", int(cfg.get("max_tracks") is not None))
            bump("x_invalid_name", int(not nok)); bump("x_nan_keypoints", int(any(d.get("nan") for fr in hist for d in fr)))
            bump("x_below_threshold", int(any(F(d["score"]) <= cfg["threshold"] for fr in hist for d in fr)))
    return disagree, check_bad, contract_bad


def matcher_cases(rng, n_cases):
    out = [(0, 2, []), (2, 0, [[], []]), (1, 1, [[None]]), (2, 2, [[None, F(1)], [None, F(2)]])]
    while len(out) < n_cases:
        n, m = rng.randint(1, 4), rng.randint(1, 4)
        mode = rng.random()
        M = []
        for r in range(n):
            row = []
            for c in range(m):
                if mode < 0.3 and rng.random() < 0.3:
                    row.append(None)
                elif mode > 0.8:
                    row.append(F(rng.randrange(0, 3), 2))          # many ties
                else:
                    row.append(F(rng.randrange(-64, 65), 16))
            M.append(row)
        if mode < 0.3 and rng.random() < 0.5:
            c = rng.randrange(m)
            for r in range(n):
                M[r][c] = None                                      # a stale column
        out.append((n, m, M))
    return out


def check_matchers(run, n_cases, fixes):
    im = cc.impl()
    np = im["np"]
    from sleap_nn.tracking.utils import hungarian_matching, greedy_matching
    cases = matcher_cases(run.rng, n_cases)
    terms, impl = [], []
    for n, m, M in cases:
        scores = np.array([[np.nan if v is None else float(v) for v in row] for row in M], dtype=float).reshape(n, m)
        cost = -scores
        cost[np.isnan(cost)] = np.inf
        try:
            r, c = hungarian_matching(cost.copy())
            h = [(int(a), int(b)) for a, b in zip(r, c)]
        except ValueError:
            h = None
        r, c = greedy_matching(cost.copy())
        g = [(int(a), int(b)) for a, b in zip(r, c)]
        impl.append((h, g))
        cm = "[" + "; ".join("[" + "; ".join("None" if v is None else "(Some " + cc.cqz(v) + ")" for v in row) + "]"
                             for row in M) + "]"
        terms.append(f"(CaseMatch {cm} {n} {m} [" + "; ".join(f"({a},{b})" for a, b in g) + "])")
    model = core.coq_eval_sharded(cc.PREAMBLE, terms, "run_case", RENDER, shard=200, jobs=8)
    bad = 0
    for (n, m, M), (h, g), ((mh, mt), (mg, mg_ok, ig_ok)) in zip(cases, impl, model):
        why = None
        if h is not None and mh is None and fixes["iii_hungarian"]:
            # repaired matcher on an infeasible matrix: maximum-cardinality finite matching of minimal cost
            Mf = [[float("nan") if v is None else float(v) for v in row] for row in M]
            why = cc.hungarian_contract(Mf, n, m, {"answer": h}, True)
        elif (h is None) != (mh is None):
            why = f"feasibility differs: scipy {h} model {mh}"
        elif h is not None:
            tot = sum((M[r][c] for r, c in h), F(0)) if all(M[r][c] is not None for r, c in h) else None
            if tot is None or tot != core.frac(mt) or not cc.matching_valid(n, m, h) or len(h) != min(n, m):
                why = f"hungarian answer {h} (total score {tot}) vs brute-force optimum {mh} (total {core.frac(mt)})"
        if not mg_ok:
            why = why or f"reference greedy {mg} violates the greedy contract"
        if not ig_ok:
            why = why or f"greedy_matching answer {g} violates the greedy contract"
        if why:
            bad += 1
            if len(run.proof_broken) < 8:
                run.proof_broken.append(f"matcher contract on {n}x{m} matrix {[[str(v) for v in r] for r in M]}: {why}")
    run.obligation("oracle contracts: hungarian_matching (scipy) == brute-force optimum / fails iff infeasible; "
                   "greedy_matching answers are admissible greedy runs (Coq recognisers, vm_compute)",
                   bad == 0, f"{bad} of {len(cases)} matrices")
    run.coverage["matcher_matrices"] = len(cases)


def check_two_trackers(run, fixes, n_pairs):
    """Review finding 6: the harness gives every history a tracker whose `_track_objects` dict is its own, while the real
    class shares ONE class-level dict between all trackers of a process.  Here several real trackers live in one process
    with the shared dict untouched, their histories interleaved frame by frame: each tracker's outputs must equal those of
    its isolated run and satisfy C09's clauses frame by frame (all clauses of C09 are per call of one tracker; sharing
    `sio.Track` objects between trackers is recorded as a fact, it violates no clause)."""
    rng = run.rng
    bad, facts_all, n = [], {"dict_is_shared": True, "tracker_pairs_sharing_a_Track_object": 0}, 0
    for _ in range(n_pairs):
        cases = []
        for _k in range(rng.choice([2, 2, 3])):
            cfg = random_cfg(rng)
            cases.append((cfg, history_from_pattern(rng, sampled_pattern(rng), cfg, rng.choice([64, 16, 2]),
                                                    low_scores=rng.choice([0, 0.25]))))
        recs, facts = cc.run_impl_interleaved(cases)
        facts_all["dict_is_shared"] &= facts["dict_is_shared"]
        facts_all["tracker_pairs_sharing_a_Track_object"] += facts["tracker_pairs_sharing_a_Track_object"]
        for (cfg, hist), rs in zip(cases, recs):
            n += 1
            alone = [cc.out_pairs(r) for r in cc.run_impl(cfg, hist)]
            together = [cc.out_pairs(r) for r in rs]
            why = None if alone == together else f"outputs differ from the isolated run: {together} vs {alone}"
            for k, (fr, rec) in enumerate(zip(hist, rs)):
                o = cc.frame_oracle(fr, rec, cfg["threshold"], cfg, fixes)
                if o:
                    why = why or f"frame {k}: {o}"
                    run.violation("failing-input", {"case": cc.hist_json(cfg, hist), "frame": k, "oracle": o,
                                                    "impl": together, "interleaved_with_other_trackers": True,
                                                    "code_behaviour": fixes}, selector=cc.selector_of(cfg, fr, rec, fixes))
                    break
            if why:
                bad.append(why + "; case " + json.dumps(cc.hist_json(cfg, hist))[:800])
    run.coverage["two_trackers_one_process"] = dict(facts_all, trackers=n)
    for b in bad[:3]:
        run.proof_broken.append("several trackers in one process (shared class-level _track_objects): " + b)
    run.obligation("several Tracker instances alive in one process, class-level `_track_objects` dict left shared as in the "
                   "code, histories interleaved: every tracker returns what it returns alone and satisfies C09 per frame",
                   not bad, f"{len(bad)} of {n} trackers; sharing observed: {facts_all}")


def replay_known(run, fixes):
    """Replay the corpus witnesses: a KNOWN-FINDING line is printed while the defect exists."""
    for fid, sel, fname, wname in KNOWN:
        path = core.CORPUS / "C09" / fname
        cfg, hist = cc.hist_from_json(json.load(open(path))) if path.exists() else cc.witness_case(wname)
        recs = cc.run_impl(cfg, hist)
        for k, (fr, rec) in enumerate(zip(hist, recs)):
            bad = cc.frame_oracle(fr, rec, cfg["threshold"], cfg, fixes)
            if bad:
                run.violation("failing-input", {"case": cc.hist_json(cfg, hist), "frame": k, "oracle": bad,
                                                "impl": [cc.out_pairs(r) for r in recs], "witness": wname,
                                                "code_behaviour": fixes},
                              selector=cc.selector_of(cfg, fr, rec, fixes))
                break


def check(run: core.Run) -> int:
    run.build_and_prove(PROP_FILES, extra_targets=["theories/C09/RenderT.vo"])
    cc.impl()
    rng = run.rng
    thorough = run.tier == "thorough"
    fixes, details = cc.detect_fixes()
    run.log(f"behaviour of the code under test on the F4 witnesses (True = repaired): {fixes}")
    run.coverage["code_behaviour"] = fixes
    run.coverage["witness_outputs"] = details
    replay_known(run, fixes)

    cases = []
    # witnesses and corpus first
    for _, sel, _, wname in KNOWN:
        if sel not in (cc.SEL_CAP, cc.SEL_IV):
            cases.append(cc.witness_case(wname))
    # exhaustive presence patterns, K <= 2 animals, F <= 4 frames, x {fw,lq} x {hungarian,greedy}
    n_exh = 0
    for pat in exhaustive_patterns():
        for lq in (False, True):
            for greedy in (False, True):
                cfg = random_cfg(rng, lq, greedy)
                if not thorough:
                    cfg["window"] = rng.choice([1, 2, 3])
                cases.append((cfg, history_from_pattern(rng, pat, cfg, rng.choice([64, 64, 8, 0]),
                                                        low_scores=rng.choice([0, 0, 0.3]))))
                n_exh += 1
    n_sampled = 6000 if thorough else 320
    for _ in range(n_sampled):
        cfg = random_cfg(rng)
        cases.append((cfg, history_from_pattern(rng, sampled_pattern(rng), cfg, rng.choice([64, 64, 16, 2, 0]),
                                                low_scores=rng.choice([0, 0, 0.25]))))
    disagree, check_bad, contract_bad = evaluate(run, cases, fixes, "histories")
    run.obligation("correspondence: Tracker.run (Coq, vm_compute, fed with the recorded score matrices and matcher "
                   "answers) == Tracker.track (/repo) frame by frame on every history", disagree == 0,
                   f"{disagree} disagreements")
    run.obligation("model-side checks on every recorded step: the score matrix is the reduction of the scoring function "
                   "over exactly the candidates the model's queues hold (values and NaN pattern); answer is a valid "
                   "one-to-one assignment; greedy answers are greedy runs",
                   check_bad == 0, f"{check_bad} steps")
    run.obligation("Hungarian oracle contract on every recorded answer (brute force): optimal finite assignment, "
                   "fails iff infeasible", contract_bad == 0, f"{contract_bad} steps")
    # --- the widened model (C09/TrackerX.v): max_tracks, optical-flow tracker, further feature/score pairs, missing
    # keypoints, invalid names; witnesses of F4cap / F4iv first
    xcases = [cc.witness_case(w) for _, sel, _, w in KNOWN if sel in (cc.SEL_CAP, cc.SEL_IV)]
    xcases += [(dict(c, max_tracks=mt), h) for c, h in (cc.witness_case("third_appears_local_queue"),)
               for mt in (0, 1, 2, 3)]
    n_x = 4000 if thorough else 360
    for _ in range(n_x):
        cfg = random_xcfg(rng)
        xcases.append((cfg, xhistory(rng, cfg)))
    xd, xc, xh = evaluate(run, xcases, fixes, "widened histories", widened=True)
    run.obligation("correspondence (widened model): TrackerX.xrun (Coq, vm_compute) == Tracker.track / "
                   "FlowShiftTracker.track (/repo) frame by frame: max_tracks, optical flow on synthetic frames, "
                   "missing keypoints, 7 feature/score pairs, invalid names", xd == 0, f"{xd} disagreements")
    run.obligation("widened model-side checks: candidates handed to get_scores == the model's queues (uids per track), "
                   "score matrix recomputed from them (no flow), answers valid / greedy runs, the model's max_tracks "
                   "selector fires exactly on the calls that raise 'Exceeding max tracks'", xc == 0, f"{xc} steps")
    run.obligation("Hungarian oracle contract on every recorded answer of the widened histories", xh == 0, f"{xh} steps")
    pr = run.coverage["premises"]
    run.obligation("premise of the operative theorem c09x_repaired_full_any_matcher, evaluated INSIDE Coq on every recorded "
                   "call of the widened histories that returned (TrackerX.valid_ansb = c09x_valid_ans_is_checked: the matcher "
                   "answered with a one-to-one assignment inside the matrix; every size, exact)",
                   pr["valid_ans_false"] == 0 and pr["valid_ans_calls"] > 0,
                   f"false on {pr['valid_ans_false']} of {pr['valid_ans_calls']} calls")
    run.obligation("round 1's model Tracker.step (non-widened stream) is the current code on every call it is compared on: no "
                   "call takes the branch added by afd312c (hypothesis of c09x_step_conservative_any_fix)",
                   pr["round1_model_branch_calls"] == 0, f"{pr['round1_model_branch_calls']} calls")
    st = run.coverage["steps"]
    run.obligation("the widened stream reaches what it is for: max_tracks exceeded, all-NaN score matrices, flow, "
                   "invalid names, below-threshold detections, missing keypoints",
                   all(st.get(k, 0) > 0 for k in ("max_tracks_binding_calls", "all_nan_matrices", "x_flow", "x_invalid_name",
                                                  "x_below_threshold", "x_nan_keypoints", "candidate_lists_compared"))
                   and (st.get("iv_branch_calls", 0) > 0 or not fixes.get("iv")),
                   str({k: st.get(k, 0) for k in ("max_tracks_binding_calls", "sel_cap_steps", "sel_iv_steps", "iv_branch_calls",
                                                  "cap_room_false_calls", "all_nan_matrices", "x_flow",
                                                  "x_max_tracks", "x_invalid_name", "x_below_threshold",
                                                  "x_nan_keypoints", "candidate_lists_compared")}))
    check_matchers(run, 1500 if thorough else 300, fixes)
    check_two_trackers(run, fixes, 40 if thorough else 8)
    # Tracker.from_config: the only branch not reached through the histories
    try:
        cc.impl()["Tracker"].from_config(candidates_method="sliding_window")
        bad_method = "no exception"
    except ValueError as e:
        bad_method = None if "not a valid method" in str(e) else f"ValueError({e})"
    except Exception as e:                                   # noqa: BLE001
        bad_method = type(e).__name__
    run.obligation("Tracker.from_config rejects an unknown candidates_method with ValueError", bad_method is None,
                   str(bad_method))

    run.coverage.update({
        "exhaustive": False,
        "exhaustive_part": f"all presence patterns of K<=2 animals over F<=4 frames (370) x {{fixed_window, local_queues}} "
                           f"x {{hungarian, greedy}} = {n_exh} histories (window/feature/reduction/threshold sampled)",
        "sampled_histories": n_sampled, "disagreements": disagree,
        "rule": "case = (tracker configuration, history of detections with positions and scores); non-trivial = at least "
                "one frame goes through scoring and matching; distinct by full content",
    })
    for c in (cases[0], cases[12], cases[-1], xcases[0], xcases[-1]):
        run.sample(cc.hist_json(*c))
    run.trusted += [
        "scipy.optimize.linear_sum_assignment is an oracle (contract: optimal finite one-to-one assignment of size min(n,m), "
        "ValueError iff none exists); validated by brute force on every recorded answer and against the Coq reference on random matrices",
        "numpy argsort's order among equal costs is not modelled: greedy answers are checked against the exact set of admissible greedy runs",
        "feature extraction and scoring functions (oks, euclidean distance, iou, nanmean/nanmax) enter through the recorded score matrix",
        "duck-typed instances (.numpy(), .score, .track, .tracking_score) stand for sleap_io.PredictedInstance",
        "idealisation: each generated history runs on a tracker whose `_track_objects` dict is its own (the class shares one "
        "dict between all trackers of a process); `check_two_trackers` runs several trackers with the shared dict untouched",
    ]
    run.assumptions += ["window_size >= 1",
                        "feature/score pairs whose shapes do not fit (keypoints+iou, centroids+oks, ...) fail inside the "
                        "scoring function and are not generated",
                        "FlowShiftTracker: cv2.calcOpticalFlowPyrLK is an oracle (enters through the recorded score matrix)"]
    return run.finish()


def replay(run: core.Run, path: str) -> int:
    cc.impl()
    rep = json.load(open(path))
    cfg, hist = cc.hist_from_json(rep["case"] if "case" in rep else rep)
    fixes, _ = cc.detect_fixes()
    recs = cc.run_impl(cfg, hist)
    bad = None
    nok = all(cc.names_ok(cfg))
    for k, (fr, rec) in enumerate(zip(hist, recs)):
        bad = cc.frame_oracle(fr, rec, cfg["threshold"], cfg, fixes)
        if bad and not nok and rec.get("raises") == "ValueError" and rec.get("msg", "").startswith("Invalid `"):
            bad = None
        if bad:
            bad = f"frame {k}: {bad}"
            break
    print(json.dumps({"impl": [cc.out_pairs(r) for r in recs], "oracle": bad}))
    return 1 if bad else 0
