"""C20 — config builders reflect every argument; normalisation is lossless, idempotent.

Coq side
  coq/theories/C20/CfgTree.v   hand-written generic model (cfg tree, attrs layer, Python
                               fragment, OmegaConf structured/merge, reachability checker)
  coq/theories/C20/Lemmas.v    once-and-for-all proofs, Props.v their statements
  coq/theories/Gen/C20_*.v     REGENERATED on every run from core.REPO by
                               translator/c20_cfg2coq.py (fail-closed)
  coq/theories/C20/Eval.v      evaluation entry points over the generated files
  coq/theories/C20/PerRun.v    per-run obligations about the regenerated functions

Tie: (1) the translator + the per-run theorems, (2) correspondence: the real builders,
constructors, TrainingJobConfig(...).to_sleap_nn_cfg(), verify_training_cfg and the
OmegaConf YAML round trip against the generated Coq functions (vm_compute), value by
value, type-strict (int/float, tuple/list, class names), errors by kind.
Oracle: the property statement evaluated on the implementation's outputs (tables below
are written from the docstrings, independent of the Coq model).
"""
from __future__ import annotations

import itertools
import json
import sys
from fractions import Fraction
from pathlib import Path

from .. import core

sys.path.insert(0, str(core.VERIF / "translator"))

C20 = core.THEORIES / "C20"
GEN = core.THEORIES / "Gen"
PROP_FILES = [C20 / "Props.v"]          # generic part: in _CoqProject, built by make
# per-run statement files: depend on Gen/*, compiled by this check (in parallel), never by setup's make
PER_RUN_BASE = C20 / "PerRunBase.v"
PER_RUN_PARTS = [C20 / "PerRunAug.v", C20 / "PerRunPass.v", C20 / "PerRunInterp.v", C20 / "PerRunSched.v",
                 C20 / "PerRunVal.v"]
PER_RUN_LAST = C20 / "PerRunChain.v"    # needs PerRunPass and PerRunVal: compiled when the parallel ones are done
PER_RUN = C20 / "PerRun.v"              # re-exports the parts (status booleans are evaluated through it)
GEN_CHAIN = [GEN / "C20_Schema.v", GEN / "C20_Builders.v", C20 / "Eval.v"]
PREAMBLE = ("From SV Require Import C20.CfgTree Gen.C20_Schema Gen.C20_Builders C20.Eval.\n"
            "From Coq Require Import List String ZArith QArith.\nImport ListNotations.\nOpen Scope string_scope.\n")

INTENSITY = ["uniform_noise", "gaussian_noise", "contrast", "brightness"]
GEOMETRIC = ["rotation", "scale", "translate", "erase_scale", "mixup"]
AFFINE = {"rotation", "scale", "translate"}
PRESETS = {   # documented backbone presets -> (family, config class with the preset's defaults)
    "unet": ("unet", "UNetConfig"), "unet_medium_rf": ("unet", "UNetMediumRFConfig"),
    "unet_large_rf": ("unet", "UNetLargeRFConfig"),
    "convnext": ("convnext", "ConvNextConfig"), "convnext_tiny": ("convnext", "ConvNextConfig"),
    "convnext_small": ("convnext", "ConvNextSmallConfig"), "convnext_base": ("convnext", "ConvNextBaseConfig"),
    "convnext_large": ("convnext", "ConvNextLargeConfig"),
    "swint": ("swint", "SwinTConfig"), "swint_tiny": ("swint", "SwinTConfig"),
    "swint_small": ("swint", "SwinTSmallConfig"), "swint_base": ("swint", "SwinTBaseConfig"),
}
FAMILIES = ["unet", "convnext", "swint"]
HEADS = {"single_instance": "SingleInstanceConfig", "centroid": "CentroidConfig",
         "centered_instance": "CenteredInstanceConfig", "bottomup": "BottomUpConfig"}
HEAD_ORDER = ["single_instance", "centroid", "centered_instance", "bottomup"]
MODEL_TYPES = {"ConvNext": ["tiny", "small", "base", "large"], "SwinT": ["tiny", "small", "base"]}

# parameter -> documented paths in the builder's result (the property's "documented place")
PASS = {
    "get_data_config": {
        **{p: [(p,)] for p in ["train_labels_path", "val_labels_path", "test_file_path", "provider",
                               "user_instances_only", "data_pipeline_fw", "np_chunks_path", "litdata_chunks_path",
                               "use_existing_chunks", "chunk_size", "delete_chunks_after_training",
                               "use_augmentations_train"]},
        **{p: [("preprocessing", p)] for p in ["is_rgb", "scale", "max_height", "max_width", "crop_hw",
                                               "min_crop_size"]},
    },
    "get_model_config": {
        "init_weight": [("init_weights",)], "pre_trained_weights": [("pre_trained_weights",)],
        "pretrained_backbone_weights": [("pretrained_backbone_weights",)],
        "pretrained_head_weights": [("pretrained_head_weights",)],
    },
    "get_trainer_config": {
        "batch_size": [("train_data_loader", "batch_size"), ("val_data_loader", "batch_size")],
        "shuffle_train": [("train_data_loader", "shuffle")],
        "num_workers": [("train_data_loader", "num_workers"), ("val_data_loader", "num_workers")],
        "ckpt_save_top_k": [("model_ckpt", "save_top_k")], "ckpt_save_last": [("model_ckpt", "save_last")],
        "trainer_num_devices": [("trainer_devices",)], "trainer_accelerator": [("trainer_accelerator",)],
        "enable_progress_bar": [("enable_progress_bar",)], "steps_per_epoch": [("steps_per_epoch",)],
        "max_epochs": [("max_epochs",)], "seed": [("seed",)], "use_wandb": [("use_wandb",)],
        "save_ckpt": [("save_ckpt",)], "save_ckpt_path": [("save_ckpt_path",)],
        "resume_ckpt_path": [("resume_ckpt_path",)],
        "wandb_entity": [("wandb", "entity")], "wandb_project": [("wandb", "project")],
        "wandb_name": [("wandb", "name")], "wandb_api_key": [("wandb", "api_key")],
        "wandb_mode": [("wandb", "wandb_mode")], "wandb_resume_prv_runid": [("wandb", "prv_runid")],
        "wandb_group_name": [("wandb", "group")], "optimizer": [("optimizer_name",)],
        "learning_rate": [("optimizer", "lr")], "amsgrad": [("optimizer", "amsgrad")],
        "early_stopping": [("early_stopping", "stop_training_on_plateau")],
        "early_stopping_min_delta": [("early_stopping", "min_delta")],
        "early_stopping_patience": [("early_stopping", "patience")],
    },
}
# parameters that are interpreted (documented as option names / dicts), and the subtree they feed
PROCESSED = {
    "get_data_config": {"intensity_aug": ("augmentation_config",), "geometry_aug": ("augmentation_config",)},
    "get_model_config": {"backbone_config": ("backbone_config",), "head_configs": ("head_configs",)},
    "get_trainer_config": {"lr_scheduler": ("lr_scheduler",)},
}
RESULT_CLASS = {"get_data_config": "DataConfig", "get_model_config": "ModelConfig",
                "get_trainer_config": "TrainerConfig"}
SECTION = {"get_data_config": "data_config", "get_model_config": "model_config",
           "get_trainer_config": "trainer_config"}

SEL_F12 = "aug_affine_presets_conflict"
SEL_F13 = "backbone_preset_not_subclass"
SEL_F16 = "convnext_unknown_model_type"
SEL_F52 = "schema_default_mutable_literal_shared"


# --------------------------------------------------------------------------- values

class Pre:
    """An already canonical value."""

    def __init__(self, c):
        self.c = c


def is_attrs(v):
    return hasattr(type(v), "__attrs_attrs__")


def canon(v):
    """Type-strict JSON-able form shared with the Coq renderer rcfg."""
    if v is None:
        return None
    if isinstance(v, Pre):
        return v.c
    if isinstance(v, bool):
        return v
    if isinstance(v, int):
        return int(v)
    if isinstance(v, float):
        if v != v:
            return {"nf": "nan"}
        if v in (float("inf"), float("-inf")):
            return {"nf": "inf" if v > 0 else "-inf"}
        f = Fraction(repr(v))
        return {"f": [f.numerator, f.denominator]}
    if isinstance(v, str):
        return {"m": 0} if v == "???" else v
    if isinstance(v, list):
        return [canon(x) for x in v]
    if isinstance(v, tuple):
        return {"t": [canon(x) for x in v]}
    if isinstance(v, dict):
        return {"d": [[str(k), canon(x)] for k, x in v.items()]}
    if is_attrs(v):
        return {"o": type(v).__name__,
                "kv": [[a.name, canon(getattr(v, a.name))] for a in type(v).__attrs_attrs__]}
    raise TypeError(f"cannot canonicalise {type(v).__name__}")


def dumps(c):
    return json.dumps(c, separators=(",", ":"))


def coq_of(v) -> str:
    if v is None:
        return "VNone"
    if isinstance(v, bool):
        return "(VBool true)" if v else "(VBool false)"
    if isinstance(v, int):
        return f"(VInt ({v})%Z)"
    if isinstance(v, float):
        if v != v:
            return "(VNonFin NaN)"
        if v in (float("inf"), float("-inf")):
            return "(VNonFin PInf)" if v > 0 else "(VNonFin NInf)"
        f = Fraction(repr(v))
        return f"(VFloat (({f.numerator}) # {f.denominator}))"
    if isinstance(v, str):
        if v == "???":
            return "VMissing"
        # no quote, no backslash, printable ASCII only: rcfg does not escape, Coq needs no doubling
        if not all(ch.isascii() and (ch.isalnum() or ch in "_./-<> :,#[]{}!&*?|=@%~+'") for ch in v):
            raise ValueError(f"string {v!r} outside the harness alphabet")
        return f'(VStr "{v}")'
    if isinstance(v, list):
        return "(VList [" + "; ".join(coq_of(x) for x in v) + "])"
    if isinstance(v, tuple):
        return "(VTup [" + "; ".join(coq_of(x) for x in v) + "])"
    if isinstance(v, dict):
        return "(VDict [" + "; ".join(f'("{k}", {coq_of(x)})' for k, x in v.items()) + "])"
    if is_attrs(v):
        return f'(VObj "{type(v).__name__}" [' + "; ".join(
            f'("{a.name}", {coq_of(getattr(v, a.name))})' for a in type(v).__attrs_attrs__) + "])"
    raise TypeError(f"no Coq literal for {type(v).__name__}")


def kw_term(kw: dict) -> str:
    return "[" + "; ".join(f'("{k}", {coq_of(v)})' for k, v in kw.items()) + "]"


def cget(c, path):
    """Value at a path in a canonical tree (objects and dicts)."""
    for k in path:
        if isinstance(c, dict) and ("kv" in c or "d" in c):
            items = c.get("kv", c.get("d"))
            nxt = [v for kk, v in items if kk == k]
            if not nxt:
                return KeyError
            c = nxt[0]
        else:
            return KeyError
    return c


def loose(c):
    """Forget int/float, tuple/list, object/dict distinctions (what OmegaConf forgets)."""
    if isinstance(c, bool) or c is None or isinstance(c, str):
        return c
    if isinstance(c, int):
        return ("num", Fraction(c))
    if isinstance(c, list):
        return [loose(x) for x in c]
    if isinstance(c, dict):
        if "f" in c:
            return ("num", Fraction(c["f"][0], c["f"][1]))
        if "nf" in c:
            return ("nf", c["nf"])
        if "t" in c:
            return [loose(x) for x in c["t"]]
        if "m" in c:
            return "???"
        items = c.get("kv", c.get("d"))
        return {k: loose(v) for k, v in items}
    raise TypeError(c)


def num_value(c):
    if isinstance(c, bool):
        return Fraction(int(c))
    if isinstance(c, int):
        return Fraction(c)
    if isinstance(c, dict) and "f" in c:
        return Fraction(c["f"][0], c["f"][1])
    return None


ERR_KIND = {"ConfigAttributeError": "ConfigKeyError", "ConfigTypeError": "ValidationError",
            "MissingMandatoryValue": "MissingMandatoryValue"}


def attempt(fn):
    try:
        return {"ok": canon(fn())}
    except Exception as e:  # compared by kind
        n = type(e).__name__
        return {"err": ERR_KIND.get(n, n)}


# --------------------------------------------------------------------------- call - mutate - call sequences

def walk_mutables(v, path=(), owner=()):
    """(path, object, owner) for every mutable object reachable from a configuration value: attrs
    instances, lists, dicts (tuples are walked through).  owner = the chain of (class, field) pairs of
    the enclosing attrs instances' fields under which the object sits (outermost first)."""
    if is_attrs(v):
        yield path, v, owner
        for a in type(v).__attrs_attrs__:
            yield from walk_mutables(getattr(v, a.name), path + (a.name,), owner + ((type(v).__name__, a.name),))
    elif isinstance(v, (list, tuple)):
        if isinstance(v, list):
            yield path, v, owner
        for i, x in enumerate(v):
            yield from walk_mutables(x, path + (f"[{i}]",), owner)
    elif isinstance(v, dict):
        yield path, v, owner
        for k, x in v.items():
            yield from walk_mutables(x, path + (str(k),), owner)


def scramble(v, log):
    """Mutate, in place, every mutable object reachable from v (what a caller customising a returned
    configuration may do); `log` receives the undo records."""
    objs, seen = list(walk_mutables(v)), set()
    for _, o, _ in objs:
        if id(o) in seen:
            continue
        seen.add(id(o))
        if isinstance(o, list):
            log.append(("list", o, list(o)))
            for i in range(len(o)):
                o[i] = "mutated"
            o.append("mutated")
        elif isinstance(o, dict):
            log.append(("dict", o, dict(o)))
            for k in list(o):
                o[k] = "mutated"
            o["mutated"] = 1
        else:
            for a in type(o).__attrs_attrs__:
                log.append(("attr", o, a.name, getattr(o, a.name)))
                object.__setattr__(o, a.name, "mutated")      # bypasses the on_setattr validators


def unscramble(log):
    for rec in reversed(log):
        if rec[0] == "list":
            rec[1][:] = rec[2]
        elif rec[0] == "dict":
            rec[1].clear()
            rec[1].update(rec[2])
        else:
            object.__setattr__(rec[1], rec[2], rec[3])


def canon_diff(a, b, path=(), owner=(), out=None):
    """Paths (with the chain of owning (class, field) pairs) at which two canonical trees differ."""
    out = [] if out is None else out
    if isinstance(a, dict) and isinstance(b, dict) and "kv" in a and "kv" in b and a.get("o") == b.get("o") \
            and [k for k, _ in a["kv"]] == [k for k, _ in b["kv"]]:
        for (k, x), (_, y) in zip(a["kv"], b["kv"]):
            canon_diff(x, y, path + (k,), owner + ((a["o"], k),), out)
    elif dumps(a) != dumps(b):
        out.append((path, owner))
    return out


def attempt_twice(fn):
    """Calls fn, snapshots the result, mutates it in place as deeply as possible, calls fn again with
    the same arguments (same process), then undoes the mutation.  Returns (outcome of the FIRST call,
    info about the second one): the second result must equal the first snapshot and share no mutable
    object with the first result ("a fresh, complete configuration on every call")."""
    try:
        r1 = fn()
        snap = canon(r1)
    except Exception as e:  # compared by kind
        n = type(e).__name__
        return {"err": ERR_KIND.get(n, n)}, None
    first = {id(o): (p, own) for p, o, own in walk_mutables(r1)}
    keep = [o for _, o, _ in walk_mutables(r1)]          # keeps the ids alive
    log, info = [], {}
    scramble(r1, log)
    try:
        try:
            r2 = fn()
            snap2 = canon(r2)
            info["differs"] = canon_diff(snap, snap2)
            info["shared"] = [(p2, own2) for p2, o, own2 in walk_mutables(r2) if id(o) in first]
        except Exception as e:
            info["second_raised"] = type(e).__name__
    finally:
        unscramble(log)
    del keep
    return {"ok": snap}, info


# --------------------------------------------------------------------------- implementation

class Impl:
    def __init__(self):
        core.impl_env_setup()
        from loguru import logger
        logger.remove()
        import attrs
        import sleap_nn.train as T
        import sleap_nn.config.data_config as D
        import sleap_nn.config.model_config as M
        import sleap_nn.config.trainer_config as TC
        import sleap_nn.config.training_job_config as J
        from omegaconf import OmegaConf
        self.attrs, self.T, self.D, self.M, self.TC, self.J, self.OC = attrs, T, D, M, TC, J, OmegaConf
        self.classes = {}
        for mod in (D, M, TC, J):
            for n, c in vars(mod).items():
                if isinstance(c, type) and hasattr(c, "__attrs_attrs__") and c.__module__ == mod.__name__:
                    self.classes[n] = c
        self.tmp = core.scratch_dir("sv_c20_")
        # schema defaults declared as a mutable literal (not a factory): attrs hands the SAME object to every instance
        self.mutable_literal_fields = {(n, a.name) for n, c in self.classes.items() for a in c.__attrs_attrs__
                                       if isinstance(a.default, (list, dict, set)) or is_attrs(a.default)}
        import inspect
        for b in ("get_aug_config", "get_backbone_config", "get_head_configs", "get_data_config", "get_model_config",
                  "get_trainer_config"):           # ... and mutable default arguments of the builders
            for pn, prm in inspect.signature(getattr(T, b)).parameters.items():
                if isinstance(prm.default, (list, dict, set)):
                    self.mutable_literal_fields.add((b, pn))

    def builder(self, name):
        return getattr(self.T, name)

    def close(self):
        import shutil
        shutil.rmtree(self.tmp, ignore_errors=True)

    def default_tree(self, cname):
        """The schema default of a class, read from the attrs field declarations."""
        cls = self.classes[cname]
        out = []
        for a in cls.__attrs_attrs__:
            d = a.default
            if isinstance(d, self.attrs.Factory):
                d = d.factory()
            out.append([a.name, canon(d)])
        return {"o": cname, "kv": out}

    def chain(self, dkw, mkw, tkw, via_train=False):
        """builders -> TrainingJobConfig -> to_sleap_nn_cfg -> verify x2 -> YAML round trip.
        via_train: the configuration is the one `sleap_nn.train.train(**all arguments)` hands to
        `run_training` (replaced by a recorder: no training is started); it must equal the one built here."""
        OC, J = self.OC, self.J
        dc = self.T.get_data_config(**dkw)
        mc = self.T.get_model_config(**mkw)
        tc = self.T.get_trainer_config(**tkw)
        job = J.TrainingJobConfig(data_config=dc, model_config=mc, trainer_config=tc)
        c = job.to_sleap_nn_cfg()
        cont = canon(OC.to_container(c))
        train_same = None
        if via_train:
            got, old = [], self.T.run_training
            self.T.run_training = got.append
            try:
                self.T.train(**dkw, **mkw, **tkw)
            finally:
                self.T.run_training = old
            c = got[0]
            train_same = len(got) == 1 and dumps(canon(OC.to_container(c))) == dumps(cont)
            cont = canon(OC.to_container(c))
        v1 = J.verify_training_cfg(c)
        c1 = canon(OC.to_container(v1))
        v2 = J.verify_training_cfg(v1)
        c2 = canon(OC.to_container(v2))
        p = str(self.tmp / "cfg.yaml")
        OC.save(c, p)
        loaded = OC.load(p)
        cl = canon(OC.to_container(loaded))
        vl = canon(OC.to_container(J.verify_training_cfg(loaded)))
        self.last_chain = {"cont": cont, "train_same": train_same, "yaml_same": dumps(cl) == dumps(cont), "verify_loaded_same": dumps(vl) == dumps(cont),
                           "attrs": {"data_config": canon(dc), "model_config": canon(mc), "trainer_config": canon(tc)}}
        return Pre({"d": [["cfg", cont], ["norm_same", dumps(c1) == dumps(cont)], ["norm_idem", dumps(c2) == dumps(c1)]]})


# --------------------------------------------------------------------------- oracle (property statement)

def enabled(name, aug):
    """`name` is switched on in the AugmentationConfig tree `aug` (canonical form)."""
    def pos(path):
        v = num_value(cget(aug, path))
        return v is not None and v > 0

    def nz(path):
        v = num_value(cget(aug, path))
        return v is not None and v != 0
    if name in INTENSITY:
        return pos(("intensity", name + "_p"))
    if name == "rotation":
        return pos(("geometric", "affine_p")) and nz(("geometric", "rotation"))
    if name == "scale":
        s = cget(aug, ("geometric", "scale"))
        items = s.get("t") if isinstance(s, dict) and "t" in s else s if isinstance(s, list) else None
        return pos(("geometric", "affine_p")) and items is not None and any(num_value(x) != 1 for x in items)
    if name == "translate":
        return pos(("geometric", "affine_p")) and (nz(("geometric", "translate_width")) or
                                                    nz(("geometric", "translate_height")))
    if name == "erase_scale":
        return pos(("geometric", "erase_p"))
    if name == "mixup":
        return pos(("geometric", "mixup_p"))
    return False


def sel_f12(names):
    """two different affine presets (rotation / scale / translate) in one list"""
    return len(AFFINE & set(names)) >= 2


def aug_names(x, valid):
    if isinstance(x, str):
        x = [x]
    if isinstance(x, list) and all(isinstance(n, str) and n in valid for n in x):
        return x
    return None


def oracle_aug(intensity, geometric, out):
    """Clause (c): every augmentation named in a list is enabled, whatever the order."""
    bad = []
    ia, ga = aug_names(intensity, INTENSITY), aug_names(geometric, GEOMETRIC)
    if "err" in out:
        if (intensity is None or ia is not None) and (geometric is None or ga is not None):
            bad.append((None, f"builder raised {out['err']} on documented option names"))
        return bad
    aug = out["ok"]
    for n in ia or []:
        if not enabled(n, aug):
            bad.append((None, f"intensity option {n} named in the list is not enabled"))
    for n in ga or []:
        if not enabled(n, aug):
            bad.append((SEL_F12 if sel_f12(ga) else None, f"geometric option {n} named in the list is not enabled"))
    return bad


def oracle_passthrough(impl, bname, kw, out, defaults):
    """Clauses (a), (b): every supplied argument at its documented place, unmodified; every
    option not fed by a parameter holds the schema default; the result is complete."""
    bad = []
    if "err" in out:
        return bad
    res = out["ok"]
    table, proc = PASS[bname], PROCESSED[bname]
    args = dict(defaults)
    args.update(kw)
    for p, v in args.items():
        if p in table:
            for path in table[p]:
                got = cget(res, path)
                if got is KeyError or dumps(got) != dumps(canon(v)):
                    bad.append(f"argument {p}={v!r} not found unmodified at {'.'.join(path)} (found {got!r})")
        elif p not in proc:
            bad.append(f"parameter {p} has no documented place in the property's table")
    fed = {path for paths in table.values() for path in paths} | set(proc.values())
    dflt = impl.default_tree(RESULT_CLASS[bname])

    def walk(d, r, path):
        if path in fed:
            return
        if isinstance(d, dict) and "kv" in d:
            if not (isinstance(r, dict) and "kv" in r and [k for k, _ in r["kv"]] == [k for k, _ in d["kv"]]):
                bad.append(f"result is not complete at {'.'.join(path) or '<root>'}")
                return
            for (k, dv), (_, rv) in zip(d["kv"], r["kv"]):
                walk(dv, rv, path + (k,))
        elif not any(f[:len(path)] == path for f in fed):
            if dumps(d) != dumps(r):
                bad.append(f"option {'.'.join(path)} is not fed by a parameter but holds {r!r}, schema default {d!r}")
    walk(dflt, res, ())
    return bad


def oracle_backbone(impl, arg, out):
    bad = []
    if isinstance(arg, str) and arg in PRESETS:
        if "err" in out:
            return [f"documented preset {arg} raised {out['err']}"]
        fam, cname = PRESETS[arg]
        want = impl.default_tree(cname)
        for f in FAMILIES:
            got = cget(out["ok"], (f,))
            if f == fam:
                if not isinstance(got, dict) or loose(got) != loose(want):
                    bad.append(f"preset {arg}: backbone_config.{f} does not hold the defaults of {cname}")
            elif got is not None:
                bad.append(f"preset {arg}: backbone_config.{f} is set as well")
    elif isinstance(arg, dict) and len(arg) == 1 and list(arg)[0] in FAMILIES and isinstance(list(arg.values())[0], dict):
        fam, kw = list(arg.items())[0]
        if "err" in out:
            return bad            # invalid keys/values may be rejected
        for k, v in kw.items():
            got = cget(out["ok"], (fam, k))
            if got is KeyError or dumps(got) != dumps(canon(v)):
                bad.append(f"backbone dict: {fam}.{k}={v!r} not found unmodified")
        want = impl.default_tree({"unet": "UNetConfig", "convnext": "ConvNextConfig", "swint": "SwinTConfig"}[fam])
        for k, dv in want["kv"]:
            if k not in kw and dumps(cget(out["ok"], (fam, k))) != dumps(dv):
                bad.append(f"backbone dict: unspecified {fam}.{k} does not hold the schema default")
    return bad


def oracle_head(impl, arg, out):
    bad = []
    if isinstance(arg, str) and arg in HEADS:
        if "err" in out:
            return [f"documented head type {arg} raised {out['err']}"]
        for h in HEAD_ORDER:
            got = cget(out["ok"], (h,))
            if h == arg:
                if loose(got) != loose(impl.default_tree(HEADS[h])):
                    bad.append(f"head {arg}: head_configs.{h} does not hold the schema defaults")
            elif got is not None:
                bad.append(f"head {arg}: head_configs.{h} is set as well")
    elif isinstance(arg, dict) and "ok" in out:
        live = [h for h in arg if arg[h] is not None]
        if len(live) == 1 and live[0] in HEADS and isinstance(arg[live[0]], dict):
            h = live[0]
            for sub, kw in arg[h].items():
                if isinstance(kw, dict):
                    for k, v in kw.items():
                        got = cget(out["ok"], (h, sub, k))
                        if got is KeyError or dumps(got) != dumps(canon(v)):
                            bad.append(f"head dict: {h}.{sub}.{k}={v!r} not found unmodified")
    return bad


def oracle_sequence(sec):
    """call - mutate - call: the second call with the same arguments gives the same configuration as the
    first one did, built from fresh objects (nothing the caller did to the first result shows)."""
    bad = []
    if "second_raised" in sec:
        bad.append((f"the same call raised {sec['second_raised']} after the first result had been mutated", []))
    if sec.get("differs"):
        p, _ = sec["differs"][0]
        bad.append((f"the same call returned a different configuration after the first result had been mutated "
                    f"(first difference at {'.'.join(p)}; {len(sec['differs'])} in all)",
                    [own for _, own in sec["differs"]]))
    if sec.get("shared"):
        p, _ = sec["shared"][0]
        bad.append((f"two calls returned configurations that share a mutable object (at {'.'.join(p)}; "
                    f"{len(sec['shared'])} in all): not a fresh configuration per call",
                    [own for _, own in sec["shared"]]))
    return bad


def sel_f52(impl, owners):
    """every shared object / leaked value sits under a schema default that is declared as a mutable literal or
    an instance instead of a factory"""
    lit = impl.mutable_literal_fields
    return SEL_F52 if owners and all(any(o in lit for o in chain) for chain in owners) else None


def outermost_shared(impl, owners):
    """the declared shared-literal field each offending chain passes through (or the innermost owner if none)"""
    out = set()
    for chain in owners:
        hit = [o for o in chain if o in impl.mutable_literal_fields]
        out.add(hit[0] if hit else (chain[-1] if chain else ("<root>", "")))
    return out


def prob_expect(v):
    """out-of-range probabilities are rejected, in-range ones accepted"""
    if isinstance(v, (int, float)):       # bool is an int: True == 1.0 is in range
        return 0 <= v <= 1
    return False


def scale_expect(v):
    """PreprocessingConfig.scale: a float >= 0 or a list of floats >= 0"""
    if isinstance(v, float):
        return v >= 0
    if isinstance(v, list):
        return all(isinstance(x, float) and x >= 0 for x in v)
    return False


# --------------------------------------------------------------------------- generators

def sentinel(p, default, ann):
    special = {"scale": 0.625, "crop_hw": (160, 160), "trainer_num_devices": 2, "optimizer": "AdamW",
               "learning_rate": 0.0625, "early_stopping_min_delta": 0.125, "backbone_config": "convnext",
               "head_configs": "centroid", "lr_scheduler": "step_lr", "intensity_aug": "contrast",
               "geometry_aug": "rotation", "pre_trained_weights": "ConvNeXt_Tiny_Weights",
               "ckpt_save_last": False}
    if p in special:
        return special[p]
    if isinstance(default, bool):
        return not default
    if isinstance(default, int):
        return default + 7
    if isinstance(default, float):
        return 0.625
    if isinstance(default, str):
        return "sent_" + p
    a = str(ann)
    if "int" in a:
        return 7
    if "bool" in a:
        return True
    if "float" in a:
        return 0.625
    return "sent_" + p


COMPANION = {"pre_trained_weights": {"backbone_config": "convnext"},
             "intensity_aug": {"use_augmentations_train": True},
             "geometry_aug": {"use_augmentations_train": True}}


NAN, INF = float("nan"), float("inf")
SCHEDULERS = ["step_lr", "reduce_lr_on_plateau"]
# strings a YAML loader could take for something else (numbers, booleans, null, dates, flow / block syntax, tags,
# anchors, comments, non-finite floats): as values of str options they must survive save + load as the same str
YAML_TRICKY = ["123", "1.0", "1e3", "1E3", ".5", "5.", "+1", "-1", "true", "True", "null", "None", "~", "yes", "off",
               "0x1F", "0o17", "017", "1_000", "a: b", "- a", "# c", "a #c", "[a]", "{a: 1}", "!tag", "&a", "*a", "? a",
               "| a", "> a", "@a", "%a", "'a'", " a", "a ", "", "2024-01-01", "12:30:00", ".nan", ".inf", "-.inf", "nan",
               "inf", "1e-3", "1.5e+3", "=", "a,b"]


def oracle_unknown_names(b, kw, out):
    """Interpreted parameters: an option given as a string that is not one of the documented names must raise."""
    def unknown(x, valid):
        if isinstance(x, str):
            return x not in valid
        if isinstance(x, list):
            return any(isinstance(n, str) and n not in valid for n in x)
        return False
    probes = []
    if b == "get_aug_config":
        probes = [("intensity_aug", kw.get("intensity_aug"), INTENSITY), ("geometric_aug", kw.get("geometric_aug"), GEOMETRIC)]
    elif b == "get_data_config" and kw.get("use_augmentations_train"):
        probes = [("intensity_aug", kw.get("intensity_aug"), INTENSITY), ("geometry_aug", kw.get("geometry_aug"), GEOMETRIC)]
    elif b == "get_backbone_config":
        probes = [("backbone_cfg", kw.get("backbone_cfg"), PRESETS)]
    elif b == "get_head_configs":
        probes = [("head_cfg", kw.get("head_cfg"), HEADS)]
    elif b == "get_model_config":
        probes = [("backbone_config", kw.get("backbone_config", "unet"), PRESETS), ("head_configs", kw.get("head_configs"), HEADS)]
    elif b == "get_trainer_config":
        probes = [("lr_scheduler", kw.get("lr_scheduler"), SCHEDULERS)]
    return [f"{p}={v!r} names an undocumented option but the builder did not raise"
            for p, v, valid in probes if unknown(v, valid) and "ok" in out]


def oracle_aug_dict(kw, out):
    """Augmentation dicts: a probability outside [0, 1] (NaN and infinities included) must be rejected."""
    bad = []
    if "train_labels_path" in kw and not kw.get("use_augmentations_train"):
        return bad            # get_data_config ignores the augmentation arguments unless augmentation is switched on
    for a in ("intensity_aug", "geometric_aug", "geometry_aug"):
        d = kw.get(a)
        if isinstance(d, dict):
            for k, v in d.items():
                if k.endswith("_p") and not prob_expect(v) and "ok" in out:
                    bad.append(f"{a}[{k!r}]={v!r} is not a probability but was accepted")
    return bad


def gen_cases(run, impl):
    import copy
    import inspect
    rng = run.rng
    thorough = run.tier == "thorough"
    cases = []

    def add(kind, term, fn, **meta):
        cases.append({"kind": kind, "term": term, "fn": fn, **meta})

    # every builder / constructor case is run as a call - mutate - call sequence (attempt_twice), each
    # call on its own deep copy of the arguments (so mutating the first result cannot reach the second
    # call through an argument object the configuration stores by reference)
    def build(name, kw, **meta):
        b = impl.builder(name)
        add("build", f'CBuild "{name}" {kw_term(kw)}', (lambda b=b, kw=kw: b(**copy.deepcopy(kw))), builder=name, kw=kw,
            twice=True, **meta)

    def mk(cname, kw, **meta):
        cls = impl.classes[cname]
        add("mk", f'CMk "{cname}" {kw_term(kw)}', (lambda cls=cls, kw=kw: cls(**copy.deepcopy(kw))), cls=cname, kw=kw,
            twice=True, **meta)

    # -- G1: augmentation lists (exhaustive up to length 4) + strings + dicts + invalid
    for names in (INTENSITY, GEOMETRIC):
        other = None
        for n in range(0, 5):
            for l in itertools.permutations(names, n):
                kw = {"intensity_aug": list(l), "geometric_aug": other} if names is INTENSITY else \
                    {"intensity_aug": other, "geometric_aug": list(l)}
                build("get_aug_config", kw, exhaustive=True)
        for s in names:
            kw = {"intensity_aug": s, "geometric_aug": None} if names is INTENSITY else \
                {"intensity_aug": None, "geometric_aug": s}
            build("get_aug_config", kw)
    for _ in range(40 if not thorough else 400):        # longer lists with repetitions, both arguments at once
        il = [rng.choice(INTENSITY) for _ in range(rng.randint(0, 6))]
        gl = [rng.choice(GEOMETRIC) for _ in range(rng.randint(0, 7))]
        build("get_aug_config", {"intensity_aug": il, "geometric_aug": gl})
    if thorough:
        for l in itertools.permutations(GEOMETRIC, 5):
            build("get_aug_config", {"intensity_aug": None, "geometric_aug": list(l)}, exhaustive=True)
    for kw in [{"intensity_aug": "foo", "geometric_aug": None}, {"intensity_aug": ["contrast", "foo"], "geometric_aug": None},
               {"intensity_aug": None, "geometric_aug": "foo"}, {"intensity_aug": None, "geometric_aug": ["mixup", "bar"]},
               {"intensity_aug": ("contrast",), "geometric_aug": ("rotation",)},
               {"intensity_aug": {"contrast_p": 0.5, "brightness": (0.5, 1.5)}, "geometric_aug": {"rotation": 45, "affine_p": 1.0}},
               {"intensity_aug": {"contrast_p": 1.5}, "geometric_aug": None},
               {"intensity_aug": {"bogus": 1.0}, "geometric_aug": None},
               {"intensity_aug": None, "geometric_aug": {"scale": [0.5, 1.5], "erase_p": 0.25, "mixup_lambda": [0.125, 0.25]}},
               {"intensity_aug": 3, "geometric_aug": True}, {"intensity_aug": [1], "geometric_aug": None},
               {"intensity_aug": None}, {"intensity_aug": None, "geometric_aug": None, "bogus": 1},
               {"intensity_aug": {"contrast_p": NAN}, "geometric_aug": None},
               {"intensity_aug": {"brightness_p": INF}, "geometric_aug": None},
               {"intensity_aug": None, "geometric_aug": {"mixup_p": NAN}},
               {"intensity_aug": None, "geometric_aug": {"affine_p": -INF, "rotation": 30.0}},
               {"intensity_aug": None, "geometric_aug": {"erase_p": 1.0, "rotation": NAN, "scale": (INF, 1.0)}},
               {"intensity_aug": "Contrast", "geometric_aug": None}, {"intensity_aug": "", "geometric_aug": None},
               {"intensity_aug": None, "geometric_aug": "rotate"}, {"intensity_aug": [], "geometric_aug": ["scale", ""]},
               {"intensity_aug": "contrast_p", "geometric_aug": "affine"}]:
        build("get_aug_config", kw)

    # -- G2: backbones
    for p in list(PRESETS) + ["resnet", "unet_foo", "convnext_huge", "swint_large", "", "Unet"]:
        build("get_backbone_config", {"backbone_cfg": p})
    for arg in [None, 3, [], {}, {"unet": {}}, {"unet": {"filters": 64, "in_channels": 3, "max_stride": 32, "output_stride": 2}},
                {"unet": {"filters_rate": 2.5, "stem_stride": 2, "middle_block": False}},
                {"convnext": {"model_type": "small", "stem_patch_kernel": 2, "arch": {"depths": [1, 1], "channels": [8, 16]}}},
                {"convnext": {"model_type": "huge"}},
                {"swint": {"model_type": "base", "patch_size": [2, 2], "window_size": [5, 5]}},
                {"swint": {"model_type": "huge"}},
                {"unet": {"filters": 64}, "convnext": {}}, {"swint": {}, "unet": {"filters": 8}},
                {"unet": {"filterz": 64}}, {"resnet": {}}, {"unet": None}]:
        build("get_backbone_config", {"backbone_cfg": arg})

    # -- G3: heads
    for h in HEAD_ORDER + ["foo", "", "bottom_up"]:
        build("get_head_configs", {"head_cfg": h})
    cm = {"sigma": 2.5, "output_stride": 2}
    for arg in [None, 3, {}, {"single_instance": {"confmaps": {**cm, "part_names": None}}},
                {"single_instance": {"confmaps": {"part_names": ["a", "b"]}}},
                {"centroid": {"confmaps": {**cm, "anchor_part": 1}}},
                {"centered_instance": {"confmaps": {**cm, "anchor_part": 0, "part_names": ["x"]}}},
                {"bottomup": {"confmaps": {**cm, "loss_weight": 1.5}, "pafs": {"sigma": 4.0, "output_stride": 4,
                                                                              "edges": [["a", "b"]], "loss_weight": 0.5}}},
                {"bottomup": {"confmaps": cm}}, {"centroid": {"confmaps": cm}, "single_instance": None},
                {"single_instance": None, "centroid": None, "centered_instance": None, "bottomup": {"confmaps": {}, "pafs": {}}},
                {"centroid": {"confmaps": cm}, "bottomup": {"confmaps": {}, "pafs": {}}},
                {"centroid": {"confmaps": {"sigmaa": 1.0}}}, {"centroid": {}}, {"foo": {"confmaps": {}}},
                {"single_instance": None}]:
        build("get_head_configs", {"head_cfg": arg})

    # -- G4: every builder parameter set to a non-default sentinel, one at a time and all together
    base = {"get_data_config": {"train_labels_path": "train.slp", "val_labels_path": "val.slp"},
            "get_model_config": {}, "get_trainer_config": {}}
    sent = {}
    for name in ("get_data_config", "get_model_config", "get_trainer_config"):
        sig = inspect.signature(impl.builder(name))
        sent[name] = {}
        build(name, dict(base[name]), passthrough=True)
        for p, prm in sig.parameters.items():
            d = None if prm.default is inspect.Parameter.empty else prm.default
            s = sentinel(p, d, prm.annotation)
            sent[name][p] = s
            kw = dict(base[name])
            kw.update(COMPANION.get(p, {}))
            kw[p] = s
            build(name, kw, passthrough=True, one=p)
        allkw = dict(base[name])
        allkw.update(sent[name])
        build(name, allkw, passthrough=True, all_together=True)
        ps = list(sig.parameters)
        for _ in range(6 if not thorough else 60):          # random subsets of sentinels
            kw = dict(base[name])
            for p in rng.sample(ps, rng.randint(2, len(ps))):
                kw.update(COMPANION.get(p, {}))
                kw[p] = sent[name][p]
            if "pre_trained_weights" in kw:
                kw["backbone_config"] = "convnext"
            build(name, kw, passthrough=True)
        build(name, {**base[name], "bogus_parameter": 1})
    build("get_data_config", {"train_labels_path": "a.slp"})
    # builder-level invalid values (validators reached through the builders)
    for kw in [{"scale": -0.5}, {"scale": 1}, {"scale": [0.5, 0.5]}, {"scale": 0.0}, {"scale": NAN}, {"scale": INF},
               {"scale": -INF}, {"scale": [0.5, NAN]}, {"scale": [INF, 0.5]}, {"scale": [0.5, -INF]}, {"scale": -0.0}]:
        build("get_data_config", {**base["get_data_config"], **kw}, expect_scale=True)
    # interpreted flags of get_data_config: every branch of use_augmentations_train x intensity_aug / geometry_aug
    for ua in (False, True):
        for ia, ga in [(None, None), ("contrast", None), (None, "mixup"), (["brightness", "contrast"], ["translate", "rotation"]),
                       ({"contrast_p": 0.5}, {"rotation": 45.0, "affine_p": 1.0}), ("foo", None), (None, ["mixup", "bar"]),
                       (("contrast",), None), ({"contrast_p": NAN}, None), (None, {"erase_p": 2.0})]:
            build("get_data_config", {**base["get_data_config"], "use_augmentations_train": ua, "intensity_aug": ia,
                                      "geometry_aug": ga}, interpreted=True)
    # interpreted parameters of get_model_config / get_trainer_config: every documented name and dict, unknown names
    for p in list(PRESETS) + ["resnet", "unet_foo", "swint_large", "", "UNET"]:
        build("get_model_config", {"backbone_config": p, "head_configs": rng.choice(HEAD_ORDER)}, interpreted=True)
    for h in HEAD_ORDER + ["foo", "", "Centroid", "bottom_up"]:
        build("get_model_config", {"backbone_config": rng.choice(list(PRESETS)), "head_configs": h}, interpreted=True)
    for iw in ["default", "xavier", "foo"]:
        build("get_model_config", {"init_weight": iw, "head_configs": "centroid", "pretrained_backbone_weights": "bb.ckpt",
                                   "pretrained_head_weights": "hd.ckpt"}, interpreted=True)
    for es in (False, True):
        for ls in [None, "step_lr", "reduce_lr_on_plateau", "StepLR", "", "cosine", {"step_lr": {"step_size": 3}},
                   {"reduce_lr_on_plateau": {"factor": 0.25}}]:
            build("get_trainer_config", {"early_stopping": es, "early_stopping_min_delta": 0.25, "early_stopping_patience": 3,
                                         "lr_scheduler": ls}, interpreted=True)
    for kw in [{"optimizer": "SGD"}, {"learning_rate": 0.0}, {"learning_rate": -1}, {"trainer_num_devices": -1},
               {"trainer_num_devices": [0, 1]}, {"trainer_num_devices": "cpu"}, {"trainer_num_devices": True},
               {"early_stopping_min_delta": -1.0}, {"early_stopping_patience": -1}, {"lr_scheduler": "foo"},
               {"lr_scheduler": "reduce_lr_on_plateau"}, {"lr_scheduler": {"step_lr": {"step_size": 0}}},
               {"lr_scheduler": {"step_lr": {"step_size": 5, "gamma": 0.5}}},
               {"lr_scheduler": {"step_lr": None, "reduce_lr_on_plateau": {"min_lr": -1.0}}},
               {"lr_scheduler": {"reduce_lr_on_plateau": {"min_lr": 0}}},
               {"lr_scheduler": {"reduce_lr_on_plateau": {"min_lr": [0.125], "patience": 3, "threshold_mode": "abs"}}},
               {"lr_scheduler": {"step_lr": {"gamma": 0.5}, "reduce_lr_on_plateau": {"min_lr": [0.125]}}},
               {"lr_scheduler": {"foo": {"gamma": 0.5}}}, {"lr_scheduler": {}}, {"lr_scheduler": 3},
               {"lr_scheduler": {"step_lr": {"bogus": 1}}}]:
        build("get_trainer_config", kw)
    for kw in [{"pre_trained_weights": "Swin_T_Weights"}, {"pre_trained_weights": "Swin_T_Weights", "backbone_config": "swint"},
               {"pre_trained_weights": "Swin_T_Weights", "backbone_config": "convnext"},
               {"pre_trained_weights": "ConvNeXt_Base_Weights", "backbone_config": "convnext_base"},
               {"pre_trained_weights": "X", "backbone_config": {}}, {"head_configs": "bottomup", "backbone_config": "swint_base"},
               {"backbone_config": "resnet"}, {"head_configs": "foo"}]:
        build("get_model_config", kw)

    # -- G5: validators: every validated field x boundary / out-of-range values; model types; oneof
    values = [-1, -0.5, -0.0001, 0, 0.0, 0.5, 1, 1.0, 1.0001, 1.5, 2, True, False, None, "a", [0.5], [0.5, -0.5], [],
              (0.5, 0.5), [1], "auto", "Adam", "AdamW", "tiny", NAN, INF, -INF, [0.5, NAN], [INF], [-INF, 0.5], -0.0]
    for cname, cls in impl.classes.items():
        mk(cname, {})
        for a in cls.__attrs_attrs__:
            if a.validator is not None and a.name != "pre_trained_weights":
                for v in values:
                    mk(cname, {a.name: v}, validated_field=a.name, value=v)
        mk(cname, {"bogus_field": 1})
    for cname in impl.classes:
        if cname.startswith(("ConvNext", "SwinT")):
            for v in ["tiny", "small", "base", "large", "huge", "", "Tiny", None, 3]:
                mk(cname, {"model_type": v}, model_type=v)
    M = impl.M
    members = {"BackboneConfig": [("unet", M.UNetConfig), ("convnext", M.ConvNextConfig), ("swint", M.SwinTConfig)],
               "HeadConfig": [("single_instance", M.SingleInstanceConfig), ("centroid", M.CentroidConfig),
                              ("centered_instance", M.CenteredInstanceConfig), ("bottomup", M.BottomUpConfig)]}
    for cname, mem in members.items():
        for r in range(0, len(mem) + 1):
            for sub in itertools.combinations(mem, r):
                mk(cname, {k: c() for k, c in sub}, oneof=len(sub))
                # the same subsets with members passed POSITIONALLY (attrs binds positional arguments to the fields in
                # declared order; the Coq term is the keyword form): all positional, and the first one positional only
                names = [k for k, _ in mem]
                if sub:
                    last = max(names.index(k) for k, _ in sub) + 1
                    first = min(names.index(k) for k, _ in sub) + 1
                    for npos in sorted({last, first}):
                        kw = {n: None for n in names[:npos]}
                        kw.update({k: c() for k, c in sub})
                        cls = impl.classes[cname]
                        add("mk", f'CMk "{cname}" {kw_term(kw)}',
                            (lambda cls=cls, kw=kw, names=names, npos=npos:
                             (lambda k: cls(*[k.pop(n) for n in names[:npos]], **k))(copy.deepcopy(kw))),
                            cls=cname, kw=kw, npos=npos, twice=True, oneof=len(sub))
    for w in ["ConvNeXt_Tiny_Weights", "Swin_T_Weights", "X", None]:
        for fam, c in members["BackboneConfig"] + [(None, None)]:
            bb = M.BackboneConfig(**({fam: c()} if fam else {}))
            mk("ModelConfig", {"pre_trained_weights": w, "backbone_config": bb})

    # -- G6: chains: every model type x every preset, dict variants, augmentation / scheduler variants
    def chain(dkw, mkw, tkw, **meta):
        d = {**base["get_data_config"], **dkw}
        add("chain", f"CChain {kw_term(d)} {kw_term(mkw)} {kw_term(tkw)}",
            (lambda d=d, mkw=mkw, tkw=tkw: impl.chain(d, mkw, tkw)), dkw=d, mkw=mkw, tkw=tkw, **meta)

    presets = list(PRESETS)
    for h in HEAD_ORDER:
        for p in presets:
            if thorough or p in ("unet", "unet_medium_rf", "convnext", "convnext_small", "swint", "swint_base") \
                    or rng.random() < 0.25:
                chain({}, {"backbone_config": p, "head_configs": h}, {}, preset=p)
    dict_bb = [{"unet": {"filters": 64, "in_channels": 3, "max_stride": 32, "output_stride": 2}},
               {"convnext": {"model_type": "small", "stem_patch_kernel": 2}},
               {"swint": {"model_type": "base", "window_size": [5, 5]}}]
    dict_hd = [{"single_instance": {"confmaps": {"part_names": ["a", "b"], "sigma": 2.5, "output_stride": 2}}},
               {"bottomup": {"confmaps": {"sigma": 2.5, "loss_weight": 1.5}, "pafs": {"edges": [["a", "b"]], "output_stride": 4}}}]
    for bb in dict_bb:
        for hd in dict_hd:
            chain({}, {"backbone_config": bb, "head_configs": hd}, {})
    augs = [("contrast", "rotation"), (["uniform_noise", "brightness"], ["scale", "mixup"]),
            ({"contrast_p": 0.5, "brightness": (0.5, 1.5)}, {"rotation": 45, "affine_p": 1.0}), (None, ["translate", "erase_scale"])]
    scheds = [None, "step_lr", "reduce_lr_on_plateau", {"step_lr": {"step_size": 5, "gamma": 0.5}},
              {"reduce_lr_on_plateau": {"min_lr": 0.125, "patience": 3}}]
    for ia, ga in augs:
        chain({"use_augmentations_train": True, "intensity_aug": ia, "geometry_aug": ga},
              {"head_configs": rng.choice(HEAD_ORDER)}, {"lr_scheduler": rng.choice(scheds)})
    for s in scheds:
        chain({}, {"head_configs": rng.choice(HEAD_ORDER)}, {"lr_scheduler": s, "early_stopping": True})
    chain(sent["get_data_config"], {k: v for k, v in sent["get_model_config"].items()}, sent["get_trainer_config"],
          all_together=True)
    chain({"scale": [0.5, 0.5]}, {"head_configs": "centroid"}, {})          # list scale: accepted by attrs, not by the typed field
    # normalisation must change no value whatever the strides are: dict heads / dict backbones that disagree
    for _ in range(8 if not thorough else 60):
        hs, ps = rng.choice([1, 2, 4, 8, 16, 32]), rng.choice([1, 2, 4, 8, 16, 32])
        fam = rng.choice(FAMILIES)
        bb = {fam: {"output_stride": rng.choice([1, 2, 4, 8, 16, 32]), "max_stride": rng.choice([4, 8, 16, 32, 64])}}
        hname = rng.choice(HEAD_ORDER)
        hd = {hname: {"confmaps": {"sigma": 2.5, "output_stride": hs}}}
        if hname == "bottomup":
            hd[hname]["pafs"] = {"sigma": 4.0, "output_stride": ps}
        chain({}, {"backbone_config": rng.choice([bb, rng.choice(list(PRESETS))]), "head_configs": hd}, {}, strides=True)
    # YAML round trip of str options that look like something else, of ints given for float options, of huge / tiny
    # numbers, of tuples / lists / None, of non-finite floats in unvalidated options
    dstr = ["train_labels_path", "val_labels_path", "test_file_path", "provider", "data_pipeline_fw", "np_chunks_path",
            "litdata_chunks_path"]
    mstr = ["pretrained_backbone_weights", "pretrained_head_weights"]
    tstr = ["trainer_accelerator", "save_ckpt_path", "resume_ckpt_path", "wandb_entity", "wandb_project", "wandb_name",
            "wandb_api_key", "wandb_mode", "wandb_resume_prv_runid", "wandb_group_name"]
    tricky = list(YAML_TRICKY)
    rng.shuffle(tricky)
    while tricky:
        take = [tricky.pop() for _ in range(min(len(tricky), len(dstr) + len(mstr) + len(tstr)))]
        slots = [("d", p) for p in dstr] + [("m", p) for p in mstr] + [("t", p) for p in tstr]
        rng.shuffle(slots)
        kws = {"d": {}, "m": {"head_configs": rng.choice(HEAD_ORDER)}, "t": {}}
        for (w, p), v in zip(slots, take):
            kws[w][p] = v
        chain(kws["d"], kws["m"], kws["t"], yaml_strings=True)
    chain({"scale": 0.001, "chunk_size": 2 ** 40, "crop_hw": (160, 192), "max_height": 2 ** 31, "min_crop_size": None},
          {"head_configs": "centered_instance"},
          {"learning_rate": 1, "early_stopping_min_delta": 0, "seed": 2 ** 62, "steps_per_epoch": None, "trainer_num_devices": 1,
           "ckpt_save_top_k": -1})
    chain({"scale": 1e-05}, {"head_configs": "single_instance"},
          {"learning_rate": 1e-10, "early_stopping_min_delta": 1e+16, "trainer_num_devices": 1})
    chain({"use_augmentations_train": True, "intensity_aug": {"gaussian_noise_mean": -INF, "brightness": (0.5, INF)},
           "geometry_aug": {"rotation": NAN, "scale": (INF, 1.0), "mixup_lambda": [0.125, NAN]}},
          {"head_configs": "bottomup"}, {})
    chain({}, {"head_configs": None}, {})
    # -- G6m: MISTYPED scalars (outside the documented argument types): OmegaConf's typed nodes CONVERT a scalar of
    # another type instead of rejecting it (123 at a str option -> "123", "12" at an int option -> 12, 2 / "Yes" at a
    # bool option -> True, typed list elements likewise) or raise ValidationError; the model (CfgTree.coerce_scalar)
    # must agree case by case, and normalisation / the YAML round trip must be the identity on whatever comes out.
    # (float at a str option and int()/float() of unusual strings are `Unmodelled` in Coq: not generated.)
    str_opts = [("d", "provider"), ("d", "np_chunks_path"), ("t", "wandb_name"), ("t", "save_ckpt_path"), ("t", "trainer_accelerator"),
                ("m", "pretrained_head_weights")]
    int_opts = [("d", "chunk_size"), ("d", "max_height"), ("t", "max_epochs"), ("t", "ckpt_save_top_k"), ("t", "early_stopping_patience")]
    bool_opts = [("d", "is_rgb"), ("d", "user_instances_only"), ("d", "use_existing_chunks"), ("t", "shuffle_train"),
                 ("t", "enable_progress_bar"), ("t", "save_ckpt"), ("t", "amsgrad")]
    mist = [(str_opts, [123, -5, 0, True, False, NAN, INF, -INF, 2 ** 70]),
            (int_opts, ["12", "-3", "+7", "007", "abc", "1e3", "", "0x1F", 1.5, 2.0, True, "-"]),
            (bool_opts, [1, 0, 2, -1, "true", "Yes", "OFF", "n", "1", "0", "-0", "abc", "maybe", 1.0, NAN, "on"])]
    for opts, vals in mist:
        vals = list(vals)
        rng.shuffle(vals)
        for i, v in enumerate(vals):
            w, p = opts[i % len(opts)] if i < len(opts) else rng.choice(opts)
            kws = {"d": {}, "m": {"head_configs": rng.choice(HEAD_ORDER)}, "t": {}}
            kws[w][p] = v
            chain(kws["d"], kws["m"], kws["t"], mistyped=[p])
    for crop in [("1", 2), (1.5, 2), (None, 1), (True, 2), [1, 2, 3], ("12", "34")]:
        chain({"crop_hw": crop}, {"head_configs": rng.choice(HEAD_ORDER)}, {}, mistyped=["crop_hw"])
    for ga in [{"scale": [1, 2]}, {"mixup_lambda": [0, 1]}, {"scale": ["1", 2]}, {"rotation": "15"}, {"scale": (1, True)},
               {"mixup_lambda": [None, 0.5]}]:
        chain({"use_augmentations_train": True, "geometry_aug": ga}, {"head_configs": rng.choice(HEAD_ORDER)}, {},
              mistyped=["geometry_aug"])
    for ia in [{"brightness": (1, 2)}, {"brightness": ("1", 2.5)}]:
        chain({"use_augmentations_train": True, "intensity_aug": ia}, {"head_configs": rng.choice(HEAD_ORDER)}, {},
              mistyped=["intensity_aug"])
    for hd in [{"single_instance": {"confmaps": {"part_names": [1, "a"], "sigma": 2, "output_stride": "2"}}},
               {"centroid": {"confmaps": {"anchor_part": 3, "sigma": 2.5, "output_stride": 2}}},
               {"bottomup": {"confmaps": {"part_names": [True, "b"]}, "pafs": {"edges": [[1, 2], ["a", False]]}}},
               {"single_instance": {"confmaps": {"part_names": [None], "sigma": 2.5, "output_stride": 2}}}]:
        chain({}, {"head_configs": hd}, {}, mistyped=["head_configs"])
    chain({}, {"head_configs": "centroid"}, {"early_stopping_min_delta": "15", "wandb_project": 7}, mistyped=["early_stopping_min_delta", "wandb_project"])
    # -- G7: the public entry point train(...): every parameter forwarded to the right builder parameter
    def train_case(kw, **meta):
        parts = {b: {k: v for k, v in kw.items() if k in sent[b]} for b in sent}
        d = {**base["get_data_config"], **parts["get_data_config"]}
        m, t = parts["get_model_config"], parts["get_trainer_config"]
        add("train", f"CChain {kw_term(d)} {kw_term(m)} {kw_term(t)}",
            (lambda d=d, m=m, t=t: impl.chain(d, m, t, via_train=True)), dkw=d, mkw=m, tkw=t, **meta)

    every = {p: v for b in sent for p, v in sent[b].items()}
    train_case({"head_configs": "centroid"})
    for p, v in every.items():
        train_case({"head_configs": "centroid", **COMPANION.get(p, {}), p: v}, one=p)
    train_case({**every, "use_augmentations_train": True}, all_together=True)
    for _ in range(4 if not thorough else 40):
        dk = {p: sent["get_data_config"][p] for p in rng.sample(list(sent["get_data_config"]), 5)
              if p not in ("intensity_aug", "geometry_aug")}
        tk = {p: sent["get_trainer_config"][p] for p in rng.sample(list(sent["get_trainer_config"]), 8)}
        chain(dk, {"backbone_config": rng.choice(["unet", "convnext", "swint"]), "head_configs": rng.choice(HEAD_ORDER)}, tk)
    return cases, sent


def norm_cases(impl, conts, rng, n):
    """verify_training_cfg on plain containers: complete ones and single perturbations."""
    import copy
    OC, J = impl.OC, impl.J
    out = []

    def add(d, what):
        out.append({"kind": "norm", "term": f"CNorm {coq_of(d)}", "what": what, "plain": d,
                    "fn": (lambda d=d: OC.to_container(J.verify_training_cfg(OC.create(copy.deepcopy(d)))))})
    for cont in conts[:n]:
        add(cont, "complete")
        for k in list(cont):
            d = copy.deepcopy(cont)
            del d[k]
            add(d, f"without top-level {k}")
        d = copy.deepcopy(cont)
        d["bogus"] = 1
        add(d, "unknown top-level key")
        d = copy.deepcopy(cont)
        sec = rng.choice(["data_config", "model_config", "trainer_config"])
        key = rng.choice(list(d[sec]))
        del d[sec][key]
        add(d, f"without nested {sec}.{key}")
        d = copy.deepcopy(cont)
        d[sec]["bogus_nested"] = 1
        add(d, "unknown nested key")
        d = copy.deepcopy(cont)
        d["data_config"]["train_labels_path"] = "???"
        add(d, "missing mandatory value")
        # construction paths that bypass the attrs classes: a YAML / DictConfig with two head types, two
        # backbones, an out-of-range probability, an invalid scale (see the observation on verify_training_cfg)
        d = copy.deepcopy(cont)
        hc = d["model_config"]["head_configs"]
        for h in hc:
            if hc[h] is None:
                hc[h] = {"confmaps": {"part_names": None, "sigma": 5.0, "output_stride": 1}}
                break
        add(d, "two head types in the container")
        d = copy.deepcopy(cont)
        bc = d["model_config"]["backbone_config"]
        for b in bc:
            if bc[b] is None:
                bc[b] = {"in_channels": 1, "output_stride": 1, "max_stride": 16}
                break
        add(d, "two backbones in the container")
        d = copy.deepcopy(cont)
        d["data_config"]["preprocessing"]["scale"] = -1.0
        d["data_config"]["augmentation_config"] = {"intensity": {"contrast_p": 1.5}, "geometric": {"affine_p": float("nan")}}
        add(d, "invalid scale and probabilities in the container")
        # top-level values against the declared field: a scalar / None at a section is rejected, a dict / list node is
        # taken verbatim at ANY field, a non-string scalar at a str field is CONVERTED (normalisation is the identity on
        # built configurations only).  (A float at a str field is `Unmodelled` in Coq: not generated.)
        d = copy.deepcopy(cont)
        sec2 = rng.choice(["data_config", "model_config", "trainer_config"])
        d[sec2] = rng.choice([3, "abc", None, True, 1.5, 0])
        add(d, f"scalar at section {sec2}")
        d = copy.deepcopy(cont)
        d[rng.choice(["data_config", "model_config", "trainer_config"])] = rng.choice([[], {}, [1, "a"], {"bogus": {"x": 1}}])
        add(d, "list / other dict at a section")
        for _ in range(2):
            d = copy.deepcopy(cont)
            fld = rng.choice(["name", "description", "filename", "sleap_nn_version"])
            d[fld] = rng.choice([123, -5, 0, True, False, float("nan"), float("-inf"), None, [1], {"a": 1}, "???", 2 ** 70, "x y"])
            add(d, f"non-string value at {fld}")
    return out


# --------------------------------------------------------------------------- the check

def regenerate(run):
    import c20_cfg2coq as tr
    try:
        summary = tr.generate(core.REPO, GEN)
        run.obligation("translator cfg2coq: sources are inside the recognised fragment (fail-closed)", True)
        run.coverage["translator"] = {"sha1": summary["sha1"], "classes": len(summary["classes"]),
                                      "builders": list(summary["builders"]), "pinned": summary["pinned"]}
        return summary
    except tr.Unsupported as e:
        run.obligation("translator cfg2coq: sources are inside the recognised fragment (fail-closed)", False, str(e))
        return None


def coq_status(run):
    """Which member of each dichotomy of PerRun.v is the live one on this tree."""
    pre = PREAMBLE + "From SV Require Import C20.PerRun.\n"
    try:
        vals = core.coq_eval_lines(pre, "render_lines rbool [aug_geo_full_b; aug_geo_exhaustive4_b; "
                                        "convnext_sizes_validated_b; presets_convert_b]")
        return {"aug_geo_full": vals[0], "aug_geo_exhaustive4": vals[1], "convnext_sizes_validated": vals[2],
                "presets_convert": vals[3]}
    except Exception as e:  # pragma: no cover
        run.obligation("evaluate status booleans of PerRun.v", False, str(e)[-800:])
        return None


def build_generated(run):
    """Gen/C20_*.v, Eval.v, PerRunBase.v (always recompiled: cheap), then the per-run statement files are
    started in parallel threads; returns (model built?, join) where join() waits for them, records one
    obligation per theorem and returns True iff all of them compiled closed."""
    for f in GEN_CHAIN:
        rc, out = core.coqc(f, timeout=600)
        if rc != 0:
            run.obligation(f"compile {f.relative_to(core.VERIF)} (regenerated model)", False, out[-1500:])
            return False, (lambda: False)
    run.obligation("compile the regenerated model (Gen/C20_Schema.v, Gen/C20_Builders.v, C20/Eval.v)", True)
    from concurrent.futures import ThreadPoolExecutor
    ex = ThreadPoolExecutor(max_workers=len(PER_RUN_PARTS))
    base = core.check_props(PER_RUN_BASE, timeout=600)
    futs = [ex.submit(core.check_props, f, 1500) for f in PER_RUN_PARTS] if base["rc"] == 0 else []

    def join():
        results = [base] + [f.result() for f in futs]
        ex.shutdown()
        if futs and all(r["rc"] == 0 for r in results):
            results.append(core.check_props(PER_RUN_LAST, 600))
        ok = base["rc"] == 0
        for res in results:
            ok = ok and res["rc"] == 0 and not res["foreign_axioms"] and not res.get("unprinted")
            if res["rc"] == 0:
                for n in res["printed"]:
                    run.obligation(f"theorem {n} (per run, about the regenerated functions)", True)
                    run.axioms.update(res["axioms"].get(n, []))
                if res["foreign_axioms"]:
                    run.obligation(f"{res['file']}: only standard-library axioms", False, "; ".join(res["foreign_axioms"]))
                if res.get("unprinted"):
                    run.obligation(f"{res['file']}: every theorem has Print Assumptions", False, ", ".join(res["unprinted"]))
            else:
                run.obligation(f"compile {res['file']}: the per-run theorems about the regenerated schema and builders "
                               "(pass-through, defaults, augmentation lists, interpreted parameters, validators, "
                               "normalisation)", False, res["log_tail"])
            run.coverage.setdefault("prop_files", []).append({k: res[k] for k in ("file", "rc", "printed", "wall_s")})
        if ok:
            rc, out = core.coqc(PER_RUN, timeout=300)
            if rc != 0:
                run.obligation("compile C20/PerRun.v (re-export of the per-run files)", False, out[-800:])
                ok = False
        return ok
    return True, join


def check(run: core.Run) -> int:
    summary = regenerate(run)
    model_ok, join = False, (lambda: False)
    generic_ok = run.build_and_prove(PROP_FILES)
    if summary is not None and generic_ok:
        model_ok, join = build_generated(run)      # the per-run files compile while the implementation runs
    impl = Impl()
    try:
        return _check(run, impl, summary, model_ok, join)
    finally:
        impl.close()


def _check(run, impl, summary, built, join_perrun):
    import time
    t_start = time.time()
    stages = run.coverage.setdefault("stage_wall_s", {})
    cases, sent = gen_cases(run, impl)
    # implementation
    for c in cases:
        if c.get("twice"):
            c["impl"], c["second"] = attempt_twice(c["fn"])
        else:
            c["impl"] = attempt(c["fn"])
        if c["kind"] in ("chain", "train"):
            c["extra"] = getattr(impl, "last_chain", None) if "ok" in c["impl"] else None
            impl.last_chain = None
    conts = []
    for c in cases:
        if c["kind"] == "chain" and "ok" in c["impl"]:
            conts.append(json.loads(json.dumps(loose_plain(c["impl"]["ok"]["d"][0][1]))))
    ncases = norm_cases(impl, conts, run.rng, 6 if run.tier == "quick" else 40)
    for c in ncases:
        c["impl"] = attempt(c["fn"])
    cases += ncases
    stages["implementation (all cases, sequences included)"] = round(time.time() - t_start, 1)

    # translator summary vs the live signatures
    if summary is not None:
        import inspect
        sig_ok, detail = True, []
        for b, info in summary["builders"].items():
            sig = inspect.signature(impl.builder(b))
            if list(sig.parameters) != info["params"]:
                sig_ok = False
                detail.append(f"{b}: parameters differ")
            for p, prm in sig.parameters.items():
                if prm.default is not inspect.Parameter.empty and dumps(canon(prm.default)) != dumps(canon(info["defaults"].get(p))):
                    sig_ok = False
                    detail.append(f"{b}.{p}: default differs")
        for cname, info in summary["classes"].items():
            cls = impl.classes.get(cname)
            if cls is None or [a.name for a in cls.__attrs_attrs__] != [f["name"] for f in info["fields"]]:
                sig_ok = False
                detail.append(f"class {cname}: fields differ")
            elif [a.validator is not None for a in cls.__attrs_attrs__] != [f["validated"] for f in info["fields"]]:
                sig_ok = False
                detail.append(f"class {cname}: validated fields differ")
        if set(impl.classes) != set(summary["classes"]):
            sig_ok = False
            detail.append("class sets differ")
        run.obligation("translator output matches the imported signatures, field lists and validator flags", sig_ok,
                       "; ".join(detail[:6]))

    # model
    model = None
    if built:
        try:
            model = core.coq_eval_sharded(PREAMBLE, [c["term"] for c in cases], "run", "rrun", shard=110, timeout=900, jobs=16)
        except core.CoqEvalError as e:
            run.obligation("model evaluation (vm_compute) of the generated functions", False, str(e)[-1200:])
    stages["model evaluation (vm_compute, parallel shards)"] = round(time.time() - t_start - sum(stages.values()), 1)
    disagreements = 0
    if model is not None:
        for c, m in zip(cases, model):
            c["model"] = m
            if dumps(m) != dumps(c["impl"]):
                disagreements += 1
                c["disagree"] = True
                if disagreements <= 4:
                    run.log(f"model/impl disagree on {c['term'][:300]}\n   model {dumps(m)[:400]}\n   impl  {dumps(c['impl'])[:400]}")
        run.obligation("correspondence: generated Coq functions (vm_compute) == real builders / constructors / "
                       "to_sleap_nn_cfg / verify_training_cfg on every case", disagreements == 0,
                       f"{disagreements} disagreements; first: " +
                       next((c["term"][:300] for c in cases if c.get("disagree")), ""))

    # oracle: the property statement on the implementation's outputs
    defaults = {}
    import inspect
    for b in PASS:
        defaults[b] = {p: prm.default for p, prm in inspect.signature(impl.builder(b)).parameters.items()
                       if prm.default is not inspect.Parameter.empty}
    n_fail = 0
    shared_owners = set()

    def report(c, why, selector=None):
        nonlocal n_fail
        n_fail += 1
        rep = {"case": {k: c[k] for k in c if k in ("kind", "builder", "kw", "cls", "npos", "dkw", "mkw", "tkw", "what", "plain")},
               "term": c["term"], "impl": c["impl"], "model": c.get("model"), "oracle": why}
        run.violation("failing-input", json.loads(json.dumps(rep, default=repr)), selector=selector)

    for c in cases:
        out = c["impl"]
        nontrivial = True
        if c["kind"] == "build":
            b, kw = c["builder"], c["kw"]
            if b == "get_aug_config" and set(kw) == {"intensity_aug", "geometric_aug"}:
                for sel, why in oracle_aug(kw["intensity_aug"], kw["geometric_aug"], out):
                    report(c, why, sel)
            elif b == "get_backbone_config" and set(kw) == {"backbone_cfg"}:
                for why in oracle_backbone(impl, kw["backbone_cfg"], out):
                    report(c, why)
            elif b == "get_head_configs" and set(kw) == {"head_cfg"}:
                for why in oracle_head(impl, kw["head_cfg"], out):
                    report(c, why)
            elif b in PASS and c.get("passthrough"):
                if "err" in out:
                    report(c, f"builder raised {out['err']} on documented argument values")
                for why in oracle_passthrough(impl, b, kw, out, defaults[b]):
                    report(c, why)
                if "ok" in out and b == "get_model_config":
                    for why in oracle_backbone(impl, kw.get("backbone_config", "unet"),
                                               {"ok": cget(out["ok"], ("backbone_config",))}):
                        report(c, why)
                    for why in oracle_head(impl, kw.get("head_configs"), {"ok": cget(out["ok"], ("head_configs",))}):
                        report(c, why)
                if "ok" in out and b == "get_data_config" and kw.get("use_augmentations_train"):
                    for sel, why in oracle_aug(kw.get("intensity_aug"), kw.get("geometry_aug"),
                                               {"ok": cget(out["ok"], ("augmentation_config",))}):
                        report(c, why, sel)
            else:
                nontrivial = "ok" in out
            # interpreted parameters, whatever the stream
            for why in oracle_unknown_names(b, kw, out) + oracle_aug_dict(kw, out):
                report(c, why)
            if c.get("expect_scale") and ("ok" in out) != scale_expect(kw["scale"]):
                report(c, f"get_data_config(scale={kw['scale']!r}): accepted={'ok' in out}, the property expects "
                          f"{scale_expect(kw['scale'])}")
            if c.get("interpreted") and "ok" in out:
                nontrivial = True
                if b == "get_data_config":
                    aug = cget(out["ok"], ("augmentation_config",))
                    if not kw["use_augmentations_train"]:
                        if aug is not None:
                            report(c, "use_augmentations_train=False but an augmentation configuration was built")
                    else:
                        for sel, why in oracle_aug(kw["intensity_aug"], kw["geometry_aug"], {"ok": aug}):
                            report(c, why, sel)
                        for a, sub, cn in (("intensity_aug", "intensity", "IntensityConfig"), ("geometry_aug", "geometric", "GeometricConfig")):
                            if isinstance(kw[a], dict):
                                for k, v in kw[a].items():
                                    if dumps(cget(aug, (sub, k))) != dumps(canon(v)):
                                        report(c, f"{a}[{k!r}]={v!r} not found unmodified in augmentation_config.{sub}")
                            if kw[a] is None and dumps(cget(aug, (sub,))) != dumps(impl.default_tree(cn)):
                                report(c, f"{a}=None but augmentation_config.{sub} does not hold the schema defaults")
                elif b == "get_model_config":
                    for why in oracle_backbone(impl, kw.get("backbone_config", "unet"), {"ok": cget(out["ok"], ("backbone_config",))}):
                        report(c, why)
                    for why in oracle_head(impl, kw.get("head_configs"), {"ok": cget(out["ok"], ("head_configs",))}):
                        report(c, why)
                    for p, path in (("init_weight", "init_weights"), ("pretrained_backbone_weights",) * 2, ("pretrained_head_weights",) * 2):
                        if p in kw and dumps(cget(out["ok"], (path,))) != dumps(canon(kw[p])):
                            report(c, f"{p}={kw[p]!r} not found unmodified at {path}")
                elif b == "get_trainer_config":
                    es = cget(out["ok"], ("early_stopping",))
                    want = {"stop_training_on_plateau": kw["early_stopping"], "min_delta": kw["early_stopping_min_delta"],
                            "patience": kw["early_stopping_patience"]}
                    for k, v in want.items():
                        if dumps(cget(es, (k,))) != dumps(canon(v)):
                            report(c, f"early stopping option {k}={v!r} not found unmodified")
                    ls, sch = kw["lr_scheduler"], cget(out["ok"], ("lr_scheduler",))
                    for name, cn in (("step_lr", "StepLRConfig"), ("reduce_lr_on_plateau", "ReduceLROnPlateauConfig")):
                        got = cget(sch, (name,))
                        if ls == name:
                            if dumps(got) != dumps(impl.default_tree(cn)):
                                report(c, f"lr_scheduler={ls!r}: lr_scheduler.{name} does not hold the schema defaults")
                        elif isinstance(ls, dict) and name in ls:
                            for k, v in ls[name].items():
                                if dumps(cget(got, (k,))) != dumps(canon(v)):
                                    report(c, f"lr_scheduler dict: {name}.{k}={v!r} not found unmodified")
                        elif got is not None:
                            report(c, f"lr_scheduler={ls!r}: lr_scheduler.{name} is set as well")
        elif c["kind"] == "mk":
            accepted = "ok" in out
            if "validated_field" in c:
                f, v, cn = c["validated_field"], c["value"], c["cls"]
                if f.endswith("_p") and cn in ("IntensityConfig", "GeometricConfig"):
                    if accepted != prob_expect(v):
                        report(c, f"probability {cn}.{f}={v!r}: accepted={accepted}, the property expects {prob_expect(v)}")
                elif cn == "PreprocessingConfig" and f == "scale":
                    if accepted != scale_expect(v):
                        report(c, f"scale={v!r}: accepted={accepted}, the property expects {scale_expect(v)}")
            if "model_type" in c:
                fam = "ConvNext" if c["cls"].startswith("ConvNext") else "SwinT"
                want = c["model_type"] in MODEL_TYPES[fam]
                if accepted != want:
                    report(c, f"{c['cls']}(model_type={c['model_type']!r}): accepted={accepted}, expected {want}",
                           SEL_F16 if (fam == "ConvNext" and accepted and not want) else None)
            if "oneof" in c and accepted != (c["oneof"] <= 1):
                report(c, f"{c['cls']} with {c['oneof']} members set: accepted={accepted}")
        elif c["kind"] in ("chain", "train"):
            preset = c["mkw"].get("backbone_config")
            mistyped = c.get("mistyped")      # arguments outside the documented types: the property says nothing about them
            documented = (c["dkw"].get("scale") is None or isinstance(c["dkw"].get("scale"), float)) and not mistyped
            if "err" in out:
                if documented:
                    sel = SEL_F13 if (out["err"] == "ValidationError" and isinstance(preset, str)
                                      and preset in PRESETS and PRESETS[preset][1] not in
                                      ("UNetConfig", "ConvNextConfig", "SwinTConfig")) else None
                    report(c, f"documented arguments do not yield a training configuration: {out['err']}", sel)
            else:
                ex = c["extra"]
                flags = dict((k, v) for k, v in out["ok"]["d"])
                if ex["train_same"] is False:
                    report(c, "train(...) hands run_training a configuration that differs from the one the three "
                              "builders give for the same arguments")
                if not flags["norm_same"]:
                    report(c, "verify_training_cfg changed a value")
                if not flags["norm_idem"]:
                    report(c, "verify_training_cfg is not idempotent")
                if not ex["yaml_same"]:
                    report(c, "YAML save/load changed a value")
                if not ex["verify_loaded_same"]:
                    report(c, "verify_training_cfg after the YAML round trip changed a value")
                # the container holds what the builders produced (only int->float, tuple->list forgotten)
                for sec, tree in ex["attrs"].items():
                    if not mistyped and loose(cget(flags["cfg"], (sec,))) != loose(tree):
                        report(c, f"to_sleap_nn_cfg changed a value under {sec}")
                # arguments at their documented place in the training configuration
                for b, kwn in (("get_data_config", "dkw"), ("get_model_config", "mkw"), ("get_trainer_config", "tkw")):
                    for p, v in c[kwn].items():
                        if mistyped and p in mistyped:
                            continue
                        for path in PASS[b].get(p, []):
                            got = cget(flags["cfg"], (SECTION[b],) + path)
                            if got is KeyError or loose(got) != loose(canon(v)):
                                report(c, f"argument {p}={v!r} not at {SECTION[b]}.{'.'.join(path)} of the training configuration")
        if c.get("second"):
            for why, owners in oracle_sequence(c["second"]):
                report(c, why, sel_f52(impl, owners))
                shared_owners.update(outermost_shared(impl, owners))
        if c["kind"] == "norm":
            if c["what"] == "complete" and ("err" in out or dumps(out["ok"]) != dumps(canon(c["plain"]))):
                report(c, "verify_training_cfg is not the identity on a complete configuration")
            nontrivial = c["what"] != "complete"
        run.case(c["term"], nontrivial)

    # "fresh object per call": the translated builders are closed functions of their arguments.  That is a
    # translator obligation (fail-closed: a builder may read parameters and locals only; every schema default
    # is an immutable literal, a factory, or is LISTED as a shared mutable literal) cross-checked here.
    if summary is not None:
        declared = {tuple(x) for x in summary.get("mutable_literal_defaults", [])}
        run.obligation("fresh object per call (translator obligation): builders read parameters and locals only, and "
                       "the schema defaults declared as shared mutable literals are exactly those attrs reports",
                       declared == impl.mutable_literal_fields,
                       f"translator {sorted(declared)} attrs {sorted(impl.mutable_literal_fields)}")
        run.obligation("call-mutate-call sequences: every object shared between / value leaking into the second "
                       "result is a declared shared mutable-literal default", shared_owners <= declared,
                       f"observed {sorted(shared_owners)} declared {sorted(declared)}")
        run.coverage["shared_mutable_literal_defaults"] = sorted(map(list, declared))

    # known findings: replay the corpus witnesses on the implementation (prints KNOWN-FINDING while they reproduce)
    replayed = replay_corpus(run, impl)

    # status of the dichotomy theorems, cross-checked against the implementation's behaviour on the witnesses
    t_join = time.time()
    perrun_ok = join_perrun()
    stages["waiting for the per-run theorem files after everything else"] = round(time.time() - t_join, 1)
    if perrun_ok:
        st = coq_status(run)
        if st is not None:
            run.coverage["perrun_status"] = st
            run.coverage["live_theorems"] = {
                "F12": "aug_lists_hold, data_config_aug_lists_hold (unconditional)" if st["aug_geo_full"]
                       else "aug_lists_refuted + aug_lists_partial",
                "F16": "convnext_sizes_hold (unconditional)" if st["convnext_sizes_validated"] else "convnext_sizes_refuted",
                "F13": "presets_convert_hold, presets_and_heads_convert_hold (unconditional)" if st["presets_convert"]
                       else "presets_convert_refuted + presets_convert_partial"}
            run.obligation("clause (c): the unbounded reachability check and the bounded exhaustive search (all ordered "
                           "lists of distinct geometric names up to length 4) agree", st["aug_geo_full"] == st["aug_geo_exhaustive4"],
                           str(st))
            live = {"aug_geo_full": not replayed["F12"], "convnext_sizes_validated": not replayed["F16"],
                    "presets_convert": not replayed["F13"]}
            got = {k: st[k] for k in live}
            run.obligation("status of the per-run dichotomies (computed on the generated model) agrees with the "
                           "implementation on the witnesses", got == live, f"model {got} impl {live}")

    kinds = {}
    for c in cases:
        kinds[c["kind"]] = kinds.get(c["kind"], 0) + 1
    run.coverage.update({
        "exhaustive": True,
        "exhaustive_scope": "every ordered list of distinct augmentation names up to length 4 (intensity 65, geometric 206"
                            + (", plus all 120 geometric lists of length 5" if run.tier == "thorough" else "") +
                            "); every documented backbone preset and head type; every builder parameter one at a time "
                            "and all together (also through train(...) with run_training replaced by a recorder); every "
                            "validated field x boundary values incl. NaN, +-inf, -0.0; every oneof subset; every builder / "
                            "constructor case run as a call - mutate - call sequence",
        "cases_by_kind": kinds, "disagreements": disagreements, "oracle_failures": n_fail,
        "sentinels": {b: {p: repr(v) for p, v in s.items()} for b, s in sent.items()},
        "rule": "case = Coq case term; non-trivial = everything except rejected out-of-domain builder calls and the "
                "identity runs of verify_training_cfg; distinct by the term",
        "observations": [
            "builder signature defaults differ from the schema defaults for batch_size (4 vs 1), shuffle_train (True vs "
            "False), ckpt_save_last (True vs None), enable_progress_bar (False vs True), max_epochs (100 vs 10), seed "
            "(1000 vs None); clause (b) is read as: options not fed by any builder parameter hold the schema default",
            "verify_training_cfg is structured at the top level only: unknown nested keys are kept, absent nested keys "
            "are not filled in (modelled as leaves of the merge schema; compared on perturbed containers); top-level VALUES "
            "meet the declared field: a scalar / None at a section is a ValidationError, a dict / list node is taken verbatim "
            "at any field, a non-string scalar at name / description / filename / sleap_nn_version is converted to its str() "
            "(so normalisation is the identity on built configurations, not on arbitrary containers; compared on such containers)",
            "OmegaConf's typed nodes CONVERT a scalar of another type (123 at a str option -> '123', '12' at an int option -> 12, "
            "2 / 'Yes' at a bool option -> True, elements of List[T] / Tuple[T, T] likewise) or raise ValidationError: arguments "
            "outside the documented types are not found 'unmodified' in the training configuration; the property quantifies over "
            "the documented argument forms, the theorems carry the hypothesis `coercion_free`, and the stream 'mistyped' compares "
            "the conversions with the model (CfgTree.coerce_scalar) case by case",
            "string arguments holding OmegaConf interpolation syntax ('${...}') are resolved / rejected by OmegaConf "
            "(InterpolationKeyError, GrammarParseError): strings are opaque in the model and the generator never emits '${'",
            "verify_training_cfg builds TrainingJobConfig(**cfg) from DictConfig sections: no attrs validator and no oneof "
            "check runs on them, so a YAML / DictConfig with two head types, two backbones, an out-of-range probability "
            "or an invalid scale passes normalisation unchanged (compared with the model on such containers; theorem "
            "verify_takes_sections_verbatim).  READING (decided in the round-4 review): 'configuration objects reject ...' "
            "is about the configuration classes, i.e. their constructors (property metadata: quantifier 'all single-field "
            "invalid values for the validated fields', observe_at 'exceptions from config constructors', mechanisms attrs "
            "validators / oneof decorator), where all of these are rejected for all values; a DictConfig loaded from YAML is "
            "not such an object although ModelTrainer consumes it — not a finding, a documented boundary",
            "attrs validates on assignment with the instance *before* the assignment: PreprocessingConfig().scale = -1.0 "
            "is accepted; oneof is enforced at construction only (outside the property's wording)",
        ]})
    for c in (cases[3], cases[70], cases[300], cases[-1]):
        run.sample({"term": c["term"][:400], "impl": dumps(c["impl"])[:300]})
    run.trusted += [
        "translator/c20_cfg2coq.py (stdlib ast, fail-closed); hand models of utils.oneof, to_sleap_nn_cfg and "
        "verify_training_cfg pinned to the AST hash of the source and compared on every run",
        "attrs (__init__, on_setattr validators) and OmegaConf (structured / merge / to_container / YAML save+load) "
        "are modelled in C20/CfgTree.v and compared on every generated case, not verified",
        "f-strings in error messages are treated as total; exceptions are compared by kind only",
        "YAML save/load (OmegaConf / PyYAML) and train(...)'s argument forwarding are exercised through the oracle only; "
        "'a fresh object per call' is a translator obligation (builders read parameters and locals only, shared "
        "mutable-literal schema defaults are listed) cross-checked by the call - mutate - call sequences",
    ]
    return run.finish()


def loose_plain(c):
    """canonical container -> plain Python container (for re-feeding verify_training_cfg)."""
    if isinstance(c, dict):
        if "f" in c:
            return float(Fraction(c["f"][0], c["f"][1]))
        if "nf" in c:
            return float(c["nf"])
        if "m" in c:
            return "???"
        if "t" in c:
            return [loose_plain(x) for x in c["t"]]
        return {k: loose_plain(v) for k, v in c.get("d", c.get("kv"))}
    if isinstance(c, list):
        return [loose_plain(x) for x in c]
    return c


def replay_corpus(run, impl):
    """Replays corpus/C20/*.json on the implementation through the oracle."""
    hit = {"F12": False, "F13": False, "F16": False, "F52": False}
    d = core.CORPUS / "C20"
    for f in sorted(d.glob("*.json")) if d.exists() else []:
        w = json.loads(f.read_text())
        fid = w["finding"]
        if fid == "F12":
            out = attempt(lambda: impl.T.get_aug_config(w["intensity_aug"], w["geometric_aug"]))
            bad = oracle_aug(w["intensity_aug"], w["geometric_aug"], out)
            for sel, why in bad:
                hit["F12"] = True
                run.violation("failing-input", {"witness": str(f), "impl": out, "oracle": why}, selector=sel)
        elif fid == "F13":
            out = attempt(lambda: impl.chain({"train_labels_path": "train.slp", "val_labels_path": "val.slp"},
                                             {"backbone_config": w["backbone_config"], "head_configs": w["head_configs"]}, {}))
            if "err" in out:
                hit["F13"] = True
                run.violation("failing-input", {"witness": str(f), "impl": out,
                                                "oracle": "documented preset does not yield a training configuration"},
                              selector=SEL_F13 if out["err"] == "ValidationError" else None)
        elif fid == "F52":
            out, sec = attempt_twice(lambda: impl.builder(w["builder"])(**json.loads(json.dumps(w["kw"]))))
            for why, owners in oracle_sequence(sec or {}):
                hit["F52"] = True
                run.violation("failing-input", {"witness": str(f), "impl": out, "oracle": why}, selector=sel_f52(impl, owners))
        elif fid == "F16":
            out = attempt(lambda: impl.classes[w["cls"]](model_type=w["model_type"]))
            if "ok" in out:
                hit["F16"] = True
                run.violation("failing-input", {"witness": str(f), "impl": "accepted",
                                                "oracle": "unknown backbone size accepted"}, selector=SEL_F16)
    run.coverage["corpus_replayed"] = hit
    return hit


def replay(run: core.Run, path: str) -> int:
    impl = Impl()
    try:
        rep = json.load(open(path))
        c = rep.get("case", {})
        if c.get("kind") == "build":
            out = attempt(lambda: impl.builder(c["builder"])(**c["kw"]))
        elif c.get("kind") == "mk":
            names = [a.name for a in impl.classes[c["cls"]].__attrs_attrs__]
            kw = dict(c["kw"])
            pos = [kw.pop(n) for n in names[:c.get("npos") or 0]]
            out = attempt(lambda: impl.classes[c["cls"]](*pos, **kw))
        elif c.get("kind") in ("chain", "train"):
            out = attempt(lambda: impl.chain(c["dkw"], c["mkw"], c["tkw"], via_train=c["kind"] == "train"))
        else:
            print(json.dumps(rep)[:2000])
            return 1
        print(json.dumps({"case": c, "impl_now": out, "impl_then": rep.get("impl"), "oracle_then": rep.get("oracle")},
                         default=repr)[:4000])
        return 1
    finally:
        impl.close()
