"""C16 — evaluation metrics are perfect for perfect predictions, bounded and monotone.

Model: coq/theories/C16/Metrics.v (exact rationals; the float64 rounding of
tp/npig that decides np.searchsorted is the model's `round_f64`); theorems:
coq/theories/C16/Props.v.
Tie: correspondence with the real `Evaluator` driven with real `sio.Labels`
(built through the installed sleap-io API on fresh HDF5 videos, several per
side; user and predicted instances among the ground truth; duplicate / missing /
unpaired frames): `evaluate()` and the five metric methods with default and with
custom thresholds, a second call of every metric, a second Evaluator on the same
label objects.  The OKS score
matrix each frame pair is matched on is taken from `compute_oks` itself (float64
values are rationals), so matching, sorting, thresholding and searchsorted are
compared exactly; real-valued results within float64 tolerance.
Oracle: the property statement on the implementation's outputs (perfect
predictions, ratios in [0,1], AP/AR non-increasing in the match threshold, PCK
non-decreasing in the pixel threshold, deleting a prediction never increases
recall).

Finding handled here:
  F6  deleting a matched prediction can raise recall when a prediction processed
      later in its frame is eligible for the gt instance it frees and was unmatched
      or matched with an OKS not larger than the one it has with the freed instance
      (score-ordered greedy matching)
                                  (selector delete_frees_gt_for_later_prediction)
"""
from __future__ import annotations

import json
import math
import random
import warnings
from fractions import Fraction as F

from .. import core
from .c15 import enc, dec, gen_pose, noisy_copy, visible, n_vis, cpose, cposes, cmatrix

PROP_FILES = [core.THEORIES / "C16" / "Props.v"]
PREAMBLE = ("From SV Require Import C15.Oks C16.Metrics.\nFrom Coq Require Import List QArith.\n"
            "Import ListNotations.\nOpen Scope Q_scope.\n")
RENDER = "rresult"
ATOL, RTOL = 1e-12, 1e-9
SEL_F6 = "delete_frees_gt_for_later_prediction"
SEL_F160 = "perfect_copy_cross_pair_oks_1"         # = Metrics.frame_selector_F160 on some paired frame
SEL_F161 = "perfect_copy_all_nan_gt_instance"      # = Metrics.frame_selector_F161 on some paired frame
EPS = F(1, 2 ** 52)


# ---------------------------------------------------------------- generation
VKEYS = [[0, 0], [0, 1], [1, 0], [1, 1]]          # (file id, dataset id) of the four HDF5 videos the harness can build


def gen_videos(rng, mode):
    """-> (gt video keys, prediction video keys).  Single shared video most of the time; otherwise several
    videos per side: a gt video without prediction video, extra prediction videos, two videos with the
    same key on one side (the first one wins on the prediction side), different orders."""
    if rng.random() < (0.7 if mode == "perfect" else 0.5):
        k = rng.choice(VKEYS)
        return [list(k)], [list(k)]
    gv = [list(k) for k in rng.sample(VKEYS, rng.randint(1, 3))]
    pv = [list(k) for k in gv]
    if mode != "perfect":
        if rng.random() < 0.3 and len(pv) > 1:
            pv.pop(rng.randrange(len(pv)))              # gt video without prediction video
        if rng.random() < 0.3:
            pv.append(list(rng.choice(VKEYS)))          # extra (possibly duplicate-key) prediction video
        if rng.random() < 0.15:
            gv.append(list(rng.choice(gv)))             # two gt videos with the same key
    rng.shuffle(pv)
    return gv, pv


def gen_eval(rng, thorough):
    mode = rng.choice(["perfect", "perfect", "noisy", "noisy", "noisy", "mixed", "far"])
    n_nodes = rng.randint(1, 4)
    R = rng.choice([4, 16, 64])
    p_nan = rng.choice([0, 0, 0.25, 0.4])
    n_frames = rng.randint(1, 4)
    gvideos, pvideos = gen_videos(rng, mode)
    multi = len(gvideos) > 1 or len(pvideos) > 1
    if multi and rng.random() < 0.5:
        idxs = [rng.randrange(4) for _ in range(n_frames)]     # the same frame index in several videos
    else:
        idxs = rng.sample(range(12), n_frames)
    ulo = rng.random() < 0.75
    # image-sized / negative coordinates: one dyadic offset per axis for the whole case
    off = [F(0), F(0)]
    if rng.random() < 0.4:
        off = [F(rng.choice([-20000, -1000, -64, 512, 1000, 4096, 20000])) for _ in range(2)]
    sh = lambda pose: [[None if v is None else v + off[d] for d, v in enumerate(p)] for p in pose]
    gtf, prf, gt_vid, pr_vid, gt_kinds, used, srcs = [], [], [], [], [], set(), []
    for fi in idxs:
        gvi = rng.randrange(len(gvideos))
        if mode == "perfect" and (gvi, fi) in used:
            continue                                   # perfect copies: one gt frame per (video, index)
        used.add((gvi, fi))
        n_gt = rng.choice([1, 1, 2, 2, 3])
        gts = []
        for _ in range(n_gt):
            g = gen_pose(rng, n_nodes, 2, R, p_nan, shape=rng.choice(["free"] * 9 + ["single"]))
            g = whole_nan(g)
            if n_vis(g) == 0 and rng.random() < 0.6:
                g[0] = [F(rng.randrange(0, 8 * R), 8), F(rng.randrange(0, 8 * R), 8)]
            if mode == "perfect" and rng.random() < 0.05:
                g = [[None, None] for _ in g]          # F161: a gt instance without a visible keypoint
            gts.append(g)                              # (all modes keep a few all-NaN gt instances)
        if mode != "perfect" and rng.random() < 0.08:
            gts = []                                   # gt frame without user instances
        if gts and mode != "perfect" and rng.random() < 0.1:
            gts[-1] = [list(p) for p in gts[0]]        # two animals on top of each other
        if len(gts) >= 2 and mode == "perfect" and rng.random() < 0.12:
            # F160: two animals that coincide on the visible keypoints of one of them (or entirely)
            a, b = rng.sample(range(len(gts)), 2)
            gts[b] = [list(p) for p in gts[a]]
            for kk in range(len(gts[b])):
                if rng.random() < 0.4:
                    gts[rng.choice([a, b])][kk] = [None, None]
        kinds = [None] * len(gts)
        if mode != "perfect" and rng.random() < 0.3:  # predicted instances among the ground truth
            for _ in range(rng.choice([1, 1, 2])):
                src = rng.choice(gts) if gts and rng.random() < 0.6 else None
                pose = noisy_copy(rng, src, rng.choice([1, 4]), 0.1, 2, R) if src else \
                    gen_pose(rng, n_nodes, 2, R, p_nan, shape="free")
                at = rng.randint(0, len(gts))
                gts.insert(at, whole_nan(pose))
                kinds.insert(at, F(rng.randint(0, 8), 8))
        gtf.append([fi, [sh(g) for g in gts]])
        gt_vid.append(gvi)
        gt_kinds.append(kinds)
        if rng.random() < (0.0 if mode == "perfect" else 0.12):
            continue                                   # no prediction frame for this gt frame
        user = [g for g, k in zip(gts, kinds) if k is None]
        prs = []
        for g in (user if (ulo or rng.random() < 0.5) else gts):
            r = rng.random()
            if mode == "perfect":
                prs.append([[list(p) for p in g], F(rng.randint(0, 8), 8), len(prs)])    # [pose, score, gt index]
                continue
            if r < 0.12:
                continue                               # missed animal
            if mode == "far":
                pose = gen_pose(rng, n_nodes, 2, R, p_nan, shape="free")
            elif mode == "mixed" and r < 0.5:
                pose = [list(p) for p in g]
            else:
                pose = noisy_copy(rng, g, rng.choice([1, 1, 2, 4, 8]), rng.choice([0, 0, 0.2]), 2, R)
            prs.append([pose, F(rng.randint(0, 8), 8)])
        if mode != "perfect":
            for _ in range(rng.choice([0, 0, 0, 1, 2])):          # extra predictions
                src = rng.choice(gts) if gts and rng.random() < 0.6 else None
                pose = noisy_copy(rng, src, rng.choice([1, 4, 16]), 0.1, 2, R) if src else \
                    gen_pose(rng, n_nodes, 2, R, p_nan, shape="free")
                prs.append([pose, F(rng.randint(0, 8), 8)])
        inorder = mode == "perfect" and rng.random() < 0.6     # copies in gt order: Coq selectors are compared
        if not inorder:
            rng.shuffle(prs)
        srcs.append([x[2] for x in prs] if mode == "perfect" else None)
        prs = [x[:2] for x in prs]
        # the prediction video with the same key (first one: the one find_frame_pairs picks), else any
        same = [i for i, k in enumerate(pvideos) if k == gvideos[gvi]]
        pvi = same[0] if same and (mode == "perfect" or rng.random() < 0.9) else rng.randrange(len(pvideos))
        prf.append([fi, [[sh(whole_nan(p)), s] for p, s in prs]])
        pr_vid.append(pvi)
        if mode != "perfect" and rng.random() < 0.12:           # a second prediction frame with the same key
            dup = [[sh(gen_pose(rng, n_nodes, 2, R, 0, shape="free")), F(rng.randint(0, 8), 8)]
                   for _ in range(rng.choice([0, 1, 2]))]
            prf.append([fi, dup])
            pr_vid.append(pvi)
            srcs.append(None)
    if mode != "perfect" and rng.random() < 0.2:
        prf.append([rng.choice([i for i in range(12, 16)]),
                    [[sh(gen_pose(rng, n_nodes, 2, R, 0, shape="free")), F(1, 2)]]])    # unpaired prediction frame
        pr_vid.append(rng.randrange(len(pvideos)))
        srcs.append(None)
    order = list(range(len(prf)))
    rng.shuffle(order)
    prf, pr_vid, srcs = [prf[i] for i in order], [pr_vid[i] for i in order], [srcs[i] for i in order]
    mthrs = rthrs = pthrs = None
    if rng.random() >= 0.4:
        mthrs = list({F(rng.randint(0, 17), 16) for _ in range(rng.randint(1, 5))})
        mthrs = sorted(mthrs) if rng.random() < 0.7 else rng.sample(mthrs, len(mthrs))
        rthrs = [F(rng.randint(0, 21), 20) for _ in range(rng.randint(1, 8))]
        if rng.random() < 0.5:
            rthrs = sorted(rthrs)
        if rng.random() < 0.6:
            pthrs = sorted({F(rng.randint(-2, 48), 4) for _ in range(rng.randint(1, 5))})
    if rng.random() < 0.3:
        # boundary stream: recall thresholds ON the float64 recall values k/n and their upper float neighbours
        # (n around the number of gt instances): the rounding of tp/npig decides np.searchsorted there
        n0 = sum(1 for kinds in gt_kinds for k in kinds if k is None)
        if mthrs is None:
            mthrs = sorted({F(rng.randint(0, 17), 16) for _ in range(rng.randint(1, 4))})
        vals = set()
        for nn in (n0 - 1, n0, n0 + 1):
            for k in range(1, max(nn, 0) + 1):
                vals.add(F(k / nn))
                vals.add(F(math.nextafter(k / nn, 2.0)))
        if vals:
            rthrs = sorted(vals) if rng.random() < 0.7 else rng.sample(sorted(vals), len(vals))
    return {"kind": "eval", "mode": mode, "n_nodes": n_nodes, "ulo": ulo, "gtf": gtf, "prf": prf,
            "gvideos": gvideos, "pvideos": pvideos, "gt_vid": gt_vid, "pr_vid": pr_vid, "gt_kinds": gt_kinds,
            "src": srcs if mode == "perfect" else None,
            "thr": rng.choice([F(0), F(0), F(0), F(1, 4), F(1, 2)] + ([] if mode == "perfect" else [F(-1)])),
            "sd": rng.choice([None, None, F(1, 8), F(1, 2)]), "sc": rng.choice([None, None, F(10), F(100)]),
            "mthrs": mthrs, "rthrs": rthrs, "pthrs": pthrs, "sub": rng.randrange(1 << 30),
            "second": (rng.random() < 0.5) if rng.random() < 0.25 else None,     # ulo of a 2nd Evaluator, same objects
            "twice": rng.random() < 0.35}


def norm_case(c):
    """Defaults for cases written before several videos / instance kinds existed (corpus, old replays)."""
    c.setdefault("gvideos", [[0, 0]])
    c.setdefault("pvideos", [[0, 0]])
    c.setdefault("gt_vid", [0] * len(c["gtf"]))
    c.setdefault("pr_vid", [0] * len(c["prf"]))
    c.setdefault("gt_kinds", [[None] * len(g) for _, g in c["gtf"]])
    c.setdefault("second", None)
    c.setdefault("twice", False)
    if c.get("mode") == "perfect" and c.get("src") is None:
        c["src"] = [list(range(len(prs))) for _, prs in c["prf"]]       # corpus witnesses: copies in gt order
    return c


def gt_view(c, second=False):
    """Independent reading of find_frame_pairs: -> (ulo in force, per gt frame the indices of the instances that
    take part, [(gt frame position, prediction frame position)]).  `second`: the state the gt labels are in
    after a first Evaluator(user_labels_only=c['ulo']) overwrote `lf.instances` of the paired videos."""
    pv = c["pvideos"]
    has_pv = [any(k == gk for k in pv) for gk in c["gvideos"]]
    alive = [list(range(len(g))) for _, g in c["gtf"]]
    ulo = c["ulo"]
    if second:
        if c["ulo"]:
            alive = [[i for i in a if c["gt_kinds"][fi][i] is None] if has_pv[c["gt_vid"][fi]] else a
                     for fi, a in enumerate(alive)]
        ulo = c["second"]
    part = [[i for i in a if not ulo or c["gt_kinds"][fi][i] is None] for fi, a in enumerate(alive)]
    pairs = []
    for gvi, gk in enumerate(c["gvideos"]):
        if not has_pv[gvi]:
            continue
        pvi = [i for i, k in enumerate(pv) if k == gk][0]
        for fi, (idx, _) in enumerate(c["gtf"]):
            if c["gt_vid"][fi] != gvi or (ulo and not part[fi]):
                continue
            cand = [pi for pi, (pidx, _) in enumerate(c["prf"]) if pidx == idx and c["pr_vid"][pi] == pvi]
            if cand:
                pairs.append((fi, cand[-1]))
    return ulo, part, pairs


def whole_nan(pose):
    """sleap-io stores a point with a NaN coordinate as not visible and `numpy()` returns NaN for both
    coordinates (half-NaN points are C15's business, on raw arrays)."""
    return [p if visible(p) else [None] * len(p) for p in pose]


def delete_variant(c, fi, k):
    """The same label pair with prediction k of prediction-frame position fi deleted."""
    d = {kk: v for kk, v in c.items() if kk not in ("db", "impl", "delete")}
    d["prf"] = [[idx, [p for j, p in enumerate(prs) if not (i == fi and j == k)]] for i, (idx, prs) in enumerate(c["prf"])]
    d["deleted_from"] = None
    return d


# ---------------------------------------------------------------- implementation
class Impl:
    def __init__(self):
        import numpy as np
        import sleap_io as sio
        from sleap_nn import evaluation as ev
        from loguru import logger
        logger.disable("sleap_nn")                     # "Empty Frame Pairs" is logged at ERROR level
        self.np, self.sio, self.ev = np, sio, ev
        self.labels = sio.load_slp(str(core.REPO / "tests/assets/minimal_instance.pkg.slp"))
        self.video = self.labels.video
        self.skels = {}
        self.vdir = None
        lin = lambda a, b, n: [F(float(x)) for x in np.linspace(a, b, n)]
        self.def_m, self.def_r, self.def_p = lin(0.5, 0.95, 10), lin(0, 1, 101), lin(1, 10, 10)

    def skel(self, n):
        if n not in self.skels:
            self.skels[n] = self.sio.Skeleton(nodes=[f"n{i}" for i in range(n)])
        return self.skels[n]

    def new_video(self, key):
        """A fresh HDF5-backed Video object for key (file id, dataset id); files live in the scratch dir."""
        import h5py
        np = self.np
        if self.vdir is None:
            self.vdir = core.scratch_dir() / "c16_videos"
            self.vdir.mkdir(parents=True, exist_ok=True)
            for f in (0, 1):
                with h5py.File(self.vdir / f"f{f}.h5", "w") as h:
                    for d in (0, 1):
                        h.create_dataset(f"video{d}/video", data=np.zeros((1, 8, 8, 1), dtype=np.uint8))
        return self.sio.Video.from_filename(str(self.vdir / f"f{key[0]}.h5"), dataset=f"video{key[1]}/video")

    def cleanup(self):
        import shutil
        if self.vdir is not None:
            shutil.rmtree(self.vdir, ignore_errors=True)

    def pts(self, pose):
        np = self.np
        return np.array([[np.nan if v is None else float(v) for v in p] for p in pose], dtype=np.float64)

    def labels_of(self, c):
        sio, sk = self.sio, self.skel(c["n_nodes"])
        g_lfs, p_lfs, g_inst, p_inst = [], [], [], []
        gvs = [self.new_video(k) for k in c["gvideos"]]
        pvs = [self.new_video(k) for k in c["pvideos"]]
        for (idx, gts), vi, kinds in zip(c["gtf"], c["gt_vid"], c["gt_kinds"]):
            ii = [sio.Instance.from_numpy(points_data=self.pts(g), skeleton=sk) if k is None else
                  sio.PredictedInstance.from_numpy(points_data=self.pts(g), skeleton=sk, score=float(k))
                  for g, k in zip(gts, kinds)]
            g_inst.append(ii)
            g_lfs.append(sio.LabeledFrame(video=gvs[vi], frame_idx=idx, instances=ii))
        for (idx, prs), vi in zip(c["prf"], c["pr_vid"]):
            # float32 arrays, as inference produces them (sleap-io stores and returns float64)
            ii = [sio.PredictedInstance.from_numpy(points_data=self.pts(p).astype(self.np.float32), skeleton=sk,
                                                   score=float(s)) for p, s in prs]
            if ii and ii[0].numpy().dtype != self.np.float64:
                raise RuntimeError("sleap-io returned a non-float64 point array")
            p_inst.append(ii)
            p_lfs.append(sio.LabeledFrame(video=pvs[vi], frame_idx=idx, instances=ii))
        return (sio.Labels(labeled_frames=g_lfs, videos=gvs, skeletons=[sk]),
                sio.Labels(labeled_frames=p_lfs, videos=pvs, skeletons=[sk]), g_inst, p_inst)

    def matrices(self, c):
        """The OKS table: for every (gt frame, prediction frame) with equal video key and frame index, the
        float64 OKS of every instance of the gt frame with every instance of the prediction frame, exactly
        as match_instances obtains it (compute_oks of the gt stack with one prediction; rows are
        independent of each other, so the rows of a sub-stack are the rows of the full stack)."""
        np = self.np
        kw = {}
        if c["sd"] is not None:
            kw["stddev"] = float(c["sd"])
        if c["sc"] is not None:
            kw["scale"] = float(c["sc"])
        out = []
        for gi, ((idx, gts), gvi) in enumerate(zip(c["gtf"], c["gt_vid"])):
            for pi, ((pidx, prs), pvi) in enumerate(zip(c["prf"], c["pr_vid"])):
                if pidx != idx or c["gvideos"][gvi] != c["pvideos"][pvi]:
                    continue
                M = []
                if prs and gts:
                    G = np.stack([self.pts(g) for g in gts], axis=0)
                    cols = []
                    for p, _ in prs:
                        with warnings.catch_warnings():
                            warnings.simplefilter("ignore")
                            o = self.ev.compute_oks(G, np.expand_dims(self.pts(p), 0), **kw)
                        cols.append([None if math.isnan(v) else F(float(v)) for v in o[:, 0]])
                    M = [[col[i] for col in cols] for i in range(len(gts))]
                elif gts:
                    M = [[] for _ in gts]
                out.append([gi, pi, M])
        return out

    def thresholds(self, c):
        """The thresholds as the exact rationals of the float64 values the implementation receives."""
        fl = lambda l: [F(float(x)) for x in l]
        return (fl(c["mthrs"]) if c["mthrs"] else self.def_m, fl(c["rthrs"]) if c["rthrs"] else self.def_r,
                fl(c["pthrs"]) if c["pthrs"] else self.def_p)

    def run(self, c):
        """-> dict of plain python values | {'raises': kind}."""
        np = self.np
        gt, pr, g_inst, p_inst = self.labels_of(c)
        kw = {"match_threshold": float(c["thr"])}
        if c["sd"] is not None:
            kw["oks_stddev"] = float(c["sd"])
        if c["sc"] is not None:
            kw["oks_scale"] = float(c["sc"])
        ulo = c["ulo"]
        with warnings.catch_warnings():
            warnings.simplefilter("ignore")
            if c.get("second") is not None:
                # a first Evaluator on the same label objects (its own result is the case without "second")
                try:
                    self.ev.Evaluator(gt, pr, user_labels_only=c["ulo"], **kw)
                except Exception:
                    pass
                ulo = c["second"]
            try:
                e = self.ev.Evaluator(gt, pr, user_labels_only=ulo, **kw)
            except ValueError:
                return {"raises": "ErrValue"}
            except Exception as ex:
                return {"raises": "ErrEmpty" if "Empty Frame Pairs" in str(ex) else type(ex).__name__}
            m, r, p = self.thresholds(c)
            fa = lambda l: np.array([float(x) for x in l])
            first = None
            if c.get("twice"):
                # every metric once before the measurement: the Evaluator's state must not change
                f0 = e.evaluate()
                e.voc_metrics(match_score_by="pck")
                first = (float(f0["mOKS"]["mOKS"]), float(f0["distance_metrics"]["avg"]),
                         float(f0["pck_metrics"]["mPCK"]), np.asarray(f0["distance_metrics"]["dists"], dtype=float).tolist())
            if c["mthrs"] is None and c["pthrs"] is None:
                full = e.evaluate()
                voc, pck = full["voc_metrics"], full["pck_metrics"]
                moks, dm, vis = full["mOKS"], full["distance_metrics"], full["visibility_metrics"]
                pckvoc = e.voc_metrics(match_score_by="pck")
            else:
                mk = {} if c["mthrs"] is None else {"match_score_thresholds": fa(m), "recall_thresholds": fa(r)}
                voc = e.voc_metrics(**mk)
                pck = e.pck_metrics(thresholds=fa(p)) if c["pthrs"] is not None else e.pck_metrics()
                moks, dm, vis = e.mOKS(), e.distance_metrics(), e.visibility_metrics()
                # voc_metrics(match_score_by="pck") always scores with the default pixel thresholds
                pckvoc = e.voc_metrics(match_score_by="pck", **mk) if c["pthrs"] is None else None
        gid = {id(x): (fi, k) for fi, ii in enumerate(g_inst) for k, x in enumerate(ii)}
        pid = {id(x): (fi, k) for fi, ii in enumerate(p_inst) for k, x in enumerate(ii)}
        out = {"pairs": [(gid.get(id(a.instance)), pid.get(id(b.instance)), float(o)) for a, b, o in e.positive_pairs],
               "fn": [gid.get(id(a.instance)) for a in e.false_negatives],
               "frame_pairs": [(g_lfs_pos(gt, a), g_lfs_pos(pr, b)) for a, b in e.frame_pairs]}

        def vocd(v, name):
            if v is None:
                return None
            if np.isscalar(v[name + ".AP"]):
                return "zeros" if all(v[k] == 0 for k in v) else "bad-zeros"
            return {"scores": [float(x) for x in v[name + ".match_scores"]],
                    "precisions": v[name + ".precisions"].tolist(), "recalls": v[name + ".recalls"].tolist(),
                    "AP": v[name + ".AP"].tolist(), "AR": v[name + ".AR"].tolist(),
                    "mAP": float(v[name + ".mAP"]), "mAR": float(v[name + ".mAR"])}
        out["voc"] = vocd(voc, "oks_voc")
        out["pckvoc"] = vocd(pckvoc, "pck_voc")
        out["moks"] = float(moks["mOKS"])
        d = np.asarray(dm["dists"], dtype=float)
        out["dists"] = d.reshape(len(e.positive_pairs), -1).tolist() if d.size else []
        out["dist_frames"] = [int(x) for x in dm["frame_idxs"]]
        out["avg"] = float(dm["avg"])
        out["ptiles"] = [float(dm[k]) for k in ("p50", "p75", "p90", "p95", "p99")]
        out["pcks"] = np.asarray(pck["pcks"]).tolist()
        out["pcks_shape"] = tuple(np.asarray(pck["pcks"]).shape)
        out["parts"] = np.asarray(pck["mPCK_parts"], dtype=float).tolist()
        out["mpck"] = float(pck["mPCK"])
        out["vis"] = [int(vis[k]) for k in ("tp", "fp", "tn", "fn")]
        out["vprec"], out["vrec"] = float(vis["precision"]), float(vis["recall"])
        if first is not None:
            same = lambda a, b: (a == b) or (a != a and b != b)
            flat = lambda rows: [x for r in rows for x in (r if isinstance(r, list) else [r])]
            d1, d2_ = flat(first[3]), flat(out["dists"])
            out["state_changed"] = not (same(first[0], out["moks"]) and same(first[1], out["avg"]) and
                                        (c["pthrs"] is not None or same(first[2], out["mpck"])) and
                                        len(d1) == len(d2_) and all(same(x, y) for x, y in zip(d1, d2_)))
        return out

    def bad_option(self, c):
        """voc_metrics with an unknown `match_score_by` must raise (not silently score by something else)."""
        gt, pr, _, _ = self.labels_of(c)
        try:
            e = self.ev.Evaluator(gt, pr, user_labels_only=c["ulo"])
        except Exception:
            return None
        try:
            e.voc_metrics(match_score_by="iou")
        except Exception as ex:
            return None if "Invalid Option" in str(ex) else f"unexpected error {type(ex).__name__}"
        return "voc_metrics(match_score_by='iou') returned a result"


def g_lfs_pos(labels, lf):
    for i, x in enumerate(labels.labeled_frames):
        if x is lf:
            return i
    return None


# ---------------------------------------------------------------- Coq term
def cinst(pose, kind):
    return f"({cpose(pose)}, {'None' if kind is None else '(Some ' + core.cq(kind) + ')'})"


def clabels(vkeys, frames, vids, kinds):
    vs = core.clist(vkeys, lambda k: f"({k[0]}%nat, {k[1]}%nat)")
    fs = core.clist(list(zip(frames, vids, kinds)),
                    lambda t: f"(LF {t[1]}%nat {t[0][0]}%nat {core.clist(list(zip(t[0][1], t[2])), lambda x: cinst(*x))})")
    return f"({vs}, {fs})"


def term(c, impl, fixed51):
    m, r, p = impl.thresholds(c)
    gtL = clabels(c["gvideos"], c["gtf"], c["gt_vid"], c["gt_kinds"])
    prL = clabels(c["pvideos"], [[idx, [x[0] for x in prs]] for idx, prs in c["prf"]], c["pr_vid"],
                  [[x[1] for x in prs] for _, prs in c["prf"]])
    db = core.clist(c["db"], lambda t: f"({t[0]}%nat, {t[1]}%nat, {cmatrix(t[2])})")
    ql = lambda l: core.clist(l, core.cq)
    head = f"CEval {core.cbool(fixed51)} {core.cbool(c['ulo'])}" if c.get("second") is None else \
        f"CEval2 {core.cbool(fixed51)} {core.cbool(c['ulo'])} {core.cbool(c['second'])}"
    return (f"{head} {core.cq(c['thr'])} {c['n_nodes']}%nat {db} {gtL} {prL} {ql(m)} {ql(r)} {ql(p)}")


def sel_terms(c, impl, fj=None):
    """Coq terms evaluating the model's selectors on the case: labels_selector_F6 (deletion of prediction k of
    prediction frame position j) or labels_selector_F16x (perfect copies)."""
    gtL = clabels(c["gvideos"], c["gtf"], c["gt_vid"], c["gt_kinds"])
    prL = clabels(c["pvideos"], [[idx, [x[0] for x in prs]] for idx, prs in c["prf"]], c["pr_vid"],
                  [[x[1] for x in prs] for _, prs in c["prf"]])
    db = core.clist(c["db"], lambda t: f"({t[0]}%nat, {t[1]}%nat, {cmatrix(t[2])})")
    sec = "None" if c.get("second") is None else f"(Some {core.cbool(c['second'])})"
    if fj is None:
        return f"CSel60 {sec} {core.cbool(c['ulo'])} {db} {gtL} {prL}"
    return f"CSel {sec} {core.cbool(c['ulo'])} {core.cq(c['thr'])} {db} {gtL} {prL} {fj[0]}%nat {fj[1]}%nat"


def perfect_selectors(c):
    """Python mirror of Metrics.labels_selector_F16x, by the origin of every copy (c['src']: the gt index a
    prediction copies; equal to the prediction's own index when the copies are in gt order, which is the case
    the Coq selector speaks about): F160 = in some paired frame a gt instance i and the copy of ANOTHER gt
    instance have OKS >= 1; F161 = some paired frame has a participating gt instance without visible keypoint."""
    _, part, pairs = gt_view(c, second=c.get("second") is not None)
    db = {(gi, pi): M for gi, pi, M in c["db"]}
    f160 = f161 = False
    for gi, pi in pairs:
        M = db.get((gi, pi), [])
        src = c["src"][pi]
        for i in part[gi]:
            if n_vis(c["gtf"][gi][1][i]) == 0:
                f161 = True
            for j, v in enumerate(M[i] if i < len(M) else []):
                if v is not None and v >= 1 and src is not None and src[j] != i:
                    f160 = True
    return f160, f161


def delete_selector(c, out, fi, k):
    """Python mirror of Metrics.labels_selector_F6 (= selector_F6 of c16_delete_prediction_partial) on the
    implementation's own pairs: the deleted prediction was matched to a gt instance g, and a prediction q
    processed later in the frame has OKS(g, q) > match threshold and was itself unmatched or matched with an
    OKS <= OKS(g, q) (q would take g, or may prefer it)."""
    if "raises" in out:
        return False
    scores = [s for _, s in c["prf"][fi][1]]
    db = {(gi, pi): M for gi, pi, M in c["db"]}
    for g, p, _ in out["pairs"]:
        if p == (fi, k):
            gf, gk = g
            row = db[(gf, fi)][gk]
            later = [j for j in range(len(scores)) if j != k and
                     ((scores[j] < scores[k]) or (scores[j] == scores[k] and j > k))]
            got = {pp[1]: v for gg, pp, v in out["pairs"] if gg[0] == gf and pp[0] == fi}
            for j in later:
                if row[j] is not None and row[j] > c["thr"] and (j not in got or F(got[j]) <= row[j]):
                    return True
    return False


# ---------------------------------------------------------------- comparison
def close(a, b, atol=ATOL, rtol=RTOL):
    if a is None or b is None:
        return a is None and b is None
    if math.isnan(a) or math.isnan(b):
        return math.isnan(a) and math.isnan(b)
    return abs(a - b) <= atol + rtol * abs(b)


def fq(j):
    return None if j is None else F(j[0], j[1])


def nanf(x):
    return float("nan") if x is None else float(x)


def cmp_voc(mv, iv, n_r, exact_scores, what):
    """model voc (parsed) vs impl voc dict.  The model renders, per match threshold, the precision
    envelope, the searchsorted indices and the recall; precisions = env[inds] (0 past the end) and
    the means AP / mAP / mAR (Metrics.vr_ap, voc_map, voc_mar = qmean) are taken here, exactly."""
    if mv is None:
        return None if iv == "zeros" else f"{what}: model has no positive pair, impl {str(iv)[:80]}"
    if not isinstance(iv, dict):
        return f"{what}: impl returned {iv}, model a table"
    scores, rows = mv
    ms = [fq(s) for s in scores]
    if exact_scores:
        if [F(x) for x in iv["scores"]] != ms:
            return f"{what}: sorted match scores differ"
    elif len(ms) != len(iv["scores"]) or any(not close(x, float(s)) for x, s in zip(iv["scores"], ms)):
        return f"{what}: sorted match scores differ"
    if len(rows) != len(iv["AP"]):
        return f"{what}: number of thresholds"
    allp, allr = [], []
    for ti, row in enumerate(rows):
        (env, inds), rec = row
        env = [fq(x) for x in env]
        prec = [env[i] if i < len(env) else F(0) for i in inds]
        if len(prec) != n_r or len(iv["precisions"][ti]) != n_r:
            return f"{what}: number of recall thresholds"
        for ri, (a, b) in enumerate(zip(iv["precisions"][ti], prec)):
            if not close(a, float(b)):
                return f"{what}: precision[{ti}][{ri}] impl {a} model {float(b)}"
        if not close(iv["recalls"][ti], float(fq(rec))) or not close(iv["AR"][ti], float(fq(rec))):
            return f"{what}: recall[{ti}] impl {iv['recalls'][ti]} model {float(fq(rec))}"
        ap = float(sum(prec) / len(prec)) if prec else float("nan")
        if not close(iv["AP"][ti], ap):
            return f"{what}: AP[{ti}] impl {iv['AP'][ti]} model {ap}"
        allp += prec
        allr.append(fq(rec))
    mAP = float(sum(allp) / len(allp)) if allp else float("nan")
    mAR = float(sum(allr) / len(allr)) if allr else float("nan")
    if not close(iv["mAP"], mAP) or not close(iv["mAR"], mAR):
        return f"{what}: mAP/mAR impl {iv['mAP']},{iv['mAR']} model {mAP},{mAR}"
    return None


def compare(c, m, out, impl, stats):
    if isinstance(m, str):
        return None if out.get("raises") == m else f"model {m}, impl {str(out)[:120]}"
    if "raises" in out:
        return f"impl raises {out['raises']}, model returns a report"
    voc, moks, d2, pcks, parts, mpck, vis, vprec, vrec, nfn, pckvoc = m
    mthrs, rthrs, pthrs = impl.thresholds(c)
    if out.get("state_changed"):
        return "the metrics of one Evaluator changed between two calls (state modified by a metric method)"
    if len(d2) != len(out["pairs"]) or nfn != len(out["fn"]):
        return f"pairs/false negatives: impl {len(out['pairs'])}/{len(out['fn'])} model {len(d2)}/{nfn}"
    r = cmp_voc(voc, out["voc"], len(rthrs), True, "oks_voc")
    if r:
        return r
    if not close(out["moks"], nanf(fq(moks))):
        return f"mOKS impl {out['moks']} model {nanf(fq(moks))}"
    md = [[None if x is None else math.sqrt(fq(x)) for x in row] for row in d2]
    if len(md) != len(out["dists"]) or any(len(a) != len(b) for a, b in zip(md, out["dists"])):
        return "dists shape"
    for a, b in zip(md, out["dists"]):
        for x, y in zip(a, b):
            if not close(y, nanf(x)):
                return f"dists impl {y} model {x}"
    flat = [x for row in md for x in row if x is not None]
    avg = sum(flat) / len(flat) if flat else float("nan")
    if not close(out["avg"], avg):
        return f"distance avg impl {out['avg']} model {avg}"
    if d2:
        if out["pcks"] != pcks:
            return "pcks differ"
        if any(not close(a, float(fq(b))) for a, b in zip(out["parts"], parts)) or len(parts) != len(out["parts"]):
            return f"mPCK_parts impl {out['parts']} model {[float(fq(b)) for b in parts]}"
    elif parts is not None or out["parts"]:
        return "mPCK_parts for no pairs"
    if not close(out["mpck"], nanf(fq(mpck))):
        return f"mPCK impl {out['mpck']} model {nanf(fq(mpck))}"
    if out["vis"] != vis:
        return f"visibility counts impl {out['vis']} model {vis}"
    if not close(out["vprec"], nanf(fq(vprec))) or not close(out["vrec"], nanf(fq(vrec))):
        return "visibility precision/recall"
    if out.get("pckvoc") is not None:
        if pckvoc is None:
            return None if out["pckvoc"] == "zeros" else "pck_voc: model has no pair"
        scores = [fq(s) for s in pckvoc[0]]
        if any(abs(float(s) - float(t)) < 1e-9 for s in scores for t in mthrs):
            stats["pckvoc_boundary_skipped"] += 1        # float mean of booleans sits on a threshold
        else:
            r = cmp_voc(pckvoc, out["pckvoc"], len(rthrs), False, "pck_voc")
            if r:
                return r
    return None


# ---------------------------------------------------------------- oracle (the property, executable)
def in01(x, tol=1e-12):
    return isinstance(x, float) and -tol <= x <= 1 + tol


def oracle_eval(c, out, impl):
    """Clauses (a)-(d) on one implementation output.  Returns reason or None."""
    _, part, expect = gt_view(c, second=c.get("second") is not None)
    if "raises" in out:
        if out["raises"] == "ErrEmpty":
            return None if not expect else "Evaluator reports empty frame pairs although a gt frame has a prediction frame"
        return f"Evaluator raises {out['raises']}"
    # frame pairing: exactly the gt frames that have a prediction frame (same video key, same index), once each,
    # and matched + missed = every participating gt instance of those frames
    if sorted(out["frame_pairs"]) != sorted(expect):
        return f"frame pairs {sorted(out['frame_pairs'])}, expected {sorted(expect)}"
    want = sorted((fi, k) for fi, _ in expect for k in part[fi])
    got = sorted([g for g, _, _ in out["pairs"]] + out["fn"], key=lambda x: (x is None, x))
    if got != want:
        return f"matched + missed gt instances {got} != gt instances of the paired frames {want}"
    if out["dist_frames"] != [c["gtf"][g[0]][0] for g, _, _ in out["pairs"]]:
        return "distance_metrics frame_idxs do not belong to the matched gt instances"
    npairs = len(out["pairs"])
    voc = out["voc"]
    mthrs, rthrs, pthrs = impl.thresholds(c)
    # (b) every reported ratio lies in [0,1]
    if npairs == 0:
        if voc != "zeros":
            return f"no positive pair but voc = {str(voc)[:60]}"
    else:
        if not isinstance(voc, dict):
            return f"voc = {voc}"
        for name in ("voc", "pckvoc"):
            v = out.get(name)
            if not isinstance(v, dict):
                continue
            for row in v["precisions"]:
                if not all(in01(x) for x in row):
                    return f"{name}: a precision outside [0,1]"
            for k in ("recalls", "AP", "AR"):
                if not all(in01(x) for x in v[k]):
                    return f"{name}: {k} outside [0,1]: {v[k]}"
            if not in01(v["mAP"]) or not in01(v["mAR"]):
                return f"{name}: mAP/mAR outside [0,1]"
            # (c) AP and AR non-increasing in the match threshold
            order = sorted(range(len(mthrs)), key=lambda i: mthrs[i])
            for a, b in zip(order, order[1:]):
                if v["AP"][b] > v["AP"][a] + 1e-12 or v["AR"][b] > v["AR"][a] + 1e-12:
                    return f"{name}: AP/AR increases from match threshold {mthrs[a]} to {mthrs[b]}"
        if not in01(out["moks"]):
            return f"mOKS = {out['moks']}"
        if not in01(out["mpck"]) or not all(in01(x) for x in out["parts"]):
            return f"mPCK = {out['mpck']} parts {out['parts']}"
        # (d) PCK non-decreasing in the pixel threshold
        T = len(pthrs)
        per_t = [sum(out["pcks"][p][k][t] for p in range(npairs) for k in range(c["n_nodes"])) for t in range(T)]
        order = sorted(range(T), key=lambda i: pthrs[i])
        for a, b in zip(order, order[1:]):
            if per_t[b] < per_t[a]:
                return f"PCK decreases from pixel threshold {pthrs[a]} to {pthrs[b]}"
    for k in ("vprec", "vrec"):
        if not (math.isnan(out[k]) or in01(out[k])):
            return f"visibility {k} = {out[k]}"
    tp, fp, tn, fn = out["vis"]
    if (tp + fp > 0 and math.isnan(out["vprec"])) or (tp + fn > 0 and math.isnan(out["vrec"])):
        return "visibility ratio undefined although its denominator is positive"
    # (a) perfect predictions
    if c["mode"] == "perfect":
        r = oracle_perfect(c, out, voc, npairs, mthrs, rthrs, pthrs)
        if r:
            # findings F160 / F161: the failure is reported under the selector it falls in (KNOWN-FINDING while
            # the selector is listed in known_findings.txt), as a VIOLATION outside both
            f160, f161 = perfect_selectors(c)
            return (r, SEL_F160 if f160 else SEL_F161 if f161 else None)
    return None


def oracle_perfect(c, out, voc, npairs, mthrs, rthrs, pthrs):
    """Clause (a) as stated: predictions identical to the ground truth give perfect scores."""
    n_gt = sum(len(g) for _, g in c["gtf"])
    if npairs != n_gt or out["fn"]:
        return f"perfect predictions: {npairs} pairs, {len(out['fn'])} false negatives for {n_gt} animals"
    if abs(out["moks"] - 1) > 1e-12:
        return f"perfect predictions: mOKS = {out['moks']}"
    if any(not (math.isnan(x) or x == 0) for row in out["dists"] for x in row):
        return "perfect predictions: a non-zero distance"
    if not math.isnan(out["avg"]) and out["avg"] != 0:
        return f"perfect predictions: avg distance {out['avg']}"
    lo = 1 / (1 + float(EPS)) - 1e-12
    for ti, row in enumerate(voc["precisions"]):
        if mthrs[ti] <= 1:
            for ri, x in enumerate(row):
                if rthrs[ri] <= 1 and not (lo <= x <= 1):
                    return f"perfect predictions: precision {x} at recall threshold {rthrs[ri]}"
            if abs(voc["AR"][ti] - 1) > 1e-12:
                return f"perfect predictions: AR = {voc['AR'][ti]}"
            if rthrs and all(r <= 1 for r in rthrs) and not (lo <= voc["AP"][ti] <= 1 + 1e-12):
                return f"perfect predictions: AP = {voc['AP'][ti]}"
    if mthrs and rthrs and all(t <= 1 for t in mthrs) and all(r <= 1 for r in rthrs):
        if not (lo <= voc["mAP"] <= 1 + 1e-12) or abs(voc["mAR"] - 1) > 1e-12:
            return f"perfect predictions: mAP = {voc['mAP']}, mAR = {voc['mAR']}"
    nvis = sum(n_vis(g) for _, gts in c["gtf"] for g in gts)
    frac = nvis / (n_gt * c["n_nodes"])
    if all(t > 0 for t in pthrs) and abs(out["mpck"] - frac) > 1e-12:
        return f"perfect predictions: mPCK {out['mpck']} != visible fraction {frac}"
    return None


def recalls_of(out, n):
    if out.get("voc") == "zeros":
        return [0.0] * n
    return out["voc"]["recalls"]


def oracle_delete(c, out, out_del, fi, k, impl):
    """Deleting prediction k of prediction frame fi must not increase recall at any match threshold.
    Returns (reason, selector) or None."""
    if "raises" in out or "raises" in out_del:
        if "raises" in out_del and "raises" not in out and out_del["raises"] != "ErrEmpty":
            return (f"after deleting a prediction the Evaluator raises {out_del['raises']}", None)
        return None
    n = len(impl.thresholds(c)[0])
    r0, r1 = recalls_of(out, n), recalls_of(out_del, n)
    worse = [i for i in range(n) if r1[i] > r0[i] + 1e-12]
    if not worse:
        return None
    # selector = complement of the hypothesis of c16_delete_prediction_partial / _frames_partial
    sel = SEL_F6 if delete_selector(c, out, fi, k) else None
    return (f"deleting prediction {k} of frame {c['prf'][fi][0]} raises recall {r0[worse[0]]} -> {r1[worse[0]]} "
            f"at match threshold {impl.thresholds(c)[0][worse[0]]}", sel)


# ---------------------------------------------------------------- round_f64 contract (float division)
def gen_rnd(rng, n):
    qs = [F(a, b) for b in range(1, 41) for a in range(0, b + 1)]
    qs += [F(rng.randint(0, 10 ** 6), rng.randint(1, 10 ** 6)) for _ in range(n)]
    return [q for q in qs if q <= 1]


# ---------------------------------------------------------------- the check
def load_corpus():
    d = core.CORPUS / "C16"
    return [norm_case(dec(json.load(open(f)))) for f in sorted(d.glob("*.json"))] if d.exists() else []


def case_json(c):
    return enc({k: v for k, v in c.items() if k not in ("db", "impl", "base")})


def check(run: core.Run) -> int:
    run.build_and_prove(PROP_FILES)
    core.impl_env_setup()
    impl = Impl()
    from . import c15
    fixed51 = c15.detect_flags(c15.Impl())["F51"]
    thorough = run.tier == "thorough"
    n = 2200 if thorough else 150
    rng = run.rng
    corpus = load_corpus()
    cases = list(corpus)
    while len(cases) < n + len(corpus):
        cases.append(gen_eval(rng, thorough))
    # deletion variants
    variants = []
    for c in cases:
        if c.get("delete") is None and rng.random() < 0.7:
            cand = [(fi, k) for fi, (_, prs) in enumerate(c["prf"]) for k in range(len(prs))]
            if cand:
                c["delete"] = list(rng.choice(cand))
        if c.get("delete") is not None:
            d = delete_variant(c, *c["delete"])
            d["mode"] = "derived"
            d["twice"] = False
            d["base"] = c
            variants.append(d)
    allc = cases + variants
    for c in allc:
        c["db"] = impl.matrices(c)
    terms = [term(c, impl, fixed51) for c in allc]
    rq = gen_rnd(rng, 400)
    terms.append("CRnd " + core.clist(rq, core.cq))
    # the model's selectors (premises of the _partial theorems), evaluated by Coq and compared with the oracle's
    inorder = lambda c: all(sr == list(range(len(sr))) for sr in c["src"] if sr is not None)
    sel60 = [c for c in cases if c["mode"] == "perfect" and inorder(c)]
    sel_terms_ = [sel_terms(c, impl) for c in sel60] + [sel_terms(d["base"], impl, d["base"]["delete"]) for d in variants]
    model = core.coq_eval_sharded(PREAMBLE, terms + sel_terms_, "run", RENDER, shard=24, jobs=12)
    sel_model = model[len(terms):]
    model = model[:len(terms)]
    rnd_model = model.pop()
    bad_rnd = [str(q) for q, m in zip(rq, rnd_model) if F(q.numerator / q.denominator) != fq(m)]
    run.obligation("round_f64 (Coq) == IEEE float64 division on every sampled fraction a/b <= 1", not bad_rnd,
                   ", ".join(bad_rnd[:5]))
    bo = impl.bad_option(cases[len(corpus)])
    run.obligation("voc_metrics rejects an unknown match_score_by option", bo is None, bo or "")
    stats = {"several_videos": 0, "gt_frames_with_predicted_instances": 0, "duplicate_prediction_frames": 0,
             "second_evaluator_same_objects": 0, "metrics_called_twice": 0, "all_nan_distance_rows": 0,
             "all_nan_gt_instances": 0, "offset_coordinates": 0, "frame_pairs": 0,
             "pckvoc_boundary_skipped": 0, "pairs": 0, "false_negatives": 0, "perfect_cases": 0,
             "perfect_in_selector_F160": 0, "perfect_in_selector_F161": 0, "perfect_failing_in_selector": 0,
             "selector_F16x_compared": 0, "selector_F6_compared": 0, "selector_F6_true": 0,
             "deletions": 0, "deletions_raising_recall": 0, "errors": {}}
    disagree, nfail, dist = 0, 0, {}
    for c, m in zip(allc, model):
        dist[c["mode"]] = dist.get(c["mode"], 0) + 1
        try:
            out = impl.run(c)
        except Exception as e:
            out = {"raises": f"harness:{type(e).__name__}:{e}"}
        c["impl"] = out
        stats["several_videos"] += len(c["gvideos"]) > 1 or len(c["pvideos"]) > 1
        stats["gt_frames_with_predicted_instances"] += sum(any(k is not None for k in ks) for ks in c["gt_kinds"])
        keys = [(v, i) for (i, _), v in zip(c["prf"], c["pr_vid"])]
        stats["duplicate_prediction_frames"] += len(keys) != len(set(keys))
        stats["second_evaluator_same_objects"] += c.get("second") is not None
        stats["metrics_called_twice"] += bool(c.get("twice"))
        stats["all_nan_gt_instances"] += sum(n_vis(g) == 0 for _, gts in c["gtf"] for g in gts)
        stats["offset_coordinates"] += any(v is not None and abs(v) >= 500 for _, gts in c["gtf"] for g in gts
                                           for pt in g for v in pt)
        if "raises" not in out:
            stats["frame_pairs"] += len(out["frame_pairs"])
            stats["all_nan_distance_rows"] += sum(all(x != x for x in row) for row in out["dists"])
        run.case(case_json(c), nontrivial=("raises" not in out and len(out["pairs"]) >= 1))
        if "raises" in out:
            stats["errors"][out["raises"]] = stats["errors"].get(out["raises"], 0) + 1
        else:
            stats["pairs"] += len(out["pairs"])
            stats["false_negatives"] += len(out["fn"])
        try:
            diff = compare(c, m, out, impl, stats)
        except Exception as e:
            diff = f"comparison failed: {type(e).__name__}: {e}"
        in_domain = not (out.get("raises") == "ErrValue" and not c["ulo"])   # F51 (C15) reached through ulo=False
        bad = oracle_eval(c, out, impl) if in_domain else None
        bad_sel = None
        if isinstance(bad, tuple):
            bad, bad_sel = bad
        if c["mode"] == "perfect":
            stats["perfect_cases"] += 1
            f160, f161 = perfect_selectors(c)
            stats["perfect_in_selector_F160"] += f160
            stats["perfect_in_selector_F161"] += f161
            stats["perfect_failing_in_selector"] += bool(bad and bad_sel)
        if diff:
            disagree += 1
            if disagree <= 3:
                run.log(f"model/impl disagree: {diff} on {json.dumps(case_json(c))[:300]}")
        if bad:
            nfail += 1
            run.violation("failing-input", {"case": case_json(c), "oracle": bad, "correspondence": diff},
                          selector=bad_sel)
        elif diff:
            run.proof_broken.append(f"correspondence C16: {diff}; case {json.dumps(case_json(c))[:800]}")
    # (e) deleting predictions never increases recall
    for d in variants:
        c = d["base"]
        stats["deletions"] += 1
        r = oracle_delete(c, c["impl"], d["impl"], c["delete"][0], c["delete"][1], impl)
        if r:
            stats["deletions_raising_recall"] += 1
            run.violation("failing-input", {"case": case_json(c), "oracle": r[0], "delete": c["delete"]},
                          selector=r[1])
    run.obligation("correspondence: Metrics.evaluate (Coq, vm_compute) == Evaluator (/repo, real sleap-io Labels) "
                   "on every case", disagree == 0, f"{disagree} disagreements")
    # selectors: Coq (labels_selector_F16x / labels_selector_F6, on the model's own matching) == oracle (on the
    # implementation's pairs)
    sel_bad = []
    for c, m in zip(sel60, sel_model[:len(sel60)]):
        stats["selector_F16x_compared"] += 1
        if [bool(x) for x in m] != list(perfect_selectors(c)):
            sel_bad.append(f"F16x model {m} oracle {perfect_selectors(c)} on {json.dumps(case_json(c))[:300]}")
    for d, m in zip(variants, sel_model[len(sel60):]):
        c = d["base"]
        if "raises" in c["impl"]:
            continue
        stats["selector_F6_compared"] += 1
        py = delete_selector(c, c["impl"], c["delete"][0], c["delete"][1])
        stats["selector_F6_true"] += py
        if bool(m) != py:
            sel_bad.append(f"F6 model {m} oracle {py} delete {c['delete']} on {json.dumps(case_json(c))[:300]}")
    run.obligation("selectors: Metrics.labels_selector_F6 / labels_selector_F16x (Coq, vm_compute) == the oracle's "
                   "selectors on every deletion variant / in-order perfect case", not sel_bad, "; ".join(sel_bad[:2]))
    if sel_bad:
        run.proof_broken.append("selector correspondence C16: " + sel_bad[0][:600])
    run.coverage.update({
        "input_distribution": dist, "disagreements": disagree, "oracle_failures": nfail, "stats": stats,
        "corpus_cases": len(corpus), "fixed_F51": fixed51, "round_f64_samples": len(rq),
        "rule": "case = (gt frames, prediction frames with scores, match threshold, oks options, thresholds); "
                "non-trivial = at least one positive pair; distinct by full case content",
        "tolerance": {"atol": ATOL, "rtol": RTOL, "pairs, counts, pcks, sorted match scores": "exact"},
    })
    impl.cleanup()
    for c in cases[:3]:
        run.sample(case_json(c))
    run.trusted += [
        "sleap-io 0.9.2 (Labels.videos, Labels.find = frames of a Video object in order / the LAST frame with a given "
        "(video, index), LabeledFrame.user_instances, Instance.numpy -> float64) supplies the frames; the model starts "
        "from (video keys, frames = (video position, index, instances with kind)) and pairs as find_frame_pairs does",
        "float64: tp/npig is modelled by round_f64 (checked against IEEE division on every run); precisions, means, "
        "sqrt are compared within tolerance; the OKS matrix is taken from compute_oks (covered by C15)",
        "percentiles of distance_metrics are outside the property and not modelled",
    ]
    run.assumptions += [
        "all videos are HDF5Video-backed (other backends lack .dataset / .source_filename: AttributeError, outside "
        "the model); prediction labels hold PredictedInstances only; scores finite",
        "clause (a) is false as stated (findings F160 / F161, c16_perfect_refuted): perfect-mode cases include "
        "coincident animals and all-NaN gt instances; their failures are reported under the selectors",
        "ratios are 'reported' when defined: with no positive pair mOKS/mPCK/avg are NaN and voc is the all-zero dict",
        "pck_voc is compared only when no per-pair PCK mean lies within 1e-9 of a match threshold",
    ]
    return run.finish()


def replay(run: core.Run, path: str) -> int:
    core.impl_env_setup()
    impl = Impl()
    rep = json.load(open(path))
    c = norm_case(dec(rep["case"] if "case" in rep else rep))
    rep.setdefault("delete", c.get("delete"))
    c["db"] = impl.matrices(c)
    out = impl.run(c)
    bad = oracle_eval(c, out, impl)
    sel = None
    if isinstance(bad, tuple):
        bad, sel = bad
    if bad is None and rep.get("delete") is not None:
        d = delete_variant(c, *rep["delete"])
        d["db"] = impl.matrices(d)
        r = oracle_delete(c, out, impl.run(d), rep["delete"][0], rep["delete"][1], impl)
        if r:
            bad, sel = r
    print(json.dumps({"oracle": bad, "selector": sel}))
    return 1 if (bad and not (sel and run.selector_known(sel))) else 0
