"""C03 — bottom-up inference reassembles exactly the labelled animals from ideal maps.

Model: coq/theories/C03/BottomUp.v (decode arithmetic, make_line_subs channel
addressing against the generate_pafs writer layout, line score on exact rational
PAF samples with the norm kept symbolic, expected instances = visible-edge
components); theorems: coq/theories/C03/Props.v.

Tie (every run):
  * unit correspondence of the Coq model (vm_compute) with the real
    make_line_subs / get_paf_lines / score_paf_lines / compute_distance_penalty on
    small PAF tensors with dyadic entries, and of the writer layout with the real
    generate_pafs (flattened vs unflattened, cell <-> (x, y) position);
  * end-to-end runs of the REAL BottomUpInferenceModel.forward with a real
    PAFScorer and the ramp-image stub network (harness/c03_stub.py); the Coq
    model predicts the exact output (refinement none) / the rough cells
    (integral) and the expected set of instances;
  * the premise of the reassembly theorem (score separation) is MEASURED on the
    real score tables of every scene.
  * round 4: the scene model is `forward_instances` (groups over the edge types C17's
    toposort returns); every tested skeleton is checked to be a rooted tree in Coq
    (is_tree), the processed edge types are compared with the real toposort_edges,
    and a stream of trees with ONE MIS-ORIENTED edge (outside the domain) is run as
    correspondence cases; ragged score tables must be rejected by table_alt1.
Oracle: the property statement evaluated on forward's output for every scene.
"""
from __future__ import annotations

import itertools
import json
import math
from fractions import Fraction as F

from .. import core
from .. import c03_stub as stub

PROP_FILES = [core.THEORIES / "C03" / "Props.v"]
PREAMBLE = ("From SV Require Import C03.BottomUp.\nFrom Coq Require Import List ZArith QArith.\n"
            "Import ListNotations.\nOpen Scope Q_scope.\n")

MIN_LINE = F(1, 4)          # PAFScorer defaults
N_POINTS = 10
PEAK_THR = 0.2
PATCH = 5
TIE_GUARD = F(1, 8)         # keypoints stay >= 1/8 cell away from a cell boundary (ties -> no strict local maximum)
MIN_PART_CELLS = 2          # adjacent visible parts >= 2 confidence-map cells apart ("general position")
COORD_ATOL = 2e-3           # float32 decode chain (peaks*stride/scale/eff), coordinates <= ~400


# ------------------------------------------------------------------ skeletons
def random_tree(rng, n):
    """A rooted labelled tree on nodes 0..n-1 (edges parent->child) in a random listing."""
    order = list(range(n))
    rng.shuffle(order)
    es = [(order[rng.randrange(i)], order[i]) for i in range(1, n)]
    rng.shuffle(es)
    return es


def misoriented_tree(rng, n):
    """A tree on n >= 3 nodes with ONE edge written the other way round, so that a node has two
    incoming edges: an undirected tree, but NOT a rooted tree listed parent -> child (outside C17's
    `arborescence`, outside the property's "tree skeleton").  Returns (listing, rooted listing): the
    poses are drawn from the rooted listing, inference sees the mis-oriented one."""
    while True:
        es = random_tree(rng, n)
        dsts = {v for _, v in es}
        root = next(u for u, _ in es if u not in dsts)
        cand = [i for i, (u, _v) in enumerate(es) if u != root]
        if cand:
            i = rng.choice(cand)
            fl = list(es)
            fl[i] = (es[i][1], es[i][0])
            return fl, es


def real_toposort(im, edges):
    """sorted_edge_inds of the REAL toposort_edges for an edge listing."""
    return [int(k) for k in im.pg.toposort_edges([im.pg.EdgeType(u, v) for u, v in edges])]


# ------------------------------------------------------------------ geometry of a scene
def input_geometry(sc):
    """Sizes of the network input and of the two grids, computed exactly as the
    preprocessing does (sizematcher -> resize -> pad to stride)."""
    H, W = sc["H"], sc["W"]
    eff = F(sc["eff"])
    mh, mw = sc["max_h"], sc["max_w"]
    h1, w1 = (mh, mw) if mh is not None else (H, W)
    scale = F(sc["scale"])
    h2, w2 = (int(h1 * scale), int(w1 * scale)) if scale != 1 else (h1, w1)
    ms = sc["max_stride"]
    h3, w3 = -(-h2 // ms) * ms, -(-w2 // ms) * ms
    cs, ps = sc["cs"], sc["ps"]
    # where the stub puts a keypoint p (original px) in network-input px:  p * f + off.
    # "target" registration (training-target convention, instances * eff_scale * scale): off = 0;
    # "content" registration (half-pixel-centre resizing, one step by eff then one by scale):
    #   x -> (x*eff + (eff-1)/2)*scale + (scale-1)/2
    off = ((eff - 1) * scale + (scale - 1)) / 2 if sc.get("registration") == "content" else F(0)
    return {"Hin": h3, "Win": w3, "hc": -(-h3 // cs), "wc": -(-w3 // cs), "hp": -(-h3 // ps), "wp": -(-w3 // ps),
            "f": eff * scale, "off": off, "valid_h": F(H) * eff * scale, "valid_w": F(W) * eff * scale}


def to_input(g, p):
    """Position of keypoint p (original px) in the network input, exact."""
    return (p[0] * g["f"] + g["off"], p[1] * g["f"] + g["off"])


def rhe(q: F) -> int:
    """round half to even (torch.round) on an exact rational."""
    fl = math.floor(q)
    r = q - fl
    if r < F(1, 2):
        return fl
    if r > F(1, 2):
        return fl + 1
    return fl if fl % 2 == 0 else fl + 1


def nearest_cell(pp: F, cs: int, n: int) -> int:
    return min(max(rhe(pp / cs), 0), n - 1)


def is_tie(pp: F, cs: int, guard=F(0)) -> bool:
    q = pp / cs
    return abs((q - math.floor(q)) - F(1, 2)) <= guard


def components(n_nodes, edges, vis):
    """Union-find: groups of visible nodes connected through visible edges."""
    par = list(range(n_nodes))

    def find(x):
        while par[x] != x:
            par[x] = par[par[x]]
            x = par[x]
        return x
    for u, v in edges:
        if vis[u] and vis[v]:
            par[find(u)] = find(v)
    groups = {}
    for j in range(n_nodes):
        if vis[j]:
            groups.setdefault(find(j), []).append(j)
    return sorted(groups.values())


def visible(p):
    return p is not None


# --- selectors (defined here and as sel_* in BottomUp.v) -------------------
def sel_band(sc, g, p):
    """F10: the keypoint is in the last half-cell band at the right/bottom edge of
    the confidence-map grid (further than half a cell from every grid sample); with
    integral refinement also: the refinement patch of its cell sticks out of the
    grid (kornia pads the crop with zeros, which biases the offset)."""
    cs = sc["cs"]
    px, py = to_input(g, p)
    if px > (g["wc"] - 1) * cs + F(cs, 2) or py > (g["hc"] - 1) * cs + F(cs, 2) or px < -F(cs, 2) or py < -F(cs, 2):
        return True
    if sc["refinement"] == "integral":
        r = PATCH // 2
        cx, cy = nearest_cell(px, cs, g["wc"]), nearest_cell(py, cs, g["hc"])
        if cx < r or cy < r or cx > g["wc"] - 1 - r or cy > g["hc"] - 1 - r:
            return True
    return False


# Which variant of edge_maps.py the code under test implements (C05's findings F1 / F23, which
# have proposed repairs): decided in check() by running C05's corpus witnesses on the real code.
PAF_FIXED = {"len": False, "box": False}


def detect_paf_variants(run=None):
    from . import c05
    mods = c05.load_mods()
    PAF_FIXED["len"] = c05.detect_fixed_len(mods)
    PAF_FIXED["box"] = c05.detect_fixed_box(mods)
    if run is not None:
        run.notes.append(f"edge_maps.py variant detected on C05's witnesses: F1 repaired={PAF_FIXED['len']}, "
                         f"F23 repaired={PAF_FIXED['box']}")


def sel_paf_dropped(sc, g, animal):
    """F10 (writer side): generate_pafs keeps an animal only if some node lies strictly
    inside (0, xv[-1]) x (0, yv[-1]) where xv[-1], yv[-1] are the LAST PAF GRID SAMPLES;
    an animal wholly in the right/bottom band beyond them gets no PAF at all.
    (Repaired filter, C05/F23: closed pixel rectangle [0, W-1] x [0, H-1].)"""
    ps = sc["ps"]
    xmax, ymax = (g["wp"] - 1) * ps, (g["hp"] - 1) * ps
    for p in animal:
        if visible(p):
            px, py = to_input(g, p)
            if PAF_FIXED["box"]:
                if 0 <= px <= g["Win"] - 1 and 0 <= py <= g["Hin"] - 1:
                    return False
            elif 0 < px < xmax and 0 < py < ymax:
                return False
    return True


def sel_coincident(sc, g, animal):
    """F3: two visible parts joined by a skeleton edge fall into the same
    confidence-map cell and no refinement separates them."""
    if sc["refinement"] is not None:
        return False
    cs = sc["cs"]
    cell = lambda p: (nearest_cell(to_input(g, p)[0], cs, g["wc"]), nearest_cell(to_input(g, p)[1], cs, g["hc"]))
    for u, v in sc["edges"]:
        if visible(animal[u]) and visible(animal[v]) and cell(animal[u]) == cell(animal[v]):
            return True
    return False


MAX_EDGE_RATIO = F(1, 4)     # PAFScorer default max_edge_length_ratio


def max_edge_length(sc, g):
    """score_paf_lines_batch: ratio * max(pafs.shape[-1], [-2], [-3]) * stride for the PAF tensor of THIS scene."""
    return MAX_EDGE_RATIO * max(g["hp"], g["wp"], 2 * len(sc["edges"])) * sc["ps"]


def edge_len2(g, animal, u, v):
    a, b = to_input(g, animal[u]), to_input(g, animal[v])
    return (a[0] - b[0]) ** 2 + (a[1] - b[1]) ** 2


def sel_long_edge(sc, g, animal):
    """F24: a visible edge longer than max_edge_length / min_line_scores (network-input px; for the
    defaults 1/4, 1/4: longer than the largest dimension of the PAF tensor x stride, i.e. the larger
    image side): its distance penalty alone keeps the score below min_line_scores."""
    M = max_edge_length(sc, g)
    return any(visible(animal[u]) and visible(animal[v]) and M * M < MIN_LINE * MIN_LINE * edge_len2(g, animal, u, v)
               for u, v in sc["edges"])


def general_position(sc, g, animal, guard=TIE_GUARD):
    """No keypoint on (or within `guard` of) a cell boundary; parts joined by an
    edge >= MIN_PART_CELLS cells apart; all keypoints inside the image."""
    cs = sc["cs"]
    for p in animal:
        if not visible(p):
            continue
        px, py = to_input(g, p)
        if is_tie(px, cs, guard) or is_tie(py, cs, guard):
            return False
        if not (0 < p[0] < sc["W"] - 1 and 0 < p[1] < sc["H"] - 1):
            return False
    for u, v in sc["edges"]:
        if visible(animal[u]) and visible(animal[v]):
            dx = (animal[u][0] - animal[v][0]) * g["f"]
            dy = (animal[u][1] - animal[v][1]) * g["f"]
            if dx * dx + dy * dy < (MIN_PART_CELLS * cs) ** 2:
                return False
    return True


# ------------------------------------------------------------------ scene generator
def snap(x: float, den=8) -> F:
    return F(round(x * den), den)


def gen_config(rng):
    cs, ps = rng.choice([1, 2, 4]), rng.choice([1, 2, 4])
    scale = rng.choice([F(1, 2), F(1)])
    H, W = 8 * rng.randint(6, 20), 8 * rng.randint(6, 20)
    eff, mh, mw = F(1), None, None
    if rng.random() < 0.4:                       # size matching with an exactly representable ratio
        eff = rng.choice([F(1, 2), F(3, 4), F(1), F(1), F(3, 2), F(2)])
        th, tw = H * eff, W * eff
        pad = 8 * rng.randint(0, 3)
        if rng.random() < 0.5:
            mh, mw = int(th) + pad, int(tw)
        else:
            mh, mw = int(th), int(tw) + pad
        if (mh, mw) == (H, W):
            mh, mw, eff = None, None, F(1)
    sc = {"H": H, "W": W, "max_h": mh, "max_w": mw, "eff": eff, "scale": scale, "cs": cs, "ps": ps,
          "max_stride": rng.choice([max(cs, ps), 2 * max(cs, ps), 16]),
          "refinement": rng.choice([None, "integral"]),
          "sigma_cms": rng.choice([F(3, 2), F(5, 2), F(5)]),
          "sigma_paf": rng.choice([F(15), F(50)]),
          "registration": "content" if rng.random() < 0.15 else "target",
          "n_points": N_POINTS}
    return sc


def gen_pose(rng, edges, n_nodes, cs, lmin_cells, lmax_cells, long=None):
    """Node positions (floats, network-input px) of one animal, root at the origin.
    long = (edge index, lo px, hi px): that edge gets a length in [lo, hi] px instead."""
    pos = {}
    children = {}
    dsts = {v for _, v in edges}
    root = next(u for u, _ in edges if u not in dsts)
    for u, v in edges:
        children.setdefault(u, []).append(v)
    pos[root] = (0.0, 0.0)
    stack = [root]
    while stack:
        u = stack.pop()
        for v in children.get(u, []):
            if long is not None and edges[long[0]] == (u, v):
                ell = rng.uniform(long[1], long[2])
            else:
                ell = rng.uniform(lmin_cells, lmax_cells) * cs
            th = rng.uniform(0, 2 * math.pi)
            pos[v] = (pos[u][0] + ell * math.cos(th), pos[u][1] + ell * math.sin(th))
            stack.append(v)
    return [pos[j] for j in range(n_nodes)]


def gen_scene(rng, thorough=False, crowded=False, fixed=None, skeleton=None, long_edges=False, attempts=None,
              pose_edges=None):
    """One in-domain scene (all animals in general position, on a jittered lattice
    with spacing >= 3x the largest animal extent, outside the border band).
    crowded=True: 5-6 nodes, 4-5 animals, few missing parts, so that a frame has MORE THAN 16
    detected peaks (torch.argsort / unique orderings beyond the small-input regime).
    fixed / skeleton: the configuration (sizes, strides, scales, ...) / the skeleton are GIVEN (a
    long-lived model is reused: see gen_session); returns None when no in-domain scene is found.
    long_edges=True: one edge of every animal is long: 0.15 .. 0.45 x the larger side of the
    network input (the distance penalty of score_paf_lines is active above 0.25 x)."""
    for _attempt in range(attempts or (400 if crowded else 200)):
        sc = dict(fixed) if fixed is not None else gen_config(rng)
        if crowded:
            sc["cs"] = rng.choice([1, 2])
            sc["max_stride"] = max(sc["max_stride"], sc["cs"], sc["ps"])
            if min(sc["H"], sc["W"]) * float(sc["eff"]) * float(sc["scale"]) < 72:
                continue
        g = input_geometry(sc)
        cs = sc["cs"]
        border = (3 if sc["refinement"] == "integral" else 1) * cs      # keep clear of the grid border
        vw, vh = float(g["valid_w"]), float(g["valid_h"])
        if min(vw, vh) < 12 * cs or max(g["Hin"], g["Win"]) > 336:
            if fixed is not None:
                return None
            continue
        if skeleton is not None:
            n_nodes, edges = skeleton
        else:
            n_nodes = rng.randint(5, 6) if crowded else rng.randint(2, 6)
            edges = random_tree(rng, n_nodes)
        sc["n_nodes"], sc["edges"] = n_nodes, list(edges)
        if pose_edges is not None:                   # mis-oriented listing: poses from the rooted listing
            sc["pose_edges"] = [list(e) for e in pose_edges]
        batch = rng.choice([1, 1, 2, 3])
        n_want = rng.randint(4, 5) if crowded else rng.randint(1, 5)
        frames = []
        ok = True
        for _b in range(batch):
            if long_edges:
                animals = place_long(rng, sc, g, border, vw, vh)
            else:
                animals = place_animals(rng, sc, g, n_want, border, vw, vh, crowded=crowded)
            if not animals:
                ok = False
                break
            if crowded and sum(visible(p) for a in animals for p in a) <= 16:
                ok = False
                break
            frames.append(animals)
        if not ok:
            continue
        sc["frames"] = frames
        if long_edges:
            sc["long_edges"] = True
        return sc
    if fixed is not None:
        return None
    raise RuntimeError("scene generator: no in-domain scene found in 200 attempts")


def settle(rng, sc, g, P, ox, oy, p_miss_choices, keep=()):
    """Sub-pixel nudges of the pose P (network-input px, shifted by (ox, oy)) until general position
    holds exactly; random missing nodes (never the nodes in `keep`).  Returns the animal or None."""
    cs, f = sc["cs"], g["f"]
    for _t in range(20):
        dx, dy = rng.uniform(-0.5, 0.5) * cs * (_t > 0), rng.uniform(-0.5, 0.5) * cs * (_t > 0)
        cand = [(snap((p[0] + ox + dx) / float(f)), snap((p[1] + oy + dy) / float(f))) for p in P]
        p_miss = rng.choice(p_miss_choices)
        cand = [None if (rng.random() < p_miss and j not in keep) else p for j, p in enumerate(cand)]
        vis_pts = [p for p in cand if p is not None]
        if not vis_pts:
            continue
        if general_position(sc, g, cand) and not any(sel_band(sc, g, p) for p in vis_pts) \
                and not sel_coincident(sc, g, cand) and not sel_paf_dropped(sc, g, cand) \
                and not sel_long_edge(sc, g, cand):
            return cand
    return None


def place_long(rng, sc, g, border, vw, vh):
    """One animal (sometimes a second one: a copy shifted sideways by 24-40 px) with ONE LONG EDGE of
    0.15 .. 0.45 x the larger side of the network input; both ends of the long edge visible."""
    cs = sc["cs"]
    n_nodes, edges = sc["n_nodes"], sc["edges"]
    S = max(g["Hin"], g["Win"])
    x0, y0 = border + 1.0, border + 1.0
    x1 = min(vw - 1, (g["wc"] - 1) * cs) - border - 1.0
    y1 = min(vh - 1, (g["hc"] - 1) * cs) - border - 1.0
    for _try in range(40):
        k = rng.randrange(len(edges))
        lo = max(0.15 * S, 2.3 * cs)
        P = gen_pose(rng, edges, n_nodes, cs, 2.3, rng.choice([3.0, 4.0, 6.0]), long=(k, lo, max(lo, 0.45 * S)))
        poses = [P]
        if rng.random() < 0.35:                      # a second animal: the same pose, shifted across the long edge
            u, v = edges[k]
            ex, ey = P[v][0] - P[u][0], P[v][1] - P[u][1]
            ln = math.hypot(ex, ey)
            d = rng.uniform(24.0, 40.0) * rng.choice([-1, 1])
            poses.append([(p[0] - ey / ln * d, p[1] + ex / ln * d) for p in P])
        xs = [p[0] for Q in poses for p in Q]
        ys = [p[1] for Q in poses for p in Q]
        bw, bh = max(xs) - min(xs), max(ys) - min(ys)
        if bw > x1 - x0 or bh > y1 - y0:
            continue
        ox = rng.uniform(x0, x1 - bw) - min(xs)
        oy = rng.uniform(y0, y1 - bh) - min(ys)
        animals = [settle(rng, sc, g, Q, ox, oy, [0.0, 0.0, 0.15], keep=edges[k]) for Q in poses]
        if any(a is None for a in animals):
            continue
        if len(animals) > 1:                         # two long animals: only when the reference separates them
            trial = dict(sc, frames=[animals])
            if not ideal_separation(trial)[0]:
                animals = animals[:1]
        return animals
    return None


def place_animals(rng, sc, g, n_want, border, vw, vh, crowded=False):
    cs, f = sc["cs"], g["f"]
    n_nodes, edges = sc["n_nodes"], [tuple(e) for e in (sc.get("pose_edges") or sc["edges"])]
    for _try in range(30):
        lmax = 3.0 if crowded else rng.choice([3.0, 4.0, 6.0])
        poses = [gen_pose(rng, edges, n_nodes, cs, 2.3, lmax) for _ in range(n_want)]
        ext = 0.0
        boxes = []
        for P in poses:
            xs, ys = [p[0] for p in P], [p[1] for p in P]
            boxes.append((min(xs), min(ys), max(xs), max(ys)))
            ext = max(ext, max(xs) - min(xs), max(ys) - min(ys))
        jit = 0.25 * ext
        cell = 3 * ext + 2 * jit
        x0, y0 = border + ext / 2 + jit, border + ext / 2 + jit
        # usable region also stays out of the last half-cell band
        x1 = min(vw - 1, (g["wc"] - 1) * cs) - border - ext / 2 - jit
        y1 = min(vh - 1, (g["hc"] - 1) * cs) - border - ext / 2 - jit
        if x1 < x0 or y1 < y0:
            if crowded:
                return None
            n_want = max(1, n_want - 1)
            continue
        nx, ny = int((x1 - x0) // cell) + 1, int((y1 - y0) // cell) + 1
        sites = [(i, j) for i in range(nx) for j in range(ny)]
        rng.shuffle(sites)
        k = min(n_want, len(sites))
        # spread the lattice over the usable region
        sx = (x1 - x0) / (nx - 1) if nx > 1 else 0.0
        sy = (y1 - y0) / (ny - 1) if ny > 1 else 0.0
        animals = []
        for (i, j), P, bx in zip(sites[:k], poses, boxes):
            cx = x0 + i * max(sx, 0.0) + rng.uniform(-jit, jit)
            cy = y0 + j * max(sy, 0.0) + rng.uniform(-jit, jit)
            ox, oy = cx - (bx[0] + bx[2]) / 2, cy - (bx[1] + bx[3]) / 2
            animal = settle(rng, sc, g, P, ox, oy, [0.0, 0.1] if crowded else [0.0, 0.15, 0.3, 0.5])
            if animal is None:
                break
            animals.append(animal)
        if len(animals) == k and k >= 1 and (not crowded or k >= 3):
            return animals
    return None


# ------------------------------------------------------------------ sessions: long-lived models, shared grid shapes
# (image-size factor k, PAF stride) combinations with the same k / stride have PAF grids of the SAME SHAPE;
# a session uses the strides of one chain and the size factors 1, 2, 4
CHAINS = [[(1, 1), (2, 2), (4, 4)], [(1, 2), (2, 4)], [(2, 1), (4, 2)]]


def gen_session(rng):
    """One skeleton, one base size B = (bh, bw), 2-3 MODELS (one per PAF stride; own cms stride, input
    scale, refinement, constructor) and every model is shown every image size B * k of the session.
    Returns blocks of jobs (scene, from_config): the jobs of a block are run CONSECUTIVELY and their
    PAF grids have the same shape but different (size, stride); the blocks of all sessions are shuffled
    among the other scenes of the run.  Over a run every model therefore sees several image sizes in a
    random order (small-then-large included), scenes of the largest size have a long edge (longer than
    the larger side of the smallest size, i.e. the distance penalty of the current size matters)."""
    for _attempt in range(50):
        n_nodes = rng.randint(2, 4)
        skeleton = (n_nodes, random_tree(rng, n_nodes))
        chain = rng.choice(CHAINS)
        ks, pss = [1, 2, 4], sorted({p_ for _, p_ in chain})      # every model sees a 4x range of sizes
        bh, bw = 8 * rng.randint(6, 10), 8 * rng.randint(6, 10)
        models = {}
        for ps in pss:
            models[ps] = {"cs": ps if rng.random() < 0.5 else rng.choice([1, 2, 4]), "ps": ps,
                          "scale": rng.choice([F(1), F(1), F(1, 2)]), "refinement": rng.choice([None, "integral"]),
                          "from_config": rng.random() < 0.5}
        diag = {}
        for k in ks:
            for ps in pss:
                diag.setdefault(F(k, ps), []).append((k, ps))
        blocks = []
        for r in sorted(diag):
            calls = diag[r]
            rng.shuffle(calls)
            block = []
            for k, ps in calls:
                m = models[ps]
                Hin, Win = bh * k, bw * k
                eff = rng.choice([F(1, 2), F(2)]) if rng.random() < 0.25 else F(1)
                if Hin / (m["scale"] * eff) > 640 or Win / (m["scale"] * eff) > 640:
                    eff = F(1)
                H, W = int(Hin / (m["scale"] * eff)), int(Win / (m["scale"] * eff))
                fixed = {"H": H, "W": W, "max_h": int(H * eff) if eff != 1 else None,
                         "max_w": int(W * eff) if eff != 1 else None, "eff": eff, "scale": m["scale"],
                         "cs": m["cs"], "ps": ps, "max_stride": rng.choice([max(m["cs"], ps), 8]),
                         "refinement": m["refinement"], "sigma_cms": rng.choice([F(3, 2), F(5, 2), F(5)]),
                         "sigma_paf": F(50) if m["cs"] + ps >= 5 else rng.choice([F(15), F(50)]),
                         "registration": "target", "n_points": N_POINTS}
                long = (k == max(ks) or rng.random() < 0.3) and rng.random() < 0.85
                sc = gen_scene(rng, fixed=fixed, skeleton=skeleton, long_edges=long, attempts=30)
                if sc is None and long:
                    sc = gen_scene(rng, fixed=fixed, skeleton=skeleton, attempts=30)
                if sc is not None:
                    block.append((sc, m["from_config"]))
            if block:
                blocks.append(block)
        if sum(len(b) for b in blocks) >= 3:
            rng.shuffle(blocks)
            return blocks
    raise RuntimeError("session generator: no session found in 50 attempts")


# ------------------------------------------------------------------ running the implementation
class Impl:
    def __init__(self):
        core.impl_env_setup()
        import warnings
        warnings.filterwarnings("ignore")
        import torch
        from sleap_nn.data import confidence_maps, edge_maps, resizing
        from sleap_nn.inference import paf_grouping
        from sleap_nn.inference.bottomup import BottomUpInferenceModel
        self.torch, self.cm, self.em, self.rz, self.pg = torch, confidence_maps, edge_maps, resizing, paf_grouping
        self.BottomUp = BottomUpInferenceModel


def truth_tensor(torch, animals):
    nan = float("nan")
    return torch.tensor([[[nan, nan] if p is None else [float(p[0]), float(p[1])] for p in a] for a in animals],
                        dtype=torch.float32)


def build_model(im: Impl, sc, from_config=False):
    """A real BottomUpInferenceModel + real PAFScorer around a stub network for the configuration
    FAMILY of sc (skeleton, strides, refinement, input scale, n_points); the frame is set later."""
    torch = im.torch
    net = stub.make_stub(torch, im.cm, im.em, truths=[], n_nodes=sc["n_nodes"], edge_inds=sc["edges"],
                         cms_stride=sc["cs"], paf_stride=sc["ps"], sigma_cms=1.0, sigma_paf=1.0)
    names = [f"n{i}" for i in range(sc["n_nodes"])]
    edges_named = [(names[u], names[v]) for u, v in sc["edges"]]
    if from_config:
        from omegaconf import OmegaConf
        cfg = OmegaConf.create({"confmaps": {"part_names": names},
                                "pafs": {"edges": [list(e) for e in edges_named], "output_stride": sc["ps"]}})
        scorer = im.pg.PAFScorer.from_config(cfg, n_points=sc["n_points"])
    else:
        scorer = im.pg.PAFScorer(part_names=names, edges=edges_named, pafs_stride=sc["ps"], n_points=sc["n_points"])
    model = im.BottomUp(torch_model=net, paf_scorer=scorer, cms_output_stride=sc["cs"],
                        pafs_output_stride=sc["ps"], peak_threshold=PEAK_THR, refinement=sc["refinement"],
                        integral_patch_size=PATCH, return_paf_graph=True, input_scale=float(sc["scale"]))
    return model, net


class ModelPool:
    """LONG-LIVED inference models, one per configuration family, reused for every scene of the
    family whatever its image size (a PAFScorer / BottomUpInferenceModel is built once per run in
    the repo's predictors).  Keeps the raw outputs it returned, to re-compare them at the end."""

    def __init__(self, im: Impl):
        self.im, self.models, self.calls, self.held = im, {}, {}, []

    @staticmethod
    def key(sc, from_config):
        return (sc["n_nodes"], tuple(tuple(e) for e in sc["edges"]), sc["cs"], sc["ps"], sc["refinement"],
                str(sc["scale"]), sc["n_points"], bool(from_config))

    def get(self, sc, from_config):
        k = self.key(sc, from_config)
        if k not in self.models:
            self.models[k] = build_model(self.im, sc, from_config)
            self.calls[k] = 0
        self.calls[k] += 1
        return self.models[k]


OUT_KEYS = (("instances", "pred_instance_peaks"), ("peak_values", "pred_peak_values"),
            ("instance_scores", "instance_scores"), ("peaks", "peaks"), ("peak_channel_inds", "peak_channel_inds"),
            ("edge_inds", "edge_inds"), ("edge_peak_inds", "edge_peak_inds"), ("line_scores", "line_scores"))


def extract(out, B):
    return {k: [out[ok][b].tolist() for b in range(B)] for k, ok in OUT_KEYS}


def run_scene(im: Impl, sc, from_config=False, pool: ModelPool = None):
    """Real preprocessing + real BottomUpInferenceModel.forward + real PAFScorer,
    stub network.  Returns a dict of plain lists (or {"raises": kind}).
    pool=None: a model built for this scene; else the long-lived model of the scene's family."""
    torch = im.torch
    imgs, effs = [], []
    for _ in sc["frames"]:
        img = stub.ramp_image(torch, sc["H"], sc["W"])
        img, eff = stub.preprocess(torch, im.rz, img, sc["max_h"], sc["max_w"], float(sc["scale"]), sc["max_stride"])
        imgs.append(img)
        effs.append(eff)
    rec = []
    model, net = pool.get(sc, from_config) if pool is not None else build_model(im, sc, from_config)
    net.set_frame(truths=[truth_tensor(torch, a) for a in sc["frames"]], sigma_cms=float(sc["sigma_cms"]),
                  sigma_paf=float(sc["sigma_paf"]), registration=sc["registration"], record=rec)
    inputs = {"image": torch.cat(imgs, 0).unsqueeze(1), "eff_scale": torch.tensor(effs, dtype=torch.float32)}
    try:
        with torch.no_grad():
            out = model(inputs)[0]
    except Exception as e:       # compared by kind
        return {"raises": type(e).__name__, "msg": str(e)[:200], "effs": [float(e_) for e_ in effs]}
    B = len(sc["frames"])
    res = {"effs": [float(e) for e in effs], "fits": [{k: r[k] for k in ("ax", "bx", "ay", "by", "H", "W")} for r in rec]}
    res.update(extract(out, B))
    if pool is not None:
        pool.held.append((out, B, {k: res[k] for k, _ in OUT_KEYS}))
    return res


def same_values(a, b, tol=1e-6):
    """Nested lists of numbers equal (NaN == NaN, floats within tol)."""
    if isinstance(a, (list, tuple)) or isinstance(b, (list, tuple)):
        return isinstance(a, (list, tuple)) and isinstance(b, (list, tuple)) and len(a) == len(b) and \
            all(same_values(x, y, tol) for x, y in zip(a, b))
    if a is None or b is None:
        return a is b
    if isnan(a) or isnan(b):
        return isnan(a) and isnan(b)
    return abs(a - b) <= tol * (1 + abs(a))


def same_result(r1, r2):
    """Two results of the same scene: None or the first key that differs."""
    if ("raises" in r1) != ("raises" in r2):
        return f"one run raised ({r1.get('raises')} / {r2.get('raises')})"
    if "raises" in r1:
        return None if r1["raises"] == r2["raises"] else f"raised {r1['raises']} / {r2['raises']}"
    for k, _ in OUT_KEYS:
        if not same_values(r1[k], r2[k]):
            return k
    return None


# ------------------------------------------------------------------ the property, executable
def isnan(v):
    return v != v


def oracle_frame(sc, g, animals, pred, extra_tol=0.0):
    """The property statement on one frame.  `pred`: list of instances, each a list
    of [x, y] (NaN = absent).  Returns None or a reason string."""
    n_nodes, edges = sc["n_nodes"], sc["edges"]
    f = float(g["f"])
    half = sc["cs"] / (2.0 * f) + COORD_ATOL + extra_tol          # half a stride cell in original coordinates
    expected = []
    for ai, a in enumerate(animals):
        vis = [visible(p) for p in a]
        for grp in components(n_nodes, edges, vis):
            if len(grp) >= 2:
                expected.append((ai, grp))
    used = set()
    for ii, inst in enumerate(pred):
        present = [j for j in range(n_nodes) if not (isnan(inst[j][0]) or isnan(inst[j][1]))]
        half_nan = [j for j in range(n_nodes) if isnan(inst[j][0]) != isnan(inst[j][1])]
        if half_nan:
            return f"instance {ii}: node {half_nan[0]} has exactly one NaN coordinate"
        match = None
        for ei, (ai, grp) in enumerate(expected):
            if grp == present and all(abs(inst[j][0] - float(animals[ai][j][0])) <= half and
                                      abs(inst[j][1] - float(animals[ai][j][1])) <= half for j in grp):
                if ei not in used:
                    match = ei
                    break
        if match is None:
            return (f"predicted instance {ii} (nodes {present}) is not a labelled group of >= 2 visible keypoints "
                    f"connected through visible edges within half a cell ({half:.4g} px): {inst}")
        used.add(match)
    if len(used) != len(expected):
        miss = [expected[e] for e in range(len(expected)) if e not in used]
        return f"{len(miss)} labelled group(s) without a predicted instance, e.g. animal {miss[0][0]} nodes {miss[0][1]}"
    return None


def oracle(sc, res):
    g = input_geometry(sc)
    if "raises" in res:
        return f"forward raised {res['raises']}: {res.get('msg', '')}"
    extra = 0.0
    if sc["registration"] == "content":
        # the stub placed the bumps where the image content is: the resize registration term
        # of C04 (|off| network-input px = |off|/f original px) is added to the bound
        extra = abs(float(g["off"] / g["f"]))
    for b, animals in enumerate(sc["frames"]):
        bad = oracle_frame(sc, g, animals, res["instances"][b], extra)
        if bad:
            return f"frame {b}: {bad}"
    return None


# ------------------------------------------------------------------ premise of the reassembly theorem, measured
def identify_peaks(sc, g, animals, peaks, chans):
    """Map every detected peak (network-input px) to the (animal, node) whose ideal
    position it is nearest to (within one cell + refinement slack), else None."""
    f = float(g["f"])
    ids = []
    for (x, y), c in zip(peaks, chans):
        best, bd = None, None
        for ai, a in enumerate(animals):
            p = a[c]
            if p is None:
                continue
            d = max(abs(x - float(p[0]) * f - float(g["off"])), abs(y - float(p[1]) * f - float(g["off"])))
            if bd is None or d < bd:
                best, bd = (ai, c), d
        ids.append(best if bd is not None and bd <= 1.5 * sc["cs"] + 1.0 else None)
    return ids


def best_assignments(score, n, m):
    """All maximum-total one-to-one assignments of size min(n, m) (brute force)."""
    best, arg = None, []
    if n <= m:
        gen = (list(zip(range(n), perm)) for perm in itertools.permutations(range(m), n))
    else:
        gen = (list(zip(perm, range(m))) for perm in itertools.permutations(range(n), m))
    for asg in gen:
        tot = sum(score[i][j] for i, j in asg)
        if best is None or tot > best + 1e-9:
            best, arg = tot, [asg]
        elif abs(tot - best) <= 1e-9:
            arg.append(asg)
    return best, arg


def measure_premise(sc, res):
    """Premise of c03_reassembly_partial on the REAL score tables of the scene:
    every visible keypoint detected exactly once; per edge type all candidate scores
    finite, true pairs >= min_line_scores, and EITHER (alt1) every cross-animal pair
    < min_line_scores and the true pairs saturate the smaller side, OR (alt2) every
    maximum-total assignment contains all true pairs and its other pairs are
    < min_line_scores.  Returns (holds, detail)."""
    g = input_geometry(sc)
    mls = float(MIN_LINE)
    detail = {"detected_once": True, "true_min": None, "cross_max": None, "alt1": True, "alt2": True, "finite": True,
              "tables": []}
    for b, animals in enumerate(sc["frames"]):
        peaks, chans = res["peaks"][b], res["peak_channel_inds"][b]
        ids = identify_peaks(sc, g, animals, peaks, chans)
        want = sorted((ai, j) for ai, a in enumerate(animals) for j, p in enumerate(a) if p is not None)
        if None in ids or sorted(ids) != want:
            detail["detected_once"] = False
            continue
        e_inds, ep, ls = res["edge_inds"][b], res["edge_peak_inds"][b], res["line_scores"][b]
        for k, (u, v) in enumerate(sc["edges"]):
            rows = [i for i, c in enumerate(e_inds) if c == k]
            srcs = sorted({ep[i][0] for i in rows})
            dsts = sorted({ep[i][1] for i in rows})
            if not rows:
                continue
            tab = [[None] * len(dsts) for _ in srcs]
            for i in rows:
                tab[srcs.index(ep[i][0])][dsts.index(ep[i][1])] = ls[i]
            if any(x is None or isnan(x) or math.isinf(x) for r in tab for x in r):
                detail["finite"] = False
                continue
            true_pairs = [(si, di) for si, s in enumerate(srcs) for di, d in enumerate(dsts)
                          if ids[s][0] == ids[d][0]]
            for si in range(len(srcs)):
                for di in range(len(dsts)):
                    x = tab[si][di]
                    if (si, di) in true_pairs:
                        detail["true_min"] = x if detail["true_min"] is None else min(detail["true_min"], x)
                    else:
                        detail["cross_max"] = x if detail["cross_max"] is None else max(detail["cross_max"], x)
            true_ok = all(tab[si][di] >= mls for si, di in true_pairs)
            cross_low = all(tab[si][di] < mls for si in range(len(srcs)) for di in range(len(dsts))
                            if (si, di) not in true_pairs)
            a1 = true_ok and cross_low and len(true_pairs) == min(len(srcs), len(dsts))
            _, opts = best_assignments(tab, len(srcs), len(dsts))
            a2 = true_ok and all(set(true_pairs) <= set(o) and
                                 all(tab[i][j] < mls for i, j in o if (i, j) not in true_pairs) for o in opts)
            detail["tables"].append(([ids[s_][0] for s_ in srcs], [ids[d_][0] for d_ in dsts], tab, a1))
            if a1 and not a2:
                detail["alt1_implies_alt2_failed"] = True        # would contradict lemma sep_saturated_unique_optimum
            detail["alt1"] = detail["alt1"] and a1
            detail["alt2"] = detail["alt2"] and a2
    holds = detail["detected_once"] and detail["finite"] and detail["alt2"]
    return holds, detail


# ------------------------------------------------------------------ independent reference for the ideal scores
def ideal_paf(sc, g, animals, k, x, y):
    """Ideal PAF vector of edge k at network-input position (x, y): the formula of
    edge_maps.py written out independently in float64 (w = exp(-(d2)^2 / (2 sigma^2)) with d2 the
    squared distance to the segment as the code projects it, summed over animals that
    pass the in-image filter)."""
    u, v = sc["edges"][k]
    sig = float(sc["sigma_paf"])
    vx = vy = 0.0
    for a in animals:
        if not (visible(a[u]) and visible(a[v])) or sel_paf_dropped(sc, g, a):
            continue
        sx, sy = (float(c) for c in to_input(g, a[u]))
        dx, dy = (float(c) for c in to_input(g, a[v]))
        ex, ey = dx - sx, dy - sy
        l2 = ex * ex + ey * ey
        if l2 == 0:
            continue
        t = ((x - sx) * ex + (y - sy) * ey) / (l2 if PAF_FIXED["len"] else max(l2, 1.0))
        t = min(max(t, 0.0), 1.0)
        d2 = (t * ex - (x - sx)) ** 2 + (t * ey - (y - sy)) ** 2
        w = math.exp(-(d2 * d2) / (2 * sig * sig))
        n = math.sqrt(l2)
        vx += w * ex / n
        vy += w * ey / n
    return vx, vy


def round_options(q: float):
    """Indices torch.round may return for the float value q/stride when the exact value sits
    on a .5 boundary (the float32 linspace of make_line_subs decides which): one or two."""
    fl = math.floor(q)
    r = q - fl
    if abs(r - 0.5) < 1e-6:
        return (fl, fl + 1)
    return (fl,) if r < 0.5 else (fl + 1,)


def ideal_line_score(sc, g, animals, k, src, dst):
    """score_paf_lines for the candidate src -> dst (network-input px), independent float64.
    Returns (lo, hi): an interval because a sample point exactly between two PAF cells may be
    rounded either way."""
    ps, n = sc["ps"], sc["n_points"]
    vx, vy = dst[0] - src[0], dst[1] - src[1]
    ln = math.hypot(vx, vy)
    if ln == 0:
        return (float("nan"), float("nan"))
    lo = hi = 0.0
    for i in range(n):
        t = i / (n - 1) if n > 1 else 0.0
        X, Y = src[0] + vx * t, src[1] + vy * t
        vals = []
        for c in round_options(X / ps):
            for r in round_options(Y / ps):
                col = min(max(c, 0), g["wp"] - 1)
                row = min(max(r, 0), g["hp"] - 1)
                px, py = ideal_paf(sc, g, animals, k, col * ps, row * ps)
                vals.append((px * vx + py * vy) / ln)
        lo += min(vals)
        hi += max(vals)
    max_len = float(max_edge_length(sc, g))         # of THIS scene's PAF tensor
    pen = min(0.0, max_len / ln - 1.0)
    return (lo / n + pen, hi / n + pen)


def ideal_peaks(sc, g, animals):
    """Where the peaks of the ideal confidence maps are reported (network-input px):
    the nearest grid cell without refinement; ~ the true position with integral refinement."""
    cs = sc["cs"]
    out = {}
    for ai, a in enumerate(animals):
        for j, p in enumerate(a):
            if visible(p):
                px, py = to_input(g, p)
                if sc["refinement"] is None:
                    out[(ai, j)] = (float(nearest_cell(px, cs, g["wc"]) * cs), float(nearest_cell(py, cs, g["hc"]) * cs))
                else:
                    out[(ai, j)] = (float(px), float(py))
    return out


def ideal_separation(sc, margin=0.1):
    """"Well-separated", made precise: computed WITHOUT the implementation, the ideal
    line-integral scores of every frame separate with a margin: true pairs >= mls + margin, and
    every one-to-one assignment (of size min(n,m)) whose total is within `margin` (+ rounding
    ambiguity) of the best contains all true pairs and pairs nothing else with a score
    >= mls - margin.  Returns (separated, per-frame {edge: (srcs, dsts, table of (lo, hi))})."""
    g = input_geometry(sc)
    mls = float(MIN_LINE)
    tables = []
    sep = True
    for animals in sc["frames"]:
        pk = ideal_peaks(sc, g, animals)
        ftab = {}
        for k, (u, v) in enumerate(sc["edges"]):
            srcs = [ai for ai, a in enumerate(animals) if visible(a[u])]
            dsts = [ai for ai, a in enumerate(animals) if visible(a[v])]
            if not srcs or not dsts:
                continue
            tab = [[ideal_line_score(sc, g, animals, k, pk[(s, u)], pk[(d, v)]) for d in dsts] for s in srcs]
            ftab[k] = (srcs, dsts, tab)
            true_pairs = {(si, di) for si, s in enumerate(srcs) for di, d in enumerate(dsts) if s == d}
            if any(isnan(x[0]) for r in tab for x in r):
                sep = False
                continue
            if any(tab[si][di][0] < mls + margin for si, di in true_pairs):
                sep = False
                continue
            n, m = len(srcs), len(dsts)
            if n <= m:
                gen = (list(zip(range(n), perm)) for perm in itertools.permutations(range(m), n))
            else:
                gen = (list(zip(perm, range(m))) for perm in itertools.permutations(range(n), m))
            asgs = [(sum(tab[i][j][0] for i, j in a), sum(tab[i][j][1] for i, j in a), a) for a in gen]
            best_lo = max(t for t, _, _ in asgs)
            for _tlo, thi, a in asgs:
                if thi >= best_lo - margin:
                    if not true_pairs <= set(a):
                        sep = False
                    elif any(tab[i][j][1] >= mls - margin for i, j in a if (i, j) not in true_pairs):
                        sep = False
        tables.append(ftab)
    return sep, tables


# ------------------------------------------------------------------ geometric premise (c03_reassembly_from_geometry)
def seg_d2(seg, x, y):
    """Squared distance to a segment exactly as distance_to_edge / IdealPaf.seg_d2 compute it."""
    sx, sy, dx, dy = seg
    ex, ey = dx - sx, dy - sy
    l2 = ex * ex + ey * ey
    t = ((x - sx) * ex + (y - sy) * ey) / l2
    t = min(max(t, 0.0), 1.0)
    return (t * ex - (x - sx)) ** 2 + (t * ey - (y - sy)) ** 2


GEO_MAX_SCENES = 2000   # thorough tier: the (pure Python) geometric premise is evaluated on the first 2000 scenes
GEO_EPS = 2e-4          # the tolerance of the score tie (obligation "every real line score == reference")


def geo_premise(sc, res):
    """The premise `geo_premise` of c03_reassembly_from_geometry, evaluated per frame and edge type on
    the REAL peaks: parameters r2 (largest squared distance of a true candidate's sampled cells to
    its own segment), R2 (fixed: w(R2) = 1e-3), kappa (smallest cosine between a true candidate and
    its segment), m (largest number of sampled cells of a cross candidate nearer than R2 to any
    segment), P (largest distance penalty of a cross candidate), A (#animals with the edge).
    Also checks the bounds the theorems DERIVE (c03_ideal_true_score_bound / _cross_score_bound)
    against every REAL line score.  Returns a dict."""
    g = input_geometry(sc)
    ps, n, sig, mls = sc["ps"], sc["n_points"], float(sc["sigma_paf"]), float(MIN_LINE)
    R2 = sig * math.sqrt(2 * math.log(1000.0))
    wfar = math.exp(-(R2 * R2) / (2 * sig * sig))
    out = {"structural": True, "holds": True, "bound_bad": [], "edges": 0, "edges_hold": 0, "edges_structural": 0,
           "via_margin": 0, "via_saturated": 0}
    max_len = float(max_edge_length(sc, g))
    for b, animals in enumerate(sc["frames"]):
        peaks, chans = res["peaks"][b], res["peak_channel_inds"][b]
        ids = identify_peaks(sc, g, animals, peaks, chans)
        want = sorted((ai, j) for ai, a in enumerate(animals) for j, p in enumerate(a) if p is not None)
        if None in ids or sorted(ids) != want or any(sel_paf_dropped(sc, g, a) for a in animals):
            out["structural"] = out["holds"] = False
            continue
        e_inds, ep, ls = res["edge_inds"][b], res["edge_peak_inds"][b], res["line_scores"][b]
        for k, (u, v) in enumerate(sc["edges"]):
            rows = [i for i, c in enumerate(e_inds) if c == k]
            if not rows:
                continue
            out["edges"] += 1
            segs = {}
            for ai, a in enumerate(animals):
                if visible(a[u]) and visible(a[v]):
                    s_, d_ = to_input(g, a[u]), to_input(g, a[v])
                    segs[ai] = (float(s_[0]), float(s_[1]), float(d_[0]), float(d_[1]))
            if any((sg[2] - sg[0]) ** 2 + (sg[3] - sg[1]) ** 2 == 0 for sg in segs.values()):
                out["structural"] = out["holds"] = False
                continue
            A = len(segs)
            r2, kappa, m, P, struct = 0.0, 1.0, 0, 0.0, True
            cand = []
            for i in rows:
                a, bb = ids[ep[i][0]][0], ids[ep[i][1]][0]
                src, dst = peaks[ep[i][0]], peaks[ep[i][1]]
                vx, vy = dst[0] - src[0], dst[1] - src[1]
                ln = math.hypot(vx, vy)
                if ln == 0 or ls[i] is None or isnan(ls[i]):
                    struct = False
                    continue
                pen = min(0.0, max_len / ln - 1.0)
                cells = []
                for q in range(n):
                    t = q / (n - 1) if n > 1 else 0.0
                    X, Y = src[0] + vx * t, src[1] + vy * t
                    cells.append([(min(max(c, 0), g["wp"] - 1) * ps, min(max(r, 0), g["hp"] - 1) * ps)
                                  for c in round_options(X / ps) for r in round_options(Y / ps)])
                if a == bb:
                    if a not in segs or pen != 0.0:
                        struct = False
                        continue
                    sg = segs[a]
                    sl = math.hypot(sg[2] - sg[0], sg[3] - sg[1])
                    kappa = min(kappa, ((sg[2] - sg[0]) * vx + (sg[3] - sg[1]) * vy) / (sl * ln))
                    for opts in cells:
                        for (x, y) in opts:
                            r2 = max(r2, seg_d2(sg, x, y))
                            if any(seg_d2(sg2, x, y) < R2 for c2, sg2 in segs.items() if c2 != a):
                                struct = False
                else:
                    P = max(P, -pen)
                    cnt = 0
                    for opts in cells:
                        near_max = max(sum(seg_d2(sg2, x, y) < R2 for sg2 in segs.values()) for (x, y) in opts)
                        if near_max >= 2:
                            struct = False
                        cnt += near_max >= 1
                    m = max(m, cnt)
                cand.append((a == bb, ls[i]))
            if kappa < 0:
                struct = False
            if not struct:
                out["structural"] = out["holds"] = False
                continue
            out["edges_structural"] += 1
            T = math.exp(-(r2 * r2) / (2 * sig * sig)) * kappa - A * wfar - GEO_EPS
            C = m / n + A * wfar + GEO_EPS
            for is_true, x in cand:
                if is_true and x < T - 1e-6:
                    out["bound_bad"].append(f"frame {b} edge {k}: true score {x:.5f} < derived lower bound {T:.5f} "
                                            f"(r2={r2:.3f}, kappa={kappa:.4f}, A={A})")
                if not is_true and not (-(C + P) - 1e-6 <= x <= C + 1e-6):
                    out["bound_bad"].append(f"frame {b} edge {k}: cross score {x:.5f} outside derived [{-(C + P):.5f}, {C:.5f}] "
                                            f"(m={m}, n={n}, A={A}, P={P:.4f})")
            n_src, n_dst = len({ep[i][0] for i in rows}), len({ep[i][1] for i in rows})
            n_true = sum(1 for i in rows if ids[ep[i][0]][0] == ids[ep[i][1]][0])
            via_margin = 3 * C + P < T and C < mls
            via_sat = n_true == min(n_src, n_dst) and C < T
            ok = mls <= T and (via_margin or via_sat)
            out["edges_hold"] += ok
            out["via_margin"] += bool(ok and via_margin)
            out["via_saturated"] += bool(ok and via_sat and not via_margin)
            if not ok:
                out["holds"] = False
    return out


# ------------------------------------------------------------------ Coq terms
def cqq(x):
    return core.cq(F(x))


def ckp(p):
    return "None" if p is None else f"(Some ({cqq(p[0])}, {cqq(p[1])}))"


def geom_term(sc, g):
    return (f"(Build_geom {cqq(g['f'])} {cqq(g['off'])} {cqq(sc['scale'])} {cqq(sc['eff'])} {core.cz(sc['cs'])} "
            f"{core.cz(g['wc'])} {core.cz(g['hc'])} {core.cbool(sc['refinement'] == 'integral')} {core.cz(PATCH // 2)})")


def scene_term(sc, g, animals):
    es = "[" + "; ".join(f"({u},{v})" for u, v in sc["edges"]) + "]%nat"
    an = core.clist(animals, lambda a: core.clist(a, ckp))
    return f"CScene {geom_term(sc, g)} {sc['n_nodes']}%nat {es} {an}"


def jfrac(j):
    return None if j is None else F(j[0], j[1])


# ------------------------------------------------------------------ unit correspondence: addressing and scores
def dy(rng, lo, hi, den=8):
    return F(rng.randrange(int(lo * den), int(hi * den) + 1), den)


def gen_unit_case(rng):
    ps = rng.choice([1, 2, 4, 8])
    h, w = rng.randint(1, 6), rng.randint(1, 7)
    E = rng.randint(1, 3)
    k = rng.randrange(E)
    n = rng.choice([1, 2, 3, 5, 10])
    kind = rng.random()
    ext_x, ext_y = (w - 1) * ps, (h - 1) * ps
    if kind < 0.25:       # on grid samples / integer positions: many exact .5 boundaries
        pt = lambda: (F(rng.randint(-ps, ext_x + ps)), F(rng.randint(-ps, ext_y + ps)))
    elif kind < 0.35:     # far outside: clipping; x and y very different
        pt = lambda: (dy(rng, -3 * ps, 3 * ext_x + 4 * ps), dy(rng, -3 * ps, ext_y + ps))
    else:
        pt = lambda: (dy(rng, -ps / 2, ext_x + ps / 2, 16), dy(rng, -ps / 2, ext_y + ps / 2, 16))
    src, dst = pt(), pt()
    if rng.random() < 0.04:
        dst = src                                   # zero-length line: 0/0
    paf = [[[F(rng.randint(-8, 8), 8) for _ in range(2 * E)] for _ in range(w)] for _ in range(h)]
    M = rng.choice([F(1, 2), F(2), F(5), F(40)])
    wt = rng.choice([F(1), F(1), F(1, 2), F(2)])
    taus = [F(-1, 2), F(0), F(1, 4), F(1, 2), F(9, 10)]
    return {"ps": ps, "h": h, "w": w, "E": E, "k": k, "n": n, "src": src, "dst": dst, "paf": paf, "M": M, "wt": wt,
            "taus": taus}


def unit_term(c):
    paf = core.clist(c["paf"], lambda r: core.clist(r, lambda cell: core.clist(cell, cqq)))
    return (f"CScore {paf} {cqq(c['src'][0])} {cqq(c['src'][1])} {cqq(c['dst'][0])} {cqq(c['dst'][1])} "
            f"{core.cz(c['k'])} {core.cz(c['ps'])} {c['n']}%nat {cqq(c['M'])} {cqq(c['wt'])} {core.clist(c['taus'], cqq)}")


def unit_impl(im: Impl, c):
    torch, pg = im.torch, im.pg
    peaks = torch.tensor([[float(c["src"][0]), float(c["src"][1])], [float(c["dst"][0]), float(c["dst"][1])]],
                         dtype=torch.float32)
    epi = torch.tensor([[0, 1]], dtype=torch.int64)
    ei = torch.tensor([c["k"]], dtype=torch.int32)
    paf = torch.tensor([[[float(x) for x in cell] for cell in row] for row in c["paf"]], dtype=torch.float32)
    subs = pg.make_line_subs(peaks, epi, ei, c["n"], c["ps"], (c["h"], c["w"]))
    lines = pg.get_paf_lines(paf, peaks, epi, ei, c["n"], c["ps"])
    score = pg.score_paf_lines(lines, peaks, epi, float(c["M"]), dist_penalty_weight=float(c["wt"]))
    return subs[0].tolist(), lines[0].tolist(), float(score[0])


def unit_compare(c, model, impl):
    """model: [subs, S, len2, [bools]]; impl: (subs (n,2,3), lines (n,2), score)."""
    msubs, S, len2, mb = model
    isubs, ilines, iscore = impl
    n, ps = c["n"], c["ps"]
    if len(msubs) != n or len(isubs) != n:
        return f"number of line points: model {len(msubs)} impl {len(isubs)} want {n}"
    any_tie = False
    for i in range(n):
        t = F(i, n - 1) if n > 1 else F(0)
        X = c["src"][0] + (c["dst"][0] - c["src"][0]) * t
        Y = c["src"][1] + (c["dst"][1] - c["src"][1]) * t
        (r0, c0, ch0), (r1, c1, ch1) = isubs[i]
        mr, mc, mcx, mcy = msubs[i]
        if (r0, c0) != (r1, c1):
            return f"point {i}: the two channel subscripts address different cells {isubs[i]}"
        if (ch0, ch1) != (mcx, mcy):
            return f"point {i}: channels impl {(ch0, ch1)} model {(mcx, mcy)}"
        for nm, q, got, mod, size in (("row", Y / ps, r0, mr, c["h"]), ("col", X / ps, c0, mc, c["w"])):
            tie = (q - math.floor(q)) == F(1, 2)
            any_tie = any_tie or tie
            if tie:          # float32 linspace decides; either neighbour (clipped) is the code's torch.round
                okset = {min(max(math.floor(q), 0), size - 1), min(max(math.floor(q) + 1, 0), size - 1)}
                if got not in okset:
                    return f"point {i}: {nm} impl {got} not in {sorted(okset)} (boundary value {q})"
            elif got != mod:
                return f"point {i}: {nm} impl {got} model {mod} (value/stride = {float(q)})"
        # the values read are the tensor entries at those subscripts
        want = [float(c["paf"][r0][c0][ch0]), float(c["paf"][r0][c0][ch1])]
        if any(abs(a - b) > 1e-7 for a, b in zip(want, ilines[i])):
            return f"point {i}: get_paf_lines returned {ilines[i]}, tensor holds {want} at {isubs[i]}"
    S, len2 = jfrac(S), jfrac(len2)
    if len2 == 0:
        if not isnan(iscore):
            return f"zero-length line: impl score {iscore}, model NaN"
        if any(b is not None for b in mb):
            return "zero-length line: model comparisons not None"
        return None
    if any_tie:
        return None              # S depends on which neighbour the float code took; subscripts were checked
    L = math.sqrt(float(len2))
    want = float(S) / (n * L) + float(c["wt"]) * min(0.0, float(c["M"]) / L - 1.0)
    if not abs(want - iscore) <= 3e-5 + 3e-5 * abs(want):
        return f"score impl {iscore} model {want} (S={S}, len2={len2})"
    for tau, b in zip(c["taus"], mb):
        if abs(want - float(tau)) > 1e-4 and b != (iscore >= float(tau)):
            return f"score >= {tau}: model {b}, impl score {iscore}"
    return None


LPREAMBLE = ("From SV Require Import C03.BottomUp C03.LineGeo.\nFrom Coq Require Import List ZArith QArith.\n"
             "Import ListNotations.\nOpen Scope Q_scope.\n")


def line_pts_compare(c, model, isubs):
    """model: [[(x, y)...], [t_i...]] from LineGeo.line_pts / lerp_t; isubs: make_line_subs (n, 2, 3).
    Returns the number of points compared exactly, or a message."""
    mpts, mts = model
    n, ps = c["n"], c["ps"]
    if len(mpts) != n or len(mts) != n or len(isubs) != n:
        return f"number of line points: model {len(mpts)}/{len(mts)} impl {len(isubs)} want {n}"
    cnt = 0
    for i in range(n):
        t = F(i, n - 1) if n > 1 else F(0)
        if jfrac(mts[i]) != t:
            return f"point {i}: lerp_t {jfrac(mts[i])} want {t}"
        X = c["src"][0] + (c["dst"][0] - c["src"][0]) * t
        Y = c["src"][1] + (c["dst"][1] - c["src"][1]) * t
        (r0, c0, _), _ = isubs[i]
        mx, my = jfrac(mpts[i][0]), jfrac(mpts[i][1])
        for nm, q, got, mod in (("y", Y / ps, r0 * ps, my), ("x", X / ps, c0 * ps, mx)):
            if (q - math.floor(q)) == F(1, 2):
                continue          # float32 linspace decides exact .5 boundaries (see unit_compare)
            if F(got) != mod:
                return f"point {i}: {nm} impl {got} model {mod} (value/stride = {float(q)})"
            cnt += 1
    return cnt


def layout_check(im: Impl, rng, model_pairs, h, w, E):
    """(i) the model's writer/reader offsets agree and are what torch's reshape/permute do;
    (ii) the real generate_pafs puts edge k's x/y component of cell (i, j) [= position
    (j*s, i*s)] into flattened channel 2k / 2k+1 (compared with the independent reference)."""
    torch = im.torch
    T = torch.arange(E * 2 * h * w).reshape(E, 2, h, w)          # value = writer offset
    flat = T.reshape(2 * E, h, w)                                # generate_pafs(flatten_channels=True)
    rd = flat.unsqueeze(0).permute(0, 2, 3, 1)[0]                # forward: permute(0, 2, 3, 1); pafs[sample]
    it = iter(model_pairs)
    for k in range(E):
        for c in range(2):
            for i in range(h):
                for j in range(w):
                    wo, ro = next(it)
                    if wo != ro:
                        return f"model: writer offset {wo} != reader offset {ro} at {(k, c, i, j)}"
                    if int(T[k, c, i, j]) != wo:
                        return f"model writer offset {wo} != torch layout {int(T[k, c, i, j])} at {(k, c, i, j)}"
                    if int(rd[i, j, 2 * k + c]) != wo:
                        return f"torch reader [row,col,2k+c] reads {int(rd[i, j, 2 * k + c])}, writer wrote {wo}"
    return None


def writer_check(im: Impl, rng, force=None):
    """Real generate_pafs (flattened) against the independent reference ideal_paf.
    force = (H, W, s): that image size and stride (used to follow a call with another one whose grid
    has the SAME SHAPE but another stride).  Returns (diff or None, cells checked, (H, W, s))."""
    torch = im.torch
    if force is None:
        s = rng.choice([1, 2, 4])
        H, W = s * rng.randint(3, 6), s * rng.randint(3, 7)
    else:
        H, W, s = force
    n_nodes = rng.randint(2, 4)
    edges = random_tree(rng, n_nodes)
    sc = {"edges": edges, "ps": s, "sigma_paf": rng.choice([F(3), F(15)]), "registration": "target"}
    g = {"f": F(1), "off": F(0), "hp": -(-H // s), "wp": -(-W // s), "Hin": H, "Win": W}
    animals = [[(dy(rng, 1, W - 2, 4), dy(rng, 1, H - 2, 4)) if rng.random() < 0.85 else None for _ in range(n_nodes)]
               for _ in range(rng.randint(1, 2))]
    pts = truth_tensor(torch, animals).unsqueeze(0)
    et = torch.tensor(edges, dtype=torch.int32).reshape(-1, 2)
    out = im.em.generate_pafs(pts.clone(), (H, W), float(sc["sigma_paf"]), s, et, True)
    if tuple(out.shape) != (2 * len(edges), g["hp"], g["wp"]):
        return f"generate_pafs shape {tuple(out.shape)}", 0, (H, W, s)
    o = out.tolist()
    n = 0
    for k in range(len(edges)):
        for i in range(g["hp"]):
            for j in range(g["wp"]):
                vx, vy = ideal_paf(sc, g, animals, k, j * s, i * s)
                n += 1
                if abs(o[2 * k][i][j] - vx) > 2e-5 or abs(o[2 * k + 1][i][j] - vy) > 2e-5:
                    return (f"generate_pafs (image {H}x{W}, stride {s}) channel {2 * k}/{2 * k + 1} cell {(i, j)} = "
                            f"{(o[2 * k][i][j], o[2 * k + 1][i][j])}, edge {k} at (x={j * s}, y={i * s}) is {(vx, vy)}; "
                            f"edges {edges} animals {[[None if p is None else (float(p[0]), float(p[1])) for p in a] for a in animals]}"), n, (H, W, s)
    return None, n, (H, W, s)


def same_shape_other_stride(rng, H, W, s):
    """An (image size, stride) whose sampling grid has the shape of (H, W, s)'s but another stride."""
    hp, wp = -(-H // s), -(-W // s)
    s2 = rng.choice([x for x in (1, 2, 4, 8) if x != s])
    return hp * s2, wp * s2, s2


def grid_check(im: Impl, cases, model):
    """make_grid_vectors (the sampling positions of the ideal maps of ONE call) against Coq grid_vector."""
    from sleap_nn.data.utils import make_grid_vectors
    for (H, W, st), (mx, my) in zip(cases, model):
        xv, yv = make_grid_vectors(H, W, st)
        for nm, got, mod in (("x", xv.tolist(), mx), ("y", yv.tolist(), my)):
            want = [float(jfrac(q)) for q in mod]
            if got != want:
                return f"make_grid_vectors({H}, {W}, {st}) {nm} = {got[:6]}..., model {want[:6]}... (lengths {len(got)}/{len(want)})"
    return None


# ------------------------------------------------------------------ unit correspondence: ONE scorer object, many calls
SPREAMBLE = ("From SV Require Import C03.BottomUp C03.Scorer.\nFrom Coq Require Import List ZArith QArith.\n"
             "Import ListNotations.\nOpen Scope Q_scope.\n")
STREAM_TAUS = [F(-1, 2), F(0), F(1, 4), F(1, 2), F(9, 10)]


def gen_scorer_stream(rng):
    """A PAFScorer configuration and a SEQUENCE of calls on PAF tensors of different sizes (random
    order; half of the streams start with their smallest tensor): samples with 1-2 peaks per node."""
    E = rng.randint(1, 3)
    n_nodes = E + 1
    edges = random_tree(rng, n_nodes)
    ps = rng.choice([1, 2, 4, 8])
    cfg = {"E": E, "n_nodes": n_nodes, "edges": edges, "ps": ps,
           "ratio": rng.choice([F(1, 4), F(1, 4), F(1, 2), F(1, 8)]), "wt": rng.choice([F(1), F(1), F(1, 2), F(2)]),
           "n": rng.choice([1, 2, 3, 5, 10]), "from_config": rng.random() < 0.5}
    dims = [(rng.randint(1, 6), rng.randint(1, 7)) for _ in range(rng.randint(5, 8))]
    if rng.random() < 0.5:
        dims.sort(key=lambda d: max(d))
        dims = dims[:1] + rng.sample(dims[1:], len(dims) - 1)
    calls = []
    for h, w in dims:
        samples = []
        for _b in range(rng.choice([1, 1, 2])):
            ext_x, ext_y = (w - 1) * ps, (h - 1) * ps
            kind = rng.random()
            if kind < 0.3:
                pt = lambda: (F(rng.randint(-ps, ext_x + ps)), F(rng.randint(-ps, ext_y + ps)))
            else:
                pt = lambda: (dy(rng, -ps / 2, ext_x + ps / 2, 16), dy(rng, -ps / 2, ext_y + ps / 2, 16))
            peaks, chans = [], []
            for node in range(n_nodes):
                for _q in range(rng.choice([1, 1, 2])):
                    peaks.append(pt())
                    chans.append(node)
            order = list(range(len(peaks)))
            rng.shuffle(order)
            paf = [[[F(rng.randint(-8, 8), 8) for _ in range(2 * E)] for _ in range(w)] for _ in range(h)]
            samples.append({"paf": paf, "peaks": [peaks[i] for i in order], "chans": [chans[i] for i in order]})
        calls.append({"h": h, "w": w, "samples": samples})
    cfg["calls"] = calls
    return cfg


def scorer_stream_impl(im: Impl, st):
    """The calls of the stream on ONE PAFScorer object (PAFScorer.score_paf_lines, the wrapper the
    inference model uses).  Returns per call, per sample: (edge_inds, edge_peak_inds, scores)."""
    torch, pg = im.torch, im.pg
    names = [f"n{i}" for i in range(st["n_nodes"])]
    edges_named = [(names[u], names[v]) for u, v in st["edges"]]
    kw = dict(max_edge_length_ratio=float(st["ratio"]), dist_penalty_weight=float(st["wt"]), n_points=st["n"])
    if st["from_config"]:
        from omegaconf import OmegaConf
        cfg = OmegaConf.create({"confmaps": {"part_names": names},
                                "pafs": {"edges": [list(e) for e in edges_named], "output_stride": st["ps"]}})
        scorer = pg.PAFScorer.from_config(cfg, **kw)
    else:
        scorer = pg.PAFScorer(part_names=names, edges=edges_named, pafs_stride=st["ps"], **kw)
    out = []
    for c in st["calls"]:
        pafs = torch.tensor([[[[float(x) for x in cell] for cell in row] for row in smp["paf"]] for smp in c["samples"]],
                            dtype=torch.float32)
        peaks = [torch.tensor([[float(x), float(y)] for x, y in smp["peaks"]], dtype=torch.float32) for smp in c["samples"]]
        chans = [torch.tensor(smp["chans"], dtype=torch.int32) for smp in c["samples"]]
        ei, epi, ls = scorer.score_paf_lines(pafs, peaks, chans)
        out.append([(ei[b].tolist(), epi[b].tolist(), ls[b].tolist()) for b in range(len(c["samples"]))])
    return out


def scorer_stream_term(st, impl):
    """CCalls term: the candidates are listed in the order the implementation returned them."""
    calls = []
    for c, per_sample in zip(st["calls"], impl):
        for smp, (ei, epi, _ls) in zip(c["samples"], per_sample):
            paf = core.clist(smp["paf"], lambda r: core.clist(r, lambda cell: core.clist(cell, cqq)))
            cands = core.clist(list(zip(ei, epi)), lambda t: "(%s, %s, %s, %s, %s)" % (
                cqq(smp["peaks"][t[1][0]][0]), cqq(smp["peaks"][t[1][0]][1]),
                cqq(smp["peaks"][t[1][1]][0]), cqq(smp["peaks"][t[1][1]][1]), core.cz(t[0])))
            calls.append(f"{{| c_paf := {paf}; c_cands := {cands} |}}")
    scorer = f"{{| s_ps := {core.cz(st['ps'])}; s_ratio := {cqq(st['ratio'])}; s_wt := {cqq(st['wt'])}; s_n := {st['n']}%nat |}}"
    return f"CCalls {scorer} {core.clist(STREAM_TAUS, cqq)} {core.clist(calls)}"


def line_on_boundary(src, dst, n, ps):
    for i in range(n):
        t = F(i, n - 1) if n > 1 else F(0)
        for a, b in ((src[0], dst[0]), (src[1], dst[1])):
            q = (a + (b - a) * t) / ps
            if q - math.floor(q) == F(1, 2):
                return True
    return False


def scorer_stream_compare(st, impl, model):
    """model: per (call, sample) [M, [[S, len2, [bools]], ...]] with M = the max edge length Coq computes
    from THAT call's tensor.  Returns (diff or None, #candidates compared, #penalised candidates)."""
    it = iter(model)
    n_c = n_pen = 0
    for ci, (c, per_sample) in enumerate(zip(st["calls"], impl)):
        for b, (smp, (ei, epi, ls)) in enumerate(zip(c["samples"], per_sample)):
            M, rows = next(it)
            M = jfrac(M)
            want_M = st["ratio"] * max(c["h"], c["w"], 2 * st["E"]) * st["ps"]
            if M != want_M:
                return f"call {ci}: Coq max_edge_length {M}, harness {want_M}", n_c, n_pen
            expect = sorted((k, i, j) for k, (u, v) in enumerate(st["edges"])
                            for i, ci_ in enumerate(smp["chans"]) if ci_ == u
                            for j, cj in enumerate(smp["chans"]) if cj == v)
            if sorted((k, i, j) for k, (i, j) in zip(ei, epi)) != expect:
                return f"call {ci} sample {b}: candidates {list(zip(ei, epi))}, expected {expect}", n_c, n_pen
            for (k, (i, j), got, (S, len2, mb)) in zip(ei, epi, ls, rows):
                S, len2 = jfrac(S), jfrac(len2)
                src, dst = smp["peaks"][i], smp["peaks"][j]
                where = (f"call {ci} (tensor {c['h']}x{c['w']}x{2 * st['E']}, stride {st['ps']}, max length {float(M)}; "
                         f"earlier calls {[(x['h'], x['w']) for x in st['calls'][:ci]]}) sample {b} candidate "
                         f"{tuple(map(float, src))} -> {tuple(map(float, dst))} edge {k}")
                if len2 == 0:
                    if not isnan(got) or any(x is not None for x in mb):
                        return f"{where}: zero-length line, impl {got}, model {mb}", n_c, n_pen
                    continue
                if line_on_boundary(src, dst, st["n"], st["ps"]):
                    continue
                L = math.sqrt(float(len2))
                pen = float(st["wt"]) * min(0.0, float(M) / L - 1.0)
                want = float(S) / (st["n"] * L) + pen
                n_c += 1
                n_pen += pen < 0
                if not abs(want - got) <= 3e-5 + 3e-5 * abs(want):
                    return f"{where}: impl score {got}, model {want} (penalty {pen})", n_c, n_pen
                for tau, bb in zip(STREAM_TAUS, mb):
                    if abs(want - float(tau)) > 1e-4 and bb != (got >= float(tau)):
                        return f"{where}: score >= {tau}: model {bb}, impl score {got}", n_c, n_pen
    return None, n_c, n_pen


# ------------------------------------------------------------------ scenes <-> JSON
def scene_json(sc):
    j = {k: v for k, v in sc.items() if k != "frames"}
    for k in ("eff", "scale", "sigma_cms", "sigma_paf"):
        j[k] = str(sc[k])
    j["edges"] = [list(e) for e in sc["edges"]]
    j["frames"] = [[[None if p is None else [str(p[0]), str(p[1])] for p in a] for a in fr] for fr in sc["frames"]]
    return j


def scene_from_json(j):
    sc = dict(j)
    for k in ("eff", "scale", "sigma_cms", "sigma_paf"):
        sc[k] = F(j[k])
    sc["edges"] = [tuple(e) for e in j["edges"]]
    sc["frames"] = [[[None if p is None else (F(p[0]), F(p[1])) for p in a] for a in fr] for fr in j["frames"]]
    return sc


def scene_selectors(sc):
    """Which known-finding selectors a scene falls under (None = in the generator's domain)."""
    g = input_geometry(sc)
    if sel_coarse(sc):
        return "c03_coarse_paf"
    for fr in sc["frames"]:
        for a in fr:
            if sel_coincident(sc, g, a):
                return "c03_coincident_parts"
    for fr in sc["frames"]:
        for a in fr:
            if any(sel_band(sc, g, p) for p in a if visible(p)) or sel_paf_dropped(sc, g, a):
                return "c03_border_band"
    for fr in sc["frames"]:
        for a in fr:
            if sel_long_edge(sc, g, a):
                return "c03_long_edge"
    return None


def sel_coarse(sc):
    """F21: (cs + ps)^4 > 32 sigma_paf^2 (worst-case ideal edge weight exp(-4))."""
    return (sc["cs"] + sc["ps"]) ** 4 > 32 * sc["sigma_paf"] ** 2


def canon_instances(insts):
    key = lambda inst: [(-1.0, -1.0) if (p is None or isnan(p[0])) else (round(p[0], 1), round(p[1], 1)) for p in inst]
    return sorted(insts, key=key)


def compare_scene(sc, g, b, model, res):
    """Composed model (expected instances with exact coordinates / rough cells) against forward."""
    tie, band, coinc, minst, is_tree, procs, pinst = model
    animals = sc["frames"][b]
    rooted = "pose_edges" not in sc
    if bool(is_tree) != rooted:
        return f"skeleton {sc['edges']}: C17 is_tree (Coq) = {bool(is_tree)}, generator says rooted tree = {rooted}"
    if rooted and (not all(procs) or minst != pinst):
        return (f"rooted tree {sc['edges']}: the model does not process every edge type ({procs}) or forward_instances "
                f"differs from expected_instances (contradicts c03_processed_all_for_trees / c03_forward_instances_tree)")
    py_tie = any(is_tie(c, sc["cs"]) for a in animals for p in a if visible(p) for c in to_input(g, p))
    py_band = any(sel_band(sc, g, p) for a in animals for p in a if visible(p))
    py_coinc = any(sel_coincident(sc, g, a) for a in animals)
    if (tie, band, coinc) != (py_tie, py_band, py_coinc):
        return f"selectors: Coq (tie, band, coincident) = {(tie, band, coinc)}, harness {(py_tie, py_band, py_coinc)}"
    if tie or band or coinc or "raises" in res:
        return None
    want = [[None if p is None else (float(jfrac(p[0])), float(jfrac(p[1]))) for p in inst] for inst in minst]
    got = [[None if isnan(p[0]) else (p[0], p[1]) for p in inst] for inst in res["instances"][b]]
    if len(want) != len(got):
        return f"frame {b}: model expects {len(want)} instances, forward returned {len(got)}"
    f = float(g["f"])
    tol = COORD_ATOL if sc["refinement"] is None else (PATCH - 1) / 2 * sc["cs"] / f + COORD_ATOL
    used = set()
    for wi in want:                       # order-free: the instance order is not part of the property
        hit = None
        for gi_idx, gi in enumerate(got):
            if gi_idx in used:
                continue
            if all((wp is None) == (gp is None) and
                   (wp is None or (abs(wp[0] - gp[0]) <= tol and abs(wp[1] - gp[1]) <= tol))
                   for wp, gp in zip(wi, gi)):
                hit = gi_idx
                break
        if hit is None:
            return f"frame {b}: model instance {wi} has no counterpart in forward's output {got} (tol {tol:.4g})"
        used.add(hit)
    return None


def compare_registration(sc, g, res):
    """The affine map the stub measured from the pixels it was given (original = a * pixel + b)
    against the factors the decode divides by: 1/a = eff_scale * input_scale on both axes, and
    -b/a = the exact half-pixel-centre registration offset of the resize chain."""
    f = float(g["f"])
    eff, scale = F(sc["eff"]), F(sc["scale"])
    off = float(((eff - 1) * scale + (scale - 1)) / 2)
    for b, ft in enumerate(res.get("fits", [])):
        for ax, bx, nm in ((ft["ax"], ft["bx"], "x"), (ft["ay"], ft["by"], "y")):
            if abs(1.0 / ax - f) > 1e-3 * f:
                return f"frame {b}: the image was resized by {1.0 / ax:.6g} on {nm}, forward divides by {f:.6g}"
            if abs(-bx / ax - off) > 5e-3:
                return f"frame {b}: content offset {-bx / ax:.5g} on {nm}, half-pixel model {off:.5g}"
        if abs(res["effs"][b] - float(eff)) > 1e-9:
            return f"frame {b}: apply_sizematcher returned eff_scale {res['effs'][b]}, scene says {float(eff)}"
    return None


def compare_scores(sc, g, res):
    """Every real candidate line score against the independent float64 reference evaluated at
    the real peak coordinates (interval when a sample point sits on a cell boundary)."""
    worst = 0.0
    for b, animals in enumerate(sc["frames"]):
        pk = res["peaks"][b]
        for ei, (s, d), ls in zip(res["edge_inds"][b], res["edge_peak_inds"][b], res["line_scores"][b]):
            lo, hi = ideal_line_score(sc, g, animals, ei, tuple(pk[s]), tuple(pk[d]))
            if isnan(lo) or isnan(ls):
                if isnan(lo) != isnan(ls):
                    return f"frame {b} edge {ei} candidate {(s, d)}: impl {ls} reference {lo}", worst
                continue
            dv = max(lo - ls, ls - hi, 0.0)
            worst = max(worst, dv)
            if dv > 2e-4:
                return (f"frame {b} edge {ei} candidate {pk[s]} -> {pk[d]}: impl score {ls}, "
                        f"reference [{lo}, {hi}]"), worst
    return None, worst


def alt1_term(src_ids, dst_ids, tab):
    t = core.clist(tab, lambda r: core.clist(r, lambda x: f"(Some {cqq(F(x))})"))
    return (f"CAlt1 {core.clist(src_ids, str)}%nat {core.clist(dst_ids, str)}%nat {t} {cqq(MIN_LINE)}")


# ------------------------------------------------------------------ known findings: corpus witnesses
def witness_fails(sc, res, selector):
    """Does the defect still show on this witness?  (reason or None)"""
    if selector == "c03_coincident_parts":
        # the pose is below the resolution of the grid; what the property's domain still demands
        # is that inference returns: the 0/0 line score makes scipy's assignment raise
        return f"forward raised {res['raises']}: {res.get('msg', '')}" if "raises" in res else None
    return oracle(sc, res)


def replay_corpus(run, im):
    d = core.CORPUS / "C03"
    n = 0
    for f in sorted(d.glob("*.json")) if d.exists() else []:
        w = json.load(open(f))
        sc = scene_from_json(w["scene"])
        sel = w.get("selector")
        res = run_scene(im, sc)
        n += 1
        if sel:
            got = scene_selectors(sc)
            bad = witness_fails(sc, res, sel)
            if bad:
                # a witness that still fails must be covered by the selector it is filed under
                # (if it is not, the violation below is reported without a selector, i.e. as a VIOLATION)
                run.obligation(f"corpus witness {f.name} falls under its selector {sel}", got == sel, f"harness selector says {got}")
                run.violation("failing-input", {"case": scene_json(sc), "oracle": bad, "witness": f.name},
                              selector=sel if got == sel else None)
            else:
                run.obligation(f"corpus witness {f.name}: the defect is gone, and the property holds on it",
                               not oracle(sc, res) or got is not None, str(oracle(sc, res)))
                run.notes.append(f"known-finding witness {f.name} ({sel}) no longer fails")
        else:                               # a minimised earlier failure: must pass now
            bad = oracle(sc, res)
            if bad:
                run.violation("failing-input", {"case": scene_json(sc), "oracle": bad, "witness": f.name})
    return n


# ------------------------------------------------------------------ the check
def check(run: core.Run) -> int:
    run.build_and_prove(PROP_FILES)
    im = Impl()
    detect_paf_variants(run)
    rng = run.rng
    thorough = run.tier == "thorough"

    # ---- 1. unit correspondence: make_line_subs / get_paf_lines / score_paf_lines -------------
    n_unit = 6000 if thorough else 1000
    ucases = [gen_unit_case(rng) for _ in range(n_unit)]
    layouts = [(rng.randint(1, 4), rng.randint(1, 5), rng.randint(1, 3)) for _ in range(12 if thorough else 4)]
    terms = [unit_term(c) for c in ucases] + [f"CLayout {core.cz(h)} {core.cz(w)} {core.cz(E)}" for h, w, E in layouts]
    model = core.coq_eval_sharded(PREAMBLE, terms, "run", "rres", shard=150, jobs=12)
    u_bad = 0
    for c, m in zip(ucases, model):
        run.case({k: str(v) for k, v in c.items()}, nontrivial=c["n"] >= 2 and c["src"] != c["dst"])
        try:
            diff = unit_compare(c, m, unit_impl(im, c))
        except Exception as e:
            diff = f"implementation raised {type(e).__name__}: {e}"
        if diff:
            u_bad += 1
            if u_bad <= 3:
                run.log(f"unit disagreement: {diff}")
            run.proof_broken.append("correspondence line subscripts / scores: " + diff + " ; case " +
                                    json.dumps({k: str(v) for k, v in c.items() if k != "paf"})[:400])
    run.obligation("correspondence: line_subs / score_parts / score_geb (Coq) == make_line_subs / get_paf_lines / "
                   "score_paf_lines (/repo) on every unit case", u_bad == 0, f"{u_bad} disagreements")
    # ---- 1b. LineGeo.v: the sampler as POSITIONS (line_pts, lerp_t) == make_line_subs * stride, exact ------
    n_pts = 600 if thorough else 150
    pcases = ucases[:n_pts]
    pfn = ("fun c : Q * Q * Q * Q * Z * Z * Z * Z * nat => let '(sx, sy, dx, dy, k, ps, h, w, n) := c in "
           "RL [RL (map (fun p => RL [RQ (fst p); RQ (snd p)]) (line_pts sx sy dx dy k ps h w n)); "
           "RL (map (fun i => RQ (lerp_t n i)) (seq 0 n))]")
    pterms = [f"({cqq(c['src'][0])}, {cqq(c['src'][1])}, {cqq(c['dst'][0])}, {cqq(c['dst'][1])}, {core.cz(c['k'])}, "
              f"{core.cz(c['ps'])}, {core.cz(c['h'])}, {core.cz(c['w'])}, {c['n']}%nat)" for c in pcases]
    pmodel = core.coq_eval_sharded(LPREAMBLE, pterms, pfn, "rres", shard=150, jobs=4)
    p_bad, p_pts = [], 0
    for c, m in zip(pcases, pmodel):
        try:
            d = line_pts_compare(c, m, unit_impl(im, c)[0])
        except Exception as e:
            d = f"implementation raised {type(e).__name__}: {e}"
        if isinstance(d, int):
            p_pts += d
        else:
            p_bad.append(d + " ; case " + json.dumps({k: str(v) for k, v in c.items() if k != "paf"})[:300])
    run.obligation("correspondence: line_pts / lerp_t (Coq, LineGeo.v: the cells of the geometric premise) == "
                   "(col, row) * stride of make_line_subs (/repo) and i/(n-1), exact, on generated edges",
                   not p_bad and p_pts >= n_pts, f"{len(p_bad)} disagreements, {p_pts} points; " + "; ".join(p_bad[:2]))
    if p_bad:
        run.proof_broken.append("line_pts correspondence: " + p_bad[0][:600])
    l_bad = [layout_check(im, rng, m, h, w, E) for (h, w, E), m in zip(layouts, model[n_unit:])]
    l_bad = [x for x in l_bad if x]
    run.obligation("correspondence: writer_offset == reader_offset == torch reshape/permute layout", not l_bad,
                   "; ".join(l_bad[:2]))
    w_bad, w_cells, w_geoms = [], 0, []
    for _ in range(60 if thorough else 12):
        bad, n, geom = writer_check(im, rng)
        bad2, n2, geom2 = writer_check(im, rng, force=same_shape_other_stride(rng, *geom))   # same grid SHAPE, other stride
        w_cells += n + n2
        w_geoms += [geom, geom2]
        w_bad += [x for x in (bad, bad2) if x]
    run.obligation("generate_pafs writes edge k's x/y component of cell (i,j)=(y/s,x/s) into channel 2k/2k+1 "
                   "(independent reference); every call is followed by one whose grid has the same shape but another "
                   "stride", not w_bad, "; ".join(w_bad[:1]))
    if w_bad:
        run.proof_broken.append("writer layout: " + w_bad[0][:600])
    # the sampling grid of ONE call: make_grid_vectors == Coq grid_vector (size and stride of that call)
    gcases = w_geoms[:16] + [(128, 128, 2), (256, 256, 4), (64, 48, 1), (256, 192, 4)]
    gmodel = core.coq_eval_sharded(SPREAMBLE, [f"CGrid {core.cz(v)} {core.cz(st_)}" for H_, W_, st_ in gcases for v in (W_, H_)],
                                   "srun", "rres", shard=200, jobs=2)
    g_bad = grid_check(im, gcases, [(gmodel[2 * i], gmodel[2 * i + 1]) for i in range(len(gcases))])
    run.obligation("correspondence: grid_vector (Coq) == make_grid_vectors (/repo): sample j of a call's grid is j * stride "
                   "of THAT call", not g_bad, str(g_bad))
    if g_bad:
        run.proof_broken.append("sampling grid: " + g_bad[:500])
    # ONE PAFScorer object per stream, calls on tensors of different sizes: Coq score_calls (max length per call)
    streams = [gen_scorer_stream(rng) for _ in range(60 if thorough else 14)]
    s_impl, s_bad = [], []
    for st in streams:
        try:
            s_impl.append(scorer_stream_impl(im, st))
        except Exception as e:
            s_impl.append(None)
            s_bad.append(f"PAFScorer.score_paf_lines raised {type(e).__name__}: {e}")
    ok_streams = [(st, si_) for st, si_ in zip(streams, s_impl) if si_ is not None]
    s_model = core.coq_eval_sharded(SPREAMBLE, [scorer_stream_term(st, si_) for st, si_ in ok_streams], "srun", "rres",
                                    shard=3, jobs=4)
    n_stream_cands = n_stream_pen = n_stream_calls = 0
    for (st, si_), m in zip(ok_streams, s_model):
        run.case({"scorer_stream": {k: str(v) for k, v in st.items() if k != "calls"},
                  "calls": [(c["h"], c["w"], len(c["samples"])) for c in st["calls"]],
                  "first_peaks": str(st["calls"][0]["samples"][0]["peaks"])}, nontrivial=True)
        n_stream_calls += len(st["calls"])
        try:
            diff, nc, npen = scorer_stream_compare(st, si_, m)
        except Exception as e:
            diff, nc, npen = f"stream cannot be compared ({type(e).__name__}: {e})", 0, 0
        n_stream_cands += nc
        n_stream_pen += npen
        if diff:
            s_bad.append(diff)
    for d in s_bad[:3]:
        run.log("scorer stream disagreement: " + d)
    if s_bad:
        run.proof_broken.append("correspondence long-lived PAFScorer (score_calls): " + s_bad[0][:700])
    run.obligation("correspondence: score_calls (Coq: max_edge_length from the CURRENT call's tensor, nothing kept between "
                   "calls) == one long-lived PAFScorer.score_paf_lines (/repo) over a sequence of tensors of different "
                   "sizes, incl. small-then-large", not s_bad and n_stream_pen >= 20,
                   f"{len(s_bad)} disagreements; {n_stream_cands} candidates, {n_stream_pen} penalised")

    # ---- 2. known findings / corpus ----------------------------------------------------------
    n_corpus = replay_corpus(run, im)

    # ---- 3. end-to-end scenes ----------------------------------------------------------------
    # jobs = (scene, from_config, pooled).  Random scenes get a model of their own; the scenes of the
    # SESSIONS go through long-lived models (ModelPool), in blocks (same grid shape, other stride)
    # inserted at random places among the others: one process, interleaved sizes / strides / options.
    n_rand = 8000 if thorough else 400
    jobs = [(gen_scene(rng, thorough, crowded=(i % 8 == 5)), i % 2 == 1, False) for i in range(n_rand)]
    blocks = [b for _ in range(80 if thorough else 14) for b in gen_session(rng)]
    rng.shuffle(blocks)
    for pos, blk in sorted(zip((rng.randrange(n_rand + 1) for _ in blocks), blocks), key=lambda t: -t[0]):
        jobs[pos:pos] = [(sc, fc, True) for sc, fc in blk]
    scenes = [j[0] for j in jobs]
    n_sc = len(scenes)
    pool = ModelPool(im)
    results, premises, seps, geos = [], [], [], []
    sterms, sindex, aterms, aindex = [], [], [], []
    for si, (sc, fcfg, pooled) in enumerate(jobs):
        g = input_geometry(sc)
        res = run_scene(im, sc, from_config=fcfg, pool=pool if pooled else None)
        results.append(res)
        seps.append(ideal_separation(sc)[0])
        if "raises" in res:
            geos.append(None)
        else:
            try:
                geos.append(geo_premise(sc, res) if si < GEO_MAX_SCENES else None)
            except Exception as e:
                geos.append({"structural": False, "holds": False, "edges": 0, "edges_hold": 0, "edges_structural": 0,
                             "via_margin": 0, "via_saturated": 0,
                             "bound_bad": [f"geometric premise cannot be evaluated ({type(e).__name__}: {e})"]})
        if "raises" in res:
            premises.append((False, {"raised": res["raises"], "tables": []}))
        else:
            try:
                premises.append(measure_premise(sc, res))
            except Exception as e:          # output so malformed that it cannot be analysed
                premises.append((False, {"analysis_error": f"{type(e).__name__}: {e}", "tables": []}))
            for t in premises[-1][1]["tables"]:
                aterms.append(alt1_term(t[0], t[1], t[2]))
                aindex.append((si, t[3]))
        for b, animals in enumerate(sc["frames"]):
            sterms.append(scene_term(sc, g, animals))
            sindex.append((si, b))
    # ---- 3b. OUT-OF-DOMAIN correspondence: trees with one mis-oriented edge (review finding 1).  The model
    # (forward_instances = groups over the edge types toposort_edges returns) must predict forward also
    # there; the property's oracle is NOT applied (not a rooted tree), but the statement of
    # c03_reassembly_processed_partial (groups over the PROCESSED visible edges) is.  Own RNG (derived from
    # the seed), so that the in-domain stream above does not depend on this stream.
    import random as _random
    mrng = _random.Random((run.seed * 1000003) ^ 0xC03F1)
    mis = []
    for _i in range(200 if thorough else 24):
        nn = mrng.randint(3, 6)
        fl, rooted_listing = misoriented_tree(mrng, nn)
        msc = gen_scene(mrng, thorough, skeleton=(nn, fl), pose_edges=rooted_listing)
        mres = run_scene(im, msc, from_config=bool(_i % 2))
        mis.append((msc, mres))
        for b, animals in enumerate(msc["frames"]):
            sterms.append(scene_term(msc, input_geometry(msc), animals))
            sindex.append((n_sc + len(mis) - 1, b))
    # malformed (ragged / empty) score tables: table_alt1 must reject them (the guard table_wf)
    ragged = [([0, 1], [0, 1], []), ([0, 1], [0, 1], [[0.5]]), ([0, 1], [0, 1], [[0.5, 0.0]]),
              ([0], [0, 1], [[0.5]]), ([0, 1], [0], [[0.5], [0.0], [0.0]])]
    if len(aterms) > 4000:                       # alt1 in Coq on a deterministic subsample
        keep = sorted(rng.sample(range(len(aterms)), 4000))
        aterms, aindex = [aterms[i] for i in keep], [aindex[i] for i in keep]
    rterms = [alt1_term(s_, d_, t_) for s_, d_, t_ in ragged]
    smodel = core.coq_eval_sharded(PREAMBLE, sterms + aterms + rterms, "run", "rres", shard=200, jobs=12)
    amodel = smodel[len(sterms):len(sterms) + len(aterms)]
    rmodel = smodel[len(sterms) + len(aterms):]
    run.obligation("table_alt1 (Coq) rejects ragged / empty score tables (guard table_wf; c03_table_alt1_sound needs it)",
                   not any(bool(m) for m in rmodel), f"answers {rmodel}")
    all_scenes = scenes + [m_[0] for m_ in mis]
    all_results = results + [m_[1] for m_ in mis]
    scene_diff = {}
    scene_model = {}
    for (si, b), m in zip(sindex, smodel):
        try:
            d = compare_scene(all_scenes[si], input_geometry(all_scenes[si]), b, m, all_results[si])
        except Exception as e:
            d = f"frame {b}: output cannot be compared ({type(e).__name__}: {e})"
        scene_model.setdefault(si, []).append(m)
        if d and si not in scene_diff:
            scene_diff[si] = d
    # the edge types the model processes == the REAL toposort_edges, on every skeleton of the run
    topo_bad = []
    for si, sc_ in enumerate(all_scenes):
        procs = scene_model[si][0][5]
        try:
            real = sorted(real_toposort(im, sc_["edges"]))
        except Exception as e:
            real = f"{type(e).__name__}: {e}"
        if real != [k for k, p_ in enumerate(procs) if p_]:
            topo_bad.append(f"{sc_['edges']}: toposort_edges {real}, model processed {procs}")
    run.obligation("correspondence: the edge types the model assembles (processed, through C17's toposort) == the REAL "
                   "toposort_edges on every skeleton of the run (rooted and mis-oriented)", not topo_bad, "; ".join(topo_bad[:2]))
    if topo_bad:
        run.proof_broken.append("processed edge types: " + topo_bad[0][:500])
    # mis-oriented trees: model == forward; groups over the processed edges hold; the property's groups do not
    mis_bad, mis_lost, mis_dom = [], 0, 0
    for mi, (msc, mres) in enumerate(mis):
        si = n_sc + mi
        run.case(scene_json(msc), nontrivial=True)
        try:
            dom = ideal_separation(msc)[0] or ("raises" not in mres and measure_premise(msc, mres)[0])
        except Exception:
            dom = False
        if not dom:
            continue
        mis_dom += 1
        procs = scene_model[si][0][5]
        pe = [tuple(e) for e, p_ in zip(msc["edges"], procs) if p_]
        d = scene_diff.get(si)
        try:
            d = d or oracle(dict(msc, edges=pe), mres)
        except Exception as e:
            d = f"output cannot be interpreted ({type(e).__name__}: {e})"
        if d:
            mis_bad.append(f"{d[:400]} ; scene {json.dumps(scene_json(msc))[:600]}")
        elif any(m[3] != m[6] for m in scene_model[si]) and oracle(msc, mres):
            mis_lost += 1                      # the lost edge mattered: forward's groups are not the property's groups
    for d in mis_bad[:2]:
        run.log("mis-oriented tree disagreement: " + d)
    if mis_bad:
        run.proof_broken.append("correspondence on mis-oriented trees (forward_instances over processed edges): " + mis_bad[0])
    run.obligation("correspondence OUTSIDE the domain: on trees with a mis-oriented edge forward_instances (groups over the "
                   "edge types toposort_edges returns) == BottomUpInferenceModel.forward, and the statement of "
                   "c03_reassembly_processed_partial holds on forward's output; the difference to the property's groups "
                   "is observed (not a finding: 'tree skeleton' = rooted tree, C17's arborescence)",
                   not mis_bad and mis_lost >= (20 if thorough else 3),
                   f"{len(mis_bad)} disagreements; {mis_dom}/{len(mis)} well-separated, {mis_lost} with a lost part")
    # F24 selector and the max edge length of every scene's OWN PAF tensor, decided in Coq
    lterms, lwant = [], []
    corpus_scenes = [scene_from_json(json.load(open(f))["scene"]) for f in sorted((core.CORPUS / "C03").glob("*.json"))]
    for sc in corpus_scenes + [j[0] for j in jobs if j[2]] + scenes[:60]:
        g = input_geometry(sc)
        l2s = [edge_len2(g, a, u, v) for fr in sc["frames"] for a in fr for u, v in sc["edges"] if visible(a[u]) and visible(a[v])]
        if not l2s:
            continue
        lterms.append(f"CLong {cqq(MAX_EDGE_RATIO)} {core.cz(g['hp'])} {core.cz(g['wp'])} {core.cz(2 * len(sc['edges']))} "
                      f"{core.cz(sc['ps'])} {cqq(max(l2s))} {cqq(MIN_LINE)}")
        lwant.append((max_edge_length(sc, g), any(sel_long_edge(sc, g, a) for fr in sc["frames"] for a in fr)))
    lmodel = core.coq_eval_sharded(SPREAMBLE, lterms, "srun", "rres", shard=200, jobs=2)
    l_bad = [(w, m) for w, m in zip(lwant, lmodel) if (jfrac(m[0]), bool(m[1])) != w]
    run.obligation("selector c03_long_edge and max_edge_length of each scene's own PAF tensor: Coq (sel_long_edge, "
                   "max_edge_length) == harness", not l_bad and any(w[1] for w in lwant) and not all(w[1] for w in lwant),
                   f"{len(l_bad)} of {len(lterms)} differ: {l_bad[:1]}")
    a_bad = [(si, a1, m) for (si, a1), m in zip(aindex, amodel) if bool(m) != bool(a1)]
    run.obligation("premise (alternative 1) decided in Coq (table_alt1) == harness on the real score tables",
                   not a_bad, f"{len(a_bad)} tables differ")
    dist = {}
    n_prem = n_alt1 = n_rej = n_out = score_bad = e2e_bad = reg_bad = 0
    worst_score = 0.0
    tmin, cmax = None, None
    lemma_contra = 0
    for si, (sc, res, (prem, det), sep) in enumerate(zip(scenes, results, premises, seps)):
        g = input_geometry(sc)
        for key in (f"cs{sc['cs']}", f"ps{sc['ps']}", f"scale{sc['scale']}", f"eff{sc['eff']}", f"batch{len(sc['frames'])}",
                    f"refine_{sc['refinement']}", f"nodes{sc['n_nodes']}", f"reg_{sc['registration']}",
                    f"sigma_paf{sc['sigma_paf']}", f"sigma_cms{sc['sigma_cms']}",
                    f"animals_per_frame{max(len(f_) for f_ in sc['frames'])}",
                    "peaks_gt16" if max(sum(visible(p) for a in f_ for p in a) for f_ in sc["frames"]) > 16 else "peaks_le16"):
            dist[key] = dist.get(key, 0) + 1
        n_vis = sum(visible(p) for fr in sc["frames"] for a in fr for p in a)
        run.case(scene_json(sc), nontrivial=n_vis >= 2)
        n_prem += prem
        n_alt1 += bool(det.get("alt1")) and prem
        n_rej += (not sep)
        lemma_contra += bool(det.get("alt1_implies_alt2_failed"))
        if det.get("true_min") is not None:
            tmin = det["true_min"] if tmin is None else min(tmin, det["true_min"])
        if det.get("cross_max") is not None:
            cmax = det["cross_max"] if cmax is None else max(cmax, det["cross_max"])
        try:
            bad = oracle(sc, res)
        except Exception as e:
            bad = f"output cannot be interpreted ({type(e).__name__}: {e})"
        sdiff = None
        if "raises" not in res:
            try:
                sdiff, w = compare_scores(sc, g, res)
                worst_score = max(worst_score, w)
            except Exception as e:
                sdiff = f"scores cannot be compared ({type(e).__name__}: {e})"
        in_domain = sep or prem          # ideal separation holds, or the theorem's premise holds on the real scores
        if not in_domain:
            scene_diff.pop(si, None)     # not well-separated: the expected instances are not what the theorem promises
        rdiff = compare_registration(sc, g, res) if "raises" not in res else None
        if rdiff:
            reg_bad += 1
        diffs = [d for d in (scene_diff.get(si), sdiff, rdiff) if d]
        if scene_diff.get(si):
            e2e_bad += 1
        if sdiff:
            score_bad += 1
        if bad and in_domain:
            payload = {"case": scene_json(sc), "oracle": bad, "correspondence": diffs,
                       "premise_measured": {k: v for k, v in det.items() if k != "tables"}, "ideal_separation": sep}
            payload.update(job_history(jobs, si))
            try:                         # control: the same scene on a model built for it, right now
                ctl = oracle(sc, run_scene(im, sc, from_config=jobs[si][1]))
                payload["control_fresh_model_now"] = ctl or "passes (the failure depends on what ran before)"
            except Exception as e:
                payload["control_fresh_model_now"] = f"{type(e).__name__}: {e}"
            run.violation("failing-input", payload)
        elif bad:
            n_out += 1                   # not well-separated: neither the reference nor the real scores separate
        if diffs and not (bad and in_domain):
            run.proof_broken.append(f"correspondence end-to-end: {diffs[0][:500]} ; scene {json.dumps(scene_json(sc))[:700]}")
    run.obligation("correspondence: expected_instances / decode (Coq) == BottomUpInferenceModel.forward (/repo) on every scene",
                   e2e_bad == 0, f"{e2e_bad} scenes differ")
    run.obligation("correspondence: every real line score == independent float64 reference of ideal PAFs sampled as "
                   "make_line_subs does", score_bad == 0, f"{score_bad} scenes differ")
    run.obligation("preprocessing: the pixels the network receives are the original image resized by exactly "
                   "eff_scale * input_scale (measured by the stub from the ramp), registration offset as modelled",
                   reg_bad == 0, f"{reg_bad} scenes differ")
    run.obligation("lemma check: alternative 1 implies alternative 2 (unique optimum) on every real table",
                   lemma_contra == 0, f"{lemma_contra} scenes")
    # ---- state across calls: a sample of the scenes once more at the end (same input => same output, whatever
    # ran in between), and the outputs handed out earlier must not have changed since
    pooled_idx = [i for i, j in enumerate(jobs) if j[2]]
    again = sorted(rng.sample(pooled_idx, min(len(pooled_idx), max(8, len(pooled_idx) // 6)))
                   + rng.sample([i for i, j in enumerate(jobs) if not j[2]], 8))
    held_now = len(pool.held)
    rep_bad = []
    for si in again:
        sc, fcfg, pooled = jobs[si]
        r2 = run_scene(im, sc, from_config=fcfg, pool=pool if pooled else None)
        d = same_result(results[si], r2)
        if d:
            rep_bad.append(f"scene {si} ({'long-lived' if pooled else 'own'} model): '{d}' differs between the first run and "
                           f"the run at the end")
            bad2 = oracle(sc, r2)
            if bad2 and (seps[si] or premises[si][0]):
                payload = {"case": scene_json(sc), "oracle": bad2, "repeat_at_end": True}
                payload.update(job_history(jobs, si, upto=len(jobs)))
                run.violation("failing-input", payload)
    held_bad = sum(1 for out, B, snap in pool.held[:held_now]
                   if any(not same_values(snap[k], v, 0.0) for k, v in extract(out, B).items()))
    if rep_bad:
        run.proof_broken.append("state across calls: " + rep_bad[0])
    run.obligation("state across calls: scenes repeated at the end of the run (through the same long-lived models) give "
                   "the same output as the first time", not rep_bad, "; ".join(rep_bad[:2]))
    run.obligation("state across calls: outputs returned earlier by the long-lived models are unchanged at the end",
                   held_bad == 0, f"{held_bad} of {held_now} outputs changed")
    sizes_per_model = {}
    for sc, fcfg, pooled in jobs:
        if pooled:
            sizes_per_model.setdefault(ModelPool.key(sc, fcfg), []).append(max(input_geometry(sc)["Hin"], input_geometry(sc)["Win"]))
    small_then_large = sum(any(b >= 3 * a for i, a in enumerate(v) for b in v[i + 1:]) for v in sizes_per_model.values())
    shape_pairs = sum(1 for a, b in zip(jobs, jobs[1:])
                      if (input_geometry(a[0])["hp"], input_geometry(a[0])["wp"]) == (input_geometry(b[0])["hp"], input_geometry(b[0])["wp"])
                      and a[0]["ps"] != b[0]["ps"])
    n_long = sum(1 for sc in scenes if sc.get("long_edges"))
    run.obligation("generator strength (state): long-lived models see a >= 3x larger image after a smaller one, consecutive "
                   "scenes share a PAF grid shape at different strides, scenes with a penalised long edge exist",
                   small_then_large >= 4 and shape_pairs >= 6 and n_long >= 10,
                   f"{small_then_large} models small-then-large, {shape_pairs} consecutive same-shape pairs, {n_long} long-edge scenes")
    # ---- geometric premise (c03_reassembly_from_geometry): derived bounds vs real scores, premise => measured premise
    geo_bad, geo_scene_holds, geo_contra, big_frames = [], 0, [], 0
    geo_edges = geo_edges_struct = geo_edges_hold = geo_margin = geo_sat = 0
    for si, (sc, res, (prem, det), gp) in enumerate(zip(scenes, results, premises, geos)):
        if "raises" not in res:
            big_frames += sum(len(pk) > 16 for pk in res["peaks"])
        if gp is None:
            continue
        geo_edges += gp["edges"]
        geo_edges_struct += gp["edges_structural"]
        geo_edges_hold += gp["edges_hold"]
        geo_margin += gp["via_margin"]
        geo_sat += gp["via_saturated"]
        for msg in gp["bound_bad"]:
            geo_bad.append(f"scene {si}: {msg}")
        if gp["holds"]:
            geo_scene_holds += 1
            if not prem:
                geo_contra.append(si)
    for msg in geo_bad[:3]:
        run.log("derived bound broken: " + msg)
    if geo_bad:
        run.proof_broken.append("ideal-PAF model (IdealPaf.v) vs generate_pafs/score_paf_lines: " + geo_bad[0][:600])
    run.obligation("ideal-PAF model tie: every REAL true / cross line score respects the bound derived in Coq "
                   "(c03_ideal_true_score_bound, c03_ideal_cross_score_bound) from the scene geometry",
                   not geo_bad, f"{len(geo_bad)} scores outside; {geo_bad[:1]}")
    run.obligation("c03_reassembly_from_geometry: whenever its geometric premise holds on a scene, score separation "
                   "(the measured premise of c03_reassembly_partial) holds on the real scores",
                   not geo_contra, f"scenes {geo_contra[:5]}")
    run.obligation("generator strength: the geometric premise of c03_reassembly_from_geometry holds on >= 25 % of the "
                   "edge tables (documented sub-class) and frames with > 16 detected peaks are generated on purpose",
                   geo_edges_hold >= 0.25 * max(1, geo_edges) and big_frames >= (40 if thorough else 8),
                   f"{geo_edges_hold}/{geo_edges} edge tables, {geo_scene_holds}/{n_sc} whole scenes, "
                   f"{big_frames} frames with > 16 peaks")
    frac = n_prem / max(1, n_sc)
    run.obligation("generator strength: the premise of c03_reassembly_partial (score separation, every visible keypoint "
                   "detected once) holds on the REAL scores in >= 95 % of the generated scenes", frac >= 0.95,
                   f"holds in {n_prem}/{n_sc}")
    run.coverage.update({
        "unit_cases": n_unit, "layout_cases": len(layouts), "writer_cells_checked": w_cells, "corpus_witnesses": n_corpus,
        "scenes": n_sc, "frames": len(sterms), "input_distribution": dist,
        "premise_holds_real_scores": n_prem, "premise_alt1_holds": n_alt1, "alt1_tables_checked_in_coq": len(aterms),
        "geometric_premise": {"edge_tables": geo_edges, "structural_part_holds": geo_edges_struct,
                              "premise_holds": geo_edges_hold, "via_margin": geo_margin, "via_saturated_only": geo_sat,
                              "whole_scenes": geo_scene_holds, "R2_rule": "w(R2) = 1e-3", "eps": GEO_EPS},
        "frames_with_more_than_16_peaks": big_frames,
        "misoriented_tree_scenes": {"generated": len(mis), "well_separated": mis_dom, "lost_part_observed": mis_lost,
                                    "ragged_tables_rejected": len(ragged)},
        "state_across_calls": {"long_lived_models": len(pool.models), "scenes_through_long_lived_models": len(pooled_idx),
                               "models_small_then_3x_larger": small_then_large, "consecutive_same_grid_shape_other_stride": shape_pairs,
                               "long_edge_scenes": n_long, "scenes_repeated_at_end": len(again), "outputs_held": held_now,
                               "scorer_streams": len(streams), "scorer_stream_calls": n_stream_calls,
                               "scorer_stream_candidates": n_stream_cands, "scorer_stream_penalised": n_stream_pen,
                               "grid_vector_cases": len(gcases)},
        "scenes_not_separated_by_reference": n_rej, "oracle_failures_outside_domain": n_out,
        "min_true_pair_score": tmin, "max_cross_pair_score": cmax, "worst_score_vs_reference": worst_score,
        "rule": "unit case = (PAF tensor, src, dst, edge, n_points, stride, max length, weight); scene = (skeleton, "
                "sizes, scales, strides, refinement, sigmas, animals of every frame); non-trivial = a real line / >= 2 "
                "visible keypoints; distinct by full content",
        "tolerance": {"coordinates_px": COORD_ATOL, "score": 3e-5, "score_vs_reference": 2e-4},
        "domain": f"general position: keypoints >= {TIE_GUARD} cell from a cell boundary, edge-adjacent visible parts >= "
                  f"{MIN_PART_CELLS} cells apart, outside the border band (F10), lattice spacing >= 3x extent; "
                  "well-separated = ideal score separation with margin 0.1 by an implementation-independent reference",
    })
    for sc in scenes[:3]:
        run.sample(scene_json(sc), limit=3)
    run.trusted += [
        "stub network (harness/c03_stub.py): fits the pixel->original affine map from the ramp image and returns the "
        "repo's own generate_multiconfmaps / generate_pafs (C01/C05) at the mapped keypoints",
        "scipy linear_sum_assignment, kornia dilation / crop_and_resize, torchvision resize: oracles (contracts are "
        "Section hypotheses of the reassembly theorem; exercised end to end)",
        "float32 linspace inside make_line_subs decides sample points exactly on a PAF-cell boundary: either neighbour "
        "is accepted there",
        "independent float64 reference of the ideal PAF line integrals (harness) defines 'well-separated' with margin 0.1",
    ]
    run.assumptions += [
        "'ideal maps for a frame' = the training targets of this repo: keypoints * eff_scale * input_scale "
        "(85 % of scenes); 15 % use content registration with the C04 resize term added to the bound",
        "C08 contract (grouping = connected components of accepted matches) and the assignment oracle contract are "
        "hypotheses of c03_reassembly_partial / c03_reassembly_from_geometry; score separation is measured per scene "
        "AND derived from the scene geometry (geo_premise) for the sub-class reported under coverage.geometric_premise",
    ]
    return run.finish(explanation=(
        "decode, channel addressing and the line-score comparison are proved for all inputs; exact reassembly is "
        "proved from score separation + the C08 grouping contract; separation is measured on every scene and, for the "
        "geometric sub-class (c03_reassembly_from_geometry), derived from the ideal-PAF geometry whose bounds are "
        "checked against every real score"))


def job_history(jobs, si, upto=None):
    """What a replay needs to reproduce job si in the state it ran in: the earlier jobs on the same
    long-lived model and the two jobs that ran immediately before it (module-level state)."""
    sc, fcfg, pooled = jobs[si]
    end = si if upto is None else upto
    idx = set(range(max(0, end - 2), end)) - {si}
    if pooled:
        k = ModelPool.key(sc, fcfg)
        idx |= {i for i in range(end) if i != si and jobs[i][2] and ModelPool.key(jobs[i][0], jobs[i][1]) == k}
        if upto is not None:
            idx.add(si)
    return {"from_config": fcfg, "pooled": pooled,
            "history": [{"scene": scene_json(jobs[i][0]), "from_config": jobs[i][1], "pooled": jobs[i][2]} for i in sorted(idx)]}


def replay(run: core.Run, path: str) -> int:
    im = Impl()
    detect_paf_variants()
    rep = json.load(open(path))
    sc = scene_from_json(rep["case"] if "case" in rep else rep["scene"])
    pool = ModelPool(im)
    for h in rep.get("history", []):             # rebuild the state: same long-lived models, same order
        run_scene(im, scene_from_json(h["scene"]), h.get("from_config", False), pool if h.get("pooled") else None)
    res = run_scene(im, sc, rep.get("from_config", False), pool if rep.get("pooled") else None)
    bad = oracle(sc, res)
    print(json.dumps({"oracle": bad, "selector": scene_selectors(sc), "history_replayed": len(rep.get("history", [])),
                      "instances": res.get("instances"), "raises": res.get("raises")}, default=str)[:3000])
    return 1 if bad else 0
