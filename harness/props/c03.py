"""C03 — bottom-up inference reassembles exactly the labelled animals from ideal maps.

Model: coq/theories/C03/BottomUp.v (decode arithmetic, make_line_subs channel
addressing against the generate_pafs writer layout, line score on exact rational
PAF samples with the norm kept symbolic, expected instances = visible-edge
components); theorems: coq/theories/C03/Props.v.

Tie (every run):
  * unit correspondence of the Coq model (vm_compute) with the real
    make_line_subs / get_paf_lines / score_paf_lines / compute_distance_penalty on
    small PAF tensors with dyadic entries, and of the writer layout with the real
    generate_pafs (flattened vs unflattened, cell <-> (x, y) position);
  * end-to-end runs of the REAL BottomUpInferenceModel.forward with a real
    PAFScorer and the ramp-image stub network (harness/c03_stub.py); the Coq
    model predicts the exact output (refinement none) / the rough cells
    (integral) and the expected set of instances;
  * the premise of the reassembly theorem (score separation) is MEASURED on the
    real score tables of every scene.
Oracle: the property statement evaluated on forward's output for every scene.
"""
from __future__ import annotations

import itertools
import json
import math
from fractions import Fraction as F

from .. import core
from .. import c03_stub as stub

PROP_FILES = [core.THEORIES / "C03" / "Props.v"]
PREAMBLE = ("From SV Require Import C03.BottomUp.\nFrom Coq Require Import List ZArith QArith.\n"
            "Import ListNotations.\nOpen Scope Q_scope.\n")

MIN_LINE = F(1, 4)          # PAFScorer defaults
N_POINTS = 10
PEAK_THR = 0.2
PATCH = 5
TIE_GUARD = F(1, 8)         # keypoints stay >= 1/8 cell away from a cell boundary (ties -> no strict local maximum)
MIN_PART_CELLS = 2          # adjacent visible parts >= 2 confidence-map cells apart ("general position")
COORD_ATOL = 2e-3           # float32 decode chain (peaks*stride/scale/eff), coordinates <= ~400


# ------------------------------------------------------------------ skeletons
def random_tree(rng, n):
    """A rooted labelled tree on nodes 0..n-1 (edges parent->child) in a random listing."""
    order = list(range(n))
    rng.shuffle(order)
    es = [(order[rng.randrange(i)], order[i]) for i in range(1, n)]
    rng.shuffle(es)
    return es


# ------------------------------------------------------------------ geometry of a scene
def input_geometry(sc):
    """Sizes of the network input and of the two grids, computed exactly as the
    preprocessing does (sizematcher -> resize -> pad to stride)."""
    H, W = sc["H"], sc["W"]
    eff = F(sc["eff"])
    mh, mw = sc["max_h"], sc["max_w"]
    h1, w1 = (mh, mw) if mh is not None else (H, W)
    scale = F(sc["scale"])
    h2, w2 = (int(h1 * scale), int(w1 * scale)) if scale != 1 else (h1, w1)
    ms = sc["max_stride"]
    h3, w3 = -(-h2 // ms) * ms, -(-w2 // ms) * ms
    cs, ps = sc["cs"], sc["ps"]
    # where the stub puts a keypoint p (original px) in network-input px:  p * f + off.
    # "target" registration (training-target convention, instances * eff_scale * scale): off = 0;
    # "content" registration (half-pixel-centre resizing, one step by eff then one by scale):
    #   x -> (x*eff + (eff-1)/2)*scale + (scale-1)/2
    off = ((eff - 1) * scale + (scale - 1)) / 2 if sc.get("registration") == "content" else F(0)
    return {"Hin": h3, "Win": w3, "hc": -(-h3 // cs), "wc": -(-w3 // cs), "hp": -(-h3 // ps), "wp": -(-w3 // ps),
            "f": eff * scale, "off": off, "valid_h": F(H) * eff * scale, "valid_w": F(W) * eff * scale}


def to_input(g, p):
    """Position of keypoint p (original px) in the network input, exact."""
    return (p[0] * g["f"] + g["off"], p[1] * g["f"] + g["off"])


def rhe(q: F) -> int:
    """round half to even (torch.round) on an exact rational."""
    fl = math.floor(q)
    r = q - fl
    if r < F(1, 2):
        return fl
    if r > F(1, 2):
        return fl + 1
    return fl if fl % 2 == 0 else fl + 1


def nearest_cell(pp: F, cs: int, n: int) -> int:
    return min(max(rhe(pp / cs), 0), n - 1)


def is_tie(pp: F, cs: int, guard=F(0)) -> bool:
    q = pp / cs
    return abs((q - math.floor(q)) - F(1, 2)) <= guard


def components(n_nodes, edges, vis):
    """Union-find: groups of visible nodes connected through visible edges."""
    par = list(range(n_nodes))

    def find(x):
        while par[x] != x:
            par[x] = par[par[x]]
            x = par[x]
        return x
    for u, v in edges:
        if vis[u] and vis[v]:
            par[find(u)] = find(v)
    groups = {}
    for j in range(n_nodes):
        if vis[j]:
            groups.setdefault(find(j), []).append(j)
    return sorted(groups.values())


def visible(p):
    return p is not None


# --- selectors (defined here and as sel_* in BottomUp.v) -------------------
def sel_band(sc, g, p):
    """F10: the keypoint is in the last half-cell band at the right/bottom edge of
    the confidence-map grid (further than half a cell from every grid sample); with
    integral refinement also: the refinement patch of its cell sticks out of the
    grid (kornia pads the crop with zeros, which biases the offset)."""
    cs = sc["cs"]
    px, py = to_input(g, p)
    if px > (g["wc"] - 1) * cs + F(cs, 2) or py > (g["hc"] - 1) * cs + F(cs, 2) or px < -F(cs, 2) or py < -F(cs, 2):
        return True
    if sc["refinement"] == "integral":
        r = PATCH // 2
        cx, cy = nearest_cell(px, cs, g["wc"]), nearest_cell(py, cs, g["hc"])
        if cx < r or cy < r or cx > g["wc"] - 1 - r or cy > g["hc"] - 1 - r:
            return True
    return False


# Which variant of edge_maps.py the code under test implements (C05's findings F1 / F23, which
# have proposed repairs): decided in check() by running C05's corpus witnesses on the real code.
PAF_FIXED = {"len": False, "box": False}


def detect_paf_variants(run=None):
    from . import c05
    mods = c05.load_mods()
    PAF_FIXED["len"] = c05.detect_fixed_len(mods)
    PAF_FIXED["box"] = c05.detect_fixed_box(mods)
    if run is not None:
        run.notes.append(f"edge_maps.py variant detected on C05's witnesses: F1 repaired={PAF_FIXED['len']}, "
                         f"F23 repaired={PAF_FIXED['box']}")


def sel_paf_dropped(sc, g, animal):
    """F10 (writer side): generate_pafs keeps an animal only if some node lies strictly
    inside (0, xv[-1]) x (0, yv[-1]) where xv[-1], yv[-1] are the LAST PAF GRID SAMPLES;
    an animal wholly in the right/bottom band beyond them gets no PAF at all.
    (Repaired filter, C05/F23: closed pixel rectangle [0, W-1] x [0, H-1].)"""
    ps = sc["ps"]
    xmax, ymax = (g["wp"] - 1) * ps, (g["hp"] - 1) * ps
    for p in animal:
        if visible(p):
            px, py = to_input(g, p)
            if PAF_FIXED["box"]:
                if 0 <= px <= g["Win"] - 1 and 0 <= py <= g["Hin"] - 1:
                    return False
            elif 0 < px < xmax and 0 < py < ymax:
                return False
    return True


def sel_coincident(sc, g, animal):
    """F3: two visible parts joined by a skeleton edge fall into the same
    confidence-map cell and no refinement separates them."""
    if sc["refinement"] is not None:
        return False
    cs = sc["cs"]
    cell = lambda p: (nearest_cell(to_input(g, p)[0], cs, g["wc"]), nearest_cell(to_input(g, p)[1], cs, g["hc"]))
    for u, v in sc["edges"]:
        if visible(animal[u]) and visible(animal[v]) and cell(animal[u]) == cell(animal[v]):
            return True
    return False


def general_position(sc, g, animal, guard=TIE_GUARD):
    """No keypoint on (or within `guard` of) a cell boundary; parts joined by an
    edge >= MIN_PART_CELLS cells apart; all keypoints inside the image."""
    cs = sc["cs"]
    for p in animal:
        if not visible(p):
            continue
        px, py = to_input(g, p)
        if is_tie(px, cs, guard) or is_tie(py, cs, guard):
            return False
        if not (0 < p[0] < sc["W"] - 1 and 0 < p[1] < sc["H"] - 1):
            return False
    for u, v in sc["edges"]:
        if visible(animal[u]) and visible(animal[v]):
            dx = (animal[u][0] - animal[v][0]) * g["f"]
            dy = (animal[u][1] - animal[v][1]) * g["f"]
            if dx * dx + dy * dy < (MIN_PART_CELLS * cs) ** 2:
                return False
    return True


# ------------------------------------------------------------------ scene generator
def snap(x: float, den=8) -> F:
    return F(round(x * den), den)


def gen_config(rng):
    cs, ps = rng.choice([1, 2, 4]), rng.choice([1, 2, 4])
    scale = rng.choice([F(1, 2), F(1)])
    H, W = 8 * rng.randint(6, 20), 8 * rng.randint(6, 20)
    eff, mh, mw = F(1), None, None
    if rng.random() < 0.4:                       # size matching with an exactly representable ratio
        eff = rng.choice([F(1, 2), F(3, 4), F(1), F(1), F(3, 2), F(2)])
        th, tw = H * eff, W * eff
        pad = 8 * rng.randint(0, 3)
        if rng.random() < 0.5:
            mh, mw = int(th) + pad, int(tw)
        else:
            mh, mw = int(th), int(tw) + pad
        if (mh, mw) == (H, W):
            mh, mw, eff = None, None, F(1)
    sc = {"H": H, "W": W, "max_h": mh, "max_w": mw, "eff": eff, "scale": scale, "cs": cs, "ps": ps,
          "max_stride": rng.choice([max(cs, ps), 2 * max(cs, ps), 16]),
          "refinement": rng.choice([None, "integral"]),
          "sigma_cms": rng.choice([F(3, 2), F(5, 2), F(5)]),
          "sigma_paf": rng.choice([F(15), F(50)]),
          "registration": "content" if rng.random() < 0.15 else "target",
          "n_points": N_POINTS}
    return sc


def gen_pose(rng, edges, n_nodes, cs, lmin_cells, lmax_cells):
    """Node positions (floats, network-input px) of one animal, root at the origin."""
    pos = {}
    children = {}
    dsts = {v for _, v in edges}
    root = next(u for u, _ in edges if u not in dsts)
    for u, v in edges:
        children.setdefault(u, []).append(v)
    pos[root] = (0.0, 0.0)
    stack = [root]
    while stack:
        u = stack.pop()
        for v in children.get(u, []):
            ell = rng.uniform(lmin_cells, lmax_cells) * cs
            th = rng.uniform(0, 2 * math.pi)
            pos[v] = (pos[u][0] + ell * math.cos(th), pos[u][1] + ell * math.sin(th))
            stack.append(v)
    return [pos[j] for j in range(n_nodes)]


def gen_scene(rng, thorough=False, crowded=False):
    """One in-domain scene (all animals in general position, on a jittered lattice
    with spacing >= 3x the largest animal extent, outside the border band).
    crowded=True: 5-6 nodes, 4-5 animals, few missing parts, so that a frame has MORE THAN 16
    detected peaks (torch.argsort / unique orderings beyond the small-input regime)."""
    for _attempt in range(400 if crowded else 200):
        sc = gen_config(rng)
        if crowded:
            sc["cs"] = rng.choice([1, 2])
            sc["max_stride"] = max(sc["max_stride"], sc["cs"], sc["ps"])
            if min(sc["H"], sc["W"]) * float(sc["eff"]) * float(sc["scale"]) < 72:
                continue
        g = input_geometry(sc)
        cs = sc["cs"]
        border = (3 if sc["refinement"] == "integral" else 1) * cs      # keep clear of the grid border
        vw, vh = float(g["valid_w"]), float(g["valid_h"])
        if min(vw, vh) < 12 * cs or max(g["Hin"], g["Win"]) > 336:
            continue
        n_nodes = rng.randint(5, 6) if crowded else rng.randint(2, 6)
        edges = random_tree(rng, n_nodes)
        sc["n_nodes"], sc["edges"] = n_nodes, edges
        batch = rng.choice([1, 1, 2, 3])
        n_want = rng.randint(4, 5) if crowded else rng.randint(1, 5)
        frames = []
        ok = True
        for _b in range(batch):
            animals = place_animals(rng, sc, g, n_want, border, vw, vh, crowded=crowded)
            if not animals:
                ok = False
                break
            if crowded and sum(visible(p) for a in animals for p in a) <= 16:
                ok = False
                break
            frames.append(animals)
        if not ok:
            continue
        sc["frames"] = frames
        return sc
    raise RuntimeError("scene generator: no in-domain scene found in 200 attempts")


def place_animals(rng, sc, g, n_want, border, vw, vh, crowded=False):
    cs, f = sc["cs"], g["f"]
    n_nodes, edges = sc["n_nodes"], sc["edges"]
    for _try in range(30):
        lmax = 3.0 if crowded else rng.choice([3.0, 4.0, 6.0])
        poses = [gen_pose(rng, edges, n_nodes, cs, 2.3, lmax) for _ in range(n_want)]
        ext = 0.0
        boxes = []
        for P in poses:
            xs, ys = [p[0] for p in P], [p[1] for p in P]
            boxes.append((min(xs), min(ys), max(xs), max(ys)))
            ext = max(ext, max(xs) - min(xs), max(ys) - min(ys))
        jit = 0.25 * ext
        cell = 3 * ext + 2 * jit
        x0, y0 = border + ext / 2 + jit, border + ext / 2 + jit
        # usable region also stays out of the last half-cell band
        x1 = min(vw - 1, (g["wc"] - 1) * cs) - border - ext / 2 - jit
        y1 = min(vh - 1, (g["hc"] - 1) * cs) - border - ext / 2 - jit
        if x1 < x0 or y1 < y0:
            if crowded:
                return None
            n_want = max(1, n_want - 1)
            continue
        nx, ny = int((x1 - x0) // cell) + 1, int((y1 - y0) // cell) + 1
        sites = [(i, j) for i in range(nx) for j in range(ny)]
        rng.shuffle(sites)
        k = min(n_want, len(sites))
        # spread the lattice over the usable region
        sx = (x1 - x0) / (nx - 1) if nx > 1 else 0.0
        sy = (y1 - y0) / (ny - 1) if ny > 1 else 0.0
        animals = []
        for (i, j), P, bx in zip(sites[:k], poses, boxes):
            cx = x0 + i * max(sx, 0.0) + rng.uniform(-jit, jit)
            cy = y0 + j * max(sy, 0.0) + rng.uniform(-jit, jit)
            ox, oy = cx - (bx[0] + bx[2]) / 2, cy - (bx[1] + bx[3]) / 2
            animal = None
            for _t in range(20):                       # sub-pixel nudges until general position holds exactly
                dx, dy = rng.uniform(-0.5, 0.5) * cs * (_t > 0), rng.uniform(-0.5, 0.5) * cs * (_t > 0)
                cand = [(snap((p[0] + ox + dx) / float(f)), snap((p[1] + oy + dy) / float(f))) for p in P]
                p_miss = rng.choice([0.0, 0.1]) if crowded else rng.choice([0.0, 0.15, 0.3, 0.5])
                cand = [None if rng.random() < p_miss else p for p in cand]
                vis_pts = [p for p in cand if p is not None]
                if not vis_pts:
                    continue
                if general_position(sc, g, cand) and not any(sel_band(sc, g, p) for p in vis_pts) \
                        and not sel_coincident(sc, g, cand) and not sel_paf_dropped(sc, g, cand):
                    animal = cand
                    break
            if animal is None:
                break
            animals.append(animal)
        if len(animals) == k and k >= 1 and (not crowded or k >= 3):
            return animals
    return None


# ------------------------------------------------------------------ running the implementation
class Impl:
    def __init__(self):
        core.impl_env_setup()
        import warnings
        warnings.filterwarnings("ignore")
        import torch
        from sleap_nn.data import confidence_maps, edge_maps, resizing
        from sleap_nn.inference import paf_grouping
        from sleap_nn.inference.bottomup import BottomUpInferenceModel
        self.torch, self.cm, self.em, self.rz, self.pg = torch, confidence_maps, edge_maps, resizing, paf_grouping
        self.BottomUp = BottomUpInferenceModel


def truth_tensor(torch, animals):
    nan = float("nan")
    return torch.tensor([[[nan, nan] if p is None else [float(p[0]), float(p[1])] for p in a] for a in animals],
                        dtype=torch.float32)


def run_scene(im: Impl, sc, from_config=False):
    """Real preprocessing + real BottomUpInferenceModel.forward + real PAFScorer,
    stub network.  Returns a dict of plain lists (or {"raises": kind})."""
    torch = im.torch
    imgs, effs = [], []
    for _ in sc["frames"]:
        img = stub.ramp_image(torch, sc["H"], sc["W"])
        img, eff = stub.preprocess(torch, im.rz, img, sc["max_h"], sc["max_w"], float(sc["scale"]), sc["max_stride"])
        imgs.append(img)
        effs.append(eff)
    rec = []
    net = stub.make_stub(torch, im.cm, im.em, truths=[truth_tensor(torch, a) for a in sc["frames"]],
                         n_nodes=sc["n_nodes"], edge_inds=sc["edges"], cms_stride=sc["cs"], paf_stride=sc["ps"],
                         sigma_cms=float(sc["sigma_cms"]), sigma_paf=float(sc["sigma_paf"]),
                         registration=sc["registration"], record=rec)
    names = [f"n{i}" for i in range(sc["n_nodes"])]
    edges_named = [(names[u], names[v]) for u, v in sc["edges"]]
    if from_config:
        from omegaconf import OmegaConf
        cfg = OmegaConf.create({"confmaps": {"part_names": names},
                                "pafs": {"edges": [list(e) for e in edges_named], "output_stride": sc["ps"]}})
        scorer = im.pg.PAFScorer.from_config(cfg, n_points=sc["n_points"])
    else:
        scorer = im.pg.PAFScorer(part_names=names, edges=edges_named, pafs_stride=sc["ps"], n_points=sc["n_points"])
    model = im.BottomUp(torch_model=net, paf_scorer=scorer, cms_output_stride=sc["cs"],
                        pafs_output_stride=sc["ps"], peak_threshold=PEAK_THR, refinement=sc["refinement"],
                        integral_patch_size=PATCH, return_paf_graph=True, input_scale=float(sc["scale"]))
    inputs = {"image": torch.cat(imgs, 0).unsqueeze(1), "eff_scale": torch.tensor(effs, dtype=torch.float32)}
    try:
        with torch.no_grad():
            out = model(inputs)[0]
    except Exception as e:       # compared by kind
        return {"raises": type(e).__name__, "msg": str(e)[:200], "effs": [float(e_) for e_ in effs]}
    B = len(sc["frames"])
    res = {"effs": [float(e) for e in effs], "fits": [{k: r[k] for k in ("ax", "bx", "ay", "by", "H", "W")} for r in rec],
           "instances": [out["pred_instance_peaks"][b].tolist() for b in range(B)],
           "peak_values": [out["pred_peak_values"][b].tolist() for b in range(B)],
           "instance_scores": [out["instance_scores"][b].tolist() for b in range(B)],
           "peaks": [out["peaks"][b].tolist() for b in range(B)],
           "peak_channel_inds": [out["peak_channel_inds"][b].tolist() for b in range(B)],
           "edge_inds": [out["edge_inds"][b].tolist() for b in range(B)],
           "edge_peak_inds": [out["edge_peak_inds"][b].tolist() for b in range(B)],
           "line_scores": [out["line_scores"][b].tolist() for b in range(B)]}
    return res


# ------------------------------------------------------------------ the property, executable
def isnan(v):
    return v != v


def oracle_frame(sc, g, animals, pred, extra_tol=0.0):
    """The property statement on one frame.  `pred`: list of instances, each a list
    of [x, y] (NaN = absent).  Returns None or a reason string."""
    n_nodes, edges = sc["n_nodes"], sc["edges"]
    f = float(g["f"])
    half = sc["cs"] / (2.0 * f) + COORD_ATOL + extra_tol          # half a stride cell in original coordinates
    expected = []
    for ai, a in enumerate(animals):
        vis = [visible(p) for p in a]
        for grp in components(n_nodes, edges, vis):
            if len(grp) >= 2:
                expected.append((ai, grp))
    used = set()
    for ii, inst in enumerate(pred):
        present = [j for j in range(n_nodes) if not (isnan(inst[j][0]) or isnan(inst[j][1]))]
        half_nan = [j for j in range(n_nodes) if isnan(inst[j][0]) != isnan(inst[j][1])]
        if half_nan:
            return f"instance {ii}: node {half_nan[0]} has exactly one NaN coordinate"
        match = None
        for ei, (ai, grp) in enumerate(expected):
            if grp == present and all(abs(inst[j][0] - float(animals[ai][j][0])) <= half and
                                      abs(inst[j][1] - float(animals[ai][j][1])) <= half for j in grp):
                if ei not in used:
                    match = ei
                    break
        if match is None:
            return (f"predicted instance {ii} (nodes {present}) is not a labelled group of >= 2 visible keypoints "
                    f"connected through visible edges within half a cell ({half:.4g} px): {inst}")
        used.add(match)
    if len(used) != len(expected):
        miss = [expected[e] for e in range(len(expected)) if e not in used]
        return f"{len(miss)} labelled group(s) without a predicted instance, e.g. animal {miss[0][0]} nodes {miss[0][1]}"
    return None


def oracle(sc, res):
    g = input_geometry(sc)
    if "raises" in res:
        return f"forward raised {res['raises']}: {res.get('msg', '')}"
    extra = 0.0
    if sc["registration"] == "content":
        # the stub placed the bumps where the image content is: the resize registration term
        # of C04 (|off| network-input px = |off|/f original px) is added to the bound
        extra = abs(float(g["off"] / g["f"]))
    for b, animals in enumerate(sc["frames"]):
        bad = oracle_frame(sc, g, animals, res["instances"][b], extra)
        if bad:
            return f"frame {b}: {bad}"
    return None


# ------------------------------------------------------------------ premise of the reassembly theorem, measured
def identify_peaks(sc, g, animals, peaks, chans):
    """Map every detected peak (network-input px) to the (animal, node) whose ideal
    position it is nearest to (within one cell + refinement slack), else None."""
    f = float(g["f"])
    ids = []
    for (x, y), c in zip(peaks, chans):
        best, bd = None, None
        for ai, a in enumerate(animals):
            p = a[c]
            if p is None:
                continue
            d = max(abs(x - float(p[0]) * f - float(g["off"])), abs(y - float(p[1]) * f - float(g["off"])))
            if bd is None or d < bd:
                best, bd = (ai, c), d
        ids.append(best if bd is not None and bd <= 1.5 * sc["cs"] + 1.0 else None)
    return ids


def best_assignments(score, n, m):
    """All maximum-total one-to-one assignments of size min(n, m) (brute force)."""
    best, arg = None, []
    if n <= m:
        gen = (list(zip(range(n), perm)) for perm in itertools.permutations(range(m), n))
    else:
        gen = (list(zip(perm, range(m))) for perm in itertools.permutations(range(n), m))
    for asg in gen:
        tot = sum(score[i][j] for i, j in asg)
        if best is None or tot > best + 1e-9:
            best, arg = tot, [asg]
        elif abs(tot - best) <= 1e-9:
            arg.append(asg)
    return best, arg


def measure_premise(sc, res):
    """Premise of c03_reassembly_partial on the REAL score tables of the scene:
    every visible keypoint detected exactly once; per edge type all candidate scores
    finite, true pairs >= min_line_scores, and EITHER (alt1) every cross-animal pair
    < min_line_scores and the true pairs saturate the smaller side, OR (alt2) every
    maximum-total assignment contains all true pairs and its other pairs are
    < min_line_scores.  Returns (holds, detail)."""
    g = input_geometry(sc)
    mls = float(MIN_LINE)
    detail = {"detected_once": True, "true_min": None, "cross_max": None, "alt1": True, "alt2": True, "finite": True,
              "tables": []}
    for b, animals in enumerate(sc["frames"]):
        peaks, chans = res["peaks"][b], res["peak_channel_inds"][b]
        ids = identify_peaks(sc, g, animals, peaks, chans)
        want = sorted((ai, j) for ai, a in enumerate(animals) for j, p in enumerate(a) if p is not None)
        if None in ids or sorted(ids) != want:
            detail["detected_once"] = False
            continue
        e_inds, ep, ls = res["edge_inds"][b], res["edge_peak_inds"][b], res["line_scores"][b]
        for k, (u, v) in enumerate(sc["edges"]):
            rows = [i for i, c in enumerate(e_inds) if c == k]
            srcs = sorted({ep[i][0] for i in rows})
            dsts = sorted({ep[i][1] for i in rows})
            if not rows:
                continue
            tab = [[None] * len(dsts) for _ in srcs]
            for i in rows:
                tab[srcs.index(ep[i][0])][dsts.index(ep[i][1])] = ls[i]
            if any(x is None or isnan(x) or math.isinf(x) for r in tab for x in r):
                detail["finite"] = False
                continue
            true_pairs = [(si, di) for si, s in enumerate(srcs) for di, d in enumerate(dsts)
                          if ids[s][0] == ids[d][0]]
            for si in range(len(srcs)):
                for di in range(len(dsts)):
                    x = tab[si][di]
                    if (si, di) in true_pairs:
                        detail["true_min"] = x if detail["true_min"] is None else min(detail["true_min"], x)
                    else:
                        detail["cross_max"] = x if detail["cross_max"] is None else max(detail["cross_max"], x)
            true_ok = all(tab[si][di] >= mls for si, di in true_pairs)
            cross_low = all(tab[si][di] < mls for si in range(len(srcs)) for di in range(len(dsts))
                            if (si, di) not in true_pairs)
            a1 = true_ok and cross_low and len(true_pairs) == min(len(srcs), len(dsts))
            _, opts = best_assignments(tab, len(srcs), len(dsts))
            a2 = true_ok and all(set(true_pairs) <= set(o) and
                                 all(tab[i][j] < mls for i, j in o if (i, j) not in true_pairs) for o in opts)
            detail["tables"].append(([ids[s_][0] for s_ in srcs], [ids[d_][0] for d_ in dsts], tab, a1))
            if a1 and not a2:
                detail["alt1_implies_alt2_failed"] = True        # would contradict lemma sep_saturated_unique_optimum
            detail["alt1"] = detail["alt1"] and a1
            detail["alt2"] = detail["alt2"] and a2
    holds = detail["detected_once"] and detail["finite"] and detail["alt2"]
    return holds, detail


# ------------------------------------------------------------------ independent reference for the ideal scores
def ideal_paf(sc, g, animals, k, x, y):
    """Ideal PAF vector of edge k at network-input position (x, y): the formula of
    edge_maps.py written out independently in float64 (w = exp(-(d2)^2 / (2 sigma^2)) with d2 the
    squared distance to the segment as the code projects it, summed over animals that
    pass the in-image filter)."""
    u, v = sc["edges"][k]
    sig = float(sc["sigma_paf"])
    vx = vy = 0.0
    for a in animals:
        if not (visible(a[u]) and visible(a[v])) or sel_paf_dropped(sc, g, a):
            continue
        sx, sy = (float(c) for c in to_input(g, a[u]))
        dx, dy = (float(c) for c in to_input(g, a[v]))
        ex, ey = dx - sx, dy - sy
        l2 = ex * ex + ey * ey
        if l2 == 0:
            continue
        t = ((x - sx) * ex + (y - sy) * ey) / (l2 if PAF_FIXED["len"] else max(l2, 1.0))
        t = min(max(t, 0.0), 1.0)
        d2 = (t * ex - (x - sx)) ** 2 + (t * ey - (y - sy)) ** 2
        w = math.exp(-(d2 * d2) / (2 * sig * sig))
        n = math.sqrt(l2)
        vx += w * ex / n
        vy += w * ey / n
    return vx, vy


def round_options(q: float):
    """Indices torch.round may return for the float value q/stride when the exact value sits
    on a .5 boundary (the float32 linspace of make_line_subs decides which): one or two."""
    fl = math.floor(q)
    r = q - fl
    if abs(r - 0.5) < 1e-6:
        return (fl, fl + 1)
    return (fl,) if r < 0.5 else (fl + 1,)


def ideal_line_score(sc, g, animals, k, src, dst):
    """score_paf_lines for the candidate src -> dst (network-input px), independent float64.
    Returns (lo, hi): an interval because a sample point exactly between two PAF cells may be
    rounded either way."""
    ps, n = sc["ps"], sc["n_points"]
    vx, vy = dst[0] - src[0], dst[1] - src[1]
    ln = math.hypot(vx, vy)
    if ln == 0:
        return (float("nan"), float("nan"))
    lo = hi = 0.0
    for i in range(n):
        t = i / (n - 1) if n > 1 else 0.0
        X, Y = src[0] + vx * t, src[1] + vy * t
        vals = []
        for c in round_options(X / ps):
            for r in round_options(Y / ps):
                col = min(max(c, 0), g["wp"] - 1)
                row = min(max(r, 0), g["hp"] - 1)
                px, py = ideal_paf(sc, g, animals, k, col * ps, row * ps)
                vals.append((px * vx + py * vy) / ln)
        lo += min(vals)
        hi += max(vals)
    max_len = 0.25 * max(g["hp"], g["wp"], 2 * len(sc["edges"])) * ps
    pen = min(0.0, max_len / ln - 1.0)
    return (lo / n + pen, hi / n + pen)


def ideal_peaks(sc, g, animals):
    """Where the peaks of the ideal confidence maps are reported (network-input px):
    the nearest grid cell without refinement; ~ the true position with integral refinement."""
    cs = sc["cs"]
    out = {}
    for ai, a in enumerate(animals):
        for j, p in enumerate(a):
            if visible(p):
                px, py = to_input(g, p)
                if sc["refinement"] is None:
                    out[(ai, j)] = (float(nearest_cell(px, cs, g["wc"]) * cs), float(nearest_cell(py, cs, g["hc"]) * cs))
                else:
                    out[(ai, j)] = (float(px), float(py))
    return out


def ideal_separation(sc, margin=0.1):
    """"Well-separated", made precise: computed WITHOUT the implementation, the ideal
    line-integral scores of every frame separate with a margin: true pairs >= mls + margin, and
    every one-to-one assignment (of size min(n,m)) whose total is within `margin` (+ rounding
    ambiguity) of the best contains all true pairs and pairs nothing else with a score
    >= mls - margin.  Returns (separated, per-frame {edge: (srcs, dsts, table of (lo, hi))})."""
    g = input_geometry(sc)
    mls = float(MIN_LINE)
    tables = []
    sep = True
    for animals in sc["frames"]:
        pk = ideal_peaks(sc, g, animals)
        ftab = {}
        for k, (u, v) in enumerate(sc["edges"]):
            srcs = [ai for ai, a in enumerate(animals) if visible(a[u])]
            dsts = [ai for ai, a in enumerate(animals) if visible(a[v])]
            if not srcs or not dsts:
                continue
            tab = [[ideal_line_score(sc, g, animals, k, pk[(s, u)], pk[(d, v)]) for d in dsts] for s in srcs]
            ftab[k] = (srcs, dsts, tab)
            true_pairs = {(si, di) for si, s in enumerate(srcs) for di, d in enumerate(dsts) if s == d}
            if any(isnan(x[0]) for r in tab for x in r):
                sep = False
                continue
            if any(tab[si][di][0] < mls + margin for si, di in true_pairs):
                sep = False
                continue
            n, m = len(srcs), len(dsts)
            if n <= m:
                gen = (list(zip(range(n), perm)) for perm in itertools.permutations(range(m), n))
            else:
                gen = (list(zip(perm, range(m))) for perm in itertools.permutations(range(n), m))
            asgs = [(sum(tab[i][j][0] for i, j in a), sum(tab[i][j][1] for i, j in a), a) for a in gen]
            best_lo = max(t for t, _, _ in asgs)
            for _tlo, thi, a in asgs:
                if thi >= best_lo - margin:
                    if not true_pairs <= set(a):
                        sep = False
                    elif any(tab[i][j][1] >= mls - margin for i, j in a if (i, j) not in true_pairs):
                        sep = False
        tables.append(ftab)
    return sep, tables


# ------------------------------------------------------------------ geometric premise (c03_reassembly_from_geometry)
def seg_d2(seg, x, y):
    """Squared distance to a segment exactly as distance_to_edge / IdealPaf.seg_d2 compute it."""
    sx, sy, dx, dy = seg
    ex, ey = dx - sx, dy - sy
    l2 = ex * ex + ey * ey
    t = ((x - sx) * ex + (y - sy) * ey) / l2
    t = min(max(t, 0.0), 1.0)
    return (t * ex - (x - sx)) ** 2 + (t * ey - (y - sy)) ** 2


GEO_MAX_SCENES = 2000   # thorough tier: the (pure Python) geometric premise is evaluated on the first 2000 scenes
GEO_EPS = 2e-4          # the tolerance of the score tie (obligation "every real line score == reference")


def geo_premise(sc, res):
    """The premise `geo_premise` of c03_reassembly_from_geometry, evaluated per frame and edge type on
    the REAL peaks: parameters r2 (largest squared distance of a true candidate's sampled cells to
    its own segment), R2 (fixed: w(R2) = 1e-3), kappa (smallest cosine between a true candidate and
    its segment), m (largest number of sampled cells of a cross candidate nearer than R2 to any
    segment), P (largest distance penalty of a cross candidate), A (#animals with the edge).
    Also checks the bounds the theorems DERIVE (c03_ideal_true_score_bound / _cross_score_bound)
    against every REAL line score.  Returns a dict."""
    g = input_geometry(sc)
    ps, n, sig, mls = sc["ps"], sc["n_points"], float(sc["sigma_paf"]), float(MIN_LINE)
    R2 = sig * math.sqrt(2 * math.log(1000.0))
    wfar = math.exp(-(R2 * R2) / (2 * sig * sig))
    out = {"structural": True, "holds": True, "bound_bad": [], "edges": 0, "edges_hold": 0, "edges_structural": 0,
           "via_margin": 0, "via_saturated": 0}
    max_len = 0.25 * max(g["hp"], g["wp"], 2 * len(sc["edges"])) * ps
    for b, animals in enumerate(sc["frames"]):
        peaks, chans = res["peaks"][b], res["peak_channel_inds"][b]
        ids = identify_peaks(sc, g, animals, peaks, chans)
        want = sorted((ai, j) for ai, a in enumerate(animals) for j, p in enumerate(a) if p is not None)
        if None in ids or sorted(ids) != want or any(sel_paf_dropped(sc, g, a) for a in animals):
            out["structural"] = out["holds"] = False
            continue
        e_inds, ep, ls = res["edge_inds"][b], res["edge_peak_inds"][b], res["line_scores"][b]
        for k, (u, v) in enumerate(sc["edges"]):
            rows = [i for i, c in enumerate(e_inds) if c == k]
            if not rows:
                continue
            out["edges"] += 1
            segs = {}
            for ai, a in enumerate(animals):
                if visible(a[u]) and visible(a[v]):
                    s_, d_ = to_input(g, a[u]), to_input(g, a[v])
                    segs[ai] = (float(s_[0]), float(s_[1]), float(d_[0]), float(d_[1]))
            if any((sg[2] - sg[0]) ** 2 + (sg[3] - sg[1]) ** 2 == 0 for sg in segs.values()):
                out["structural"] = out["holds"] = False
                continue
            A = len(segs)
            r2, kappa, m, P, struct = 0.0, 1.0, 0, 0.0, True
            cand = []
            for i in rows:
                a, bb = ids[ep[i][0]][0], ids[ep[i][1]][0]
                src, dst = peaks[ep[i][0]], peaks[ep[i][1]]
                vx, vy = dst[0] - src[0], dst[1] - src[1]
                ln = math.hypot(vx, vy)
                if ln == 0 or ls[i] is None or isnan(ls[i]):
                    struct = False
                    continue
                pen = min(0.0, max_len / ln - 1.0)
                cells = []
                for q in range(n):
                    t = q / (n - 1) if n > 1 else 0.0
                    X, Y = src[0] + vx * t, src[1] + vy * t
                    cells.append([(min(max(c, 0), g["wp"] - 1) * ps, min(max(r, 0), g["hp"] - 1) * ps)
                                  for c in round_options(X / ps) for r in round_options(Y / ps)])
                if a == bb:
                    if a not in segs or pen != 0.0:
                        struct = False
                        continue
                    sg = segs[a]
                    sl = math.hypot(sg[2] - sg[0], sg[3] - sg[1])
                    kappa = min(kappa, ((sg[2] - sg[0]) * vx + (sg[3] - sg[1]) * vy) / (sl * ln))
                    for opts in cells:
                        for (x, y) in opts:
                            r2 = max(r2, seg_d2(sg, x, y))
                            if any(seg_d2(sg2, x, y) < R2 for c2, sg2 in segs.items() if c2 != a):
                                struct = False
                else:
                    P = max(P, -pen)
                    cnt = 0
                    for opts in cells:
                        near_max = max(sum(seg_d2(sg2, x, y) < R2 for sg2 in segs.values()) for (x, y) in opts)
                        if near_max >= 2:
                            struct = False
                        cnt += near_max >= 1
                    m = max(m, cnt)
                cand.append((a == bb, ls[i]))
            if kappa < 0:
                struct = False
            if not struct:
                out["structural"] = out["holds"] = False
                continue
            out["edges_structural"] += 1
            T = math.exp(-(r2 * r2) / (2 * sig * sig)) * kappa - A * wfar - GEO_EPS
            C = m / n + A * wfar + GEO_EPS
            for is_true, x in cand:
                if is_true and x < T - 1e-6:
                    out["bound_bad"].append(f"frame {b} edge {k}: true score {x:.5f} < derived lower bound {T:.5f} "
                                            f"(r2={r2:.3f}, kappa={kappa:.4f}, A={A})")
                if not is_true and not (-(C + P) - 1e-6 <= x <= C + 1e-6):
                    out["bound_bad"].append(f"frame {b} edge {k}: cross score {x:.5f} outside derived [{-(C + P):.5f}, {C:.5f}] "
                                            f"(m={m}, n={n}, A={A}, P={P:.4f})")
            n_src, n_dst = len({ep[i][0] for i in rows}), len({ep[i][1] for i in rows})
            n_true = sum(1 for i in rows if ids[ep[i][0]][0] == ids[ep[i][1]][0])
            via_margin = 3 * C + P < T and C < mls
            via_sat = n_true == min(n_src, n_dst) and C < T
            ok = mls <= T and (via_margin or via_sat)
            out["edges_hold"] += ok
            out["via_margin"] += bool(ok and via_margin)
            out["via_saturated"] += bool(ok and via_sat and not via_margin)
            if not ok:
                out["holds"] = False
    return out


# ------------------------------------------------------------------ Coq terms
def cqq(x):
    return core.cq(F(x))


def ckp(p):
    return "None" if p is None else f"(Some ({cqq(p[0])}, {cqq(p[1])}))"


def geom_term(sc, g):
    return (f"(Build_geom {cqq(g['f'])} {cqq(g['off'])} {cqq(sc['scale'])} {cqq(sc['eff'])} {core.cz(sc['cs'])} "
            f"{core.cz(g['wc'])} {core.cz(g['hc'])} {core.cbool(sc['refinement'] == 'integral')} {core.cz(PATCH // 2)})")


def scene_term(sc, g, animals):
    es = "[" + "; ".join(f"({u},{v})" for u, v in sc["edges"]) + "]%nat"
    an = core.clist(animals, lambda a: core.clist(a, ckp))
    return f"CScene {geom_term(sc, g)} {sc['n_nodes']}%nat {es} {an}"


def jfrac(j):
    return None if j is None else F(j[0], j[1])


# ------------------------------------------------------------------ unit correspondence: addressing and scores
def dy(rng, lo, hi, den=8):
    return F(rng.randrange(int(lo * den), int(hi * den) + 1), den)


def gen_unit_case(rng):
    ps = rng.choice([1, 2, 4, 8])
    h, w = rng.randint(1, 6), rng.randint(1, 7)
    E = rng.randint(1, 3)
    k = rng.randrange(E)
    n = rng.choice([1, 2, 3, 5, 10])
    kind = rng.random()
    ext_x, ext_y = (w - 1) * ps, (h - 1) * ps
    if kind < 0.25:       # on grid samples / integer positions: many exact .5 boundaries
        pt = lambda: (F(rng.randint(-ps, ext_x + ps)), F(rng.randint(-ps, ext_y + ps)))
    elif kind < 0.35:     # far outside: clipping; x and y very different
        pt = lambda: (dy(rng, -3 * ps, 3 * ext_x + 4 * ps), dy(rng, -3 * ps, ext_y + ps))
    else:
        pt = lambda: (dy(rng, -ps / 2, ext_x + ps / 2, 16), dy(rng, -ps / 2, ext_y + ps / 2, 16))
    src, dst = pt(), pt()
    if rng.random() < 0.04:
        dst = src                                   # zero-length line: 0/0
    paf = [[[F(rng.randint(-8, 8), 8) for _ in range(2 * E)] for _ in range(w)] for _ in range(h)]
    M = rng.choice([F(1, 2), F(2), F(5), F(40)])
    wt = rng.choice([F(1), F(1), F(1, 2), F(2)])
    taus = [F(-1, 2), F(0), F(1, 4), F(1, 2), F(9, 10)]
    return {"ps": ps, "h": h, "w": w, "E": E, "k": k, "n": n, "src": src, "dst": dst, "paf": paf, "M": M, "wt": wt,
            "taus": taus}


def unit_term(c):
    paf = core.clist(c["paf"], lambda r: core.clist(r, lambda cell: core.clist(cell, cqq)))
    return (f"CScore {paf} {cqq(c['src'][0])} {cqq(c['src'][1])} {cqq(c['dst'][0])} {cqq(c['dst'][1])} "
            f"{core.cz(c['k'])} {core.cz(c['ps'])} {c['n']}%nat {cqq(c['M'])} {cqq(c['wt'])} {core.clist(c['taus'], cqq)}")


def unit_impl(im: Impl, c):
    torch, pg = im.torch, im.pg
    peaks = torch.tensor([[float(c["src"][0]), float(c["src"][1])], [float(c["dst"][0]), float(c["dst"][1])]],
                         dtype=torch.float32)
    epi = torch.tensor([[0, 1]], dtype=torch.int64)
    ei = torch.tensor([c["k"]], dtype=torch.int32)
    paf = torch.tensor([[[float(x) for x in cell] for cell in row] for row in c["paf"]], dtype=torch.float32)
    subs = pg.make_line_subs(peaks, epi, ei, c["n"], c["ps"], (c["h"], c["w"]))
    lines = pg.get_paf_lines(paf, peaks, epi, ei, c["n"], c["ps"])
    score = pg.score_paf_lines(lines, peaks, epi, float(c["M"]), dist_penalty_weight=float(c["wt"]))
    return subs[0].tolist(), lines[0].tolist(), float(score[0])


def unit_compare(c, model, impl):
    """model: [subs, S, len2, [bools]]; impl: (subs (n,2,3), lines (n,2), score)."""
    msubs, S, len2, mb = model
    isubs, ilines, iscore = impl
    n, ps = c["n"], c["ps"]
    if len(msubs) != n or len(isubs) != n:
        return f"number of line points: model {len(msubs)} impl {len(isubs)} want {n}"
    any_tie = False
    for i in range(n):
        t = F(i, n - 1) if n > 1 else F(0)
        X = c["src"][0] + (c["dst"][0] - c["src"][0]) * t
        Y = c["src"][1] + (c["dst"][1] - c["src"][1]) * t
        (r0, c0, ch0), (r1, c1, ch1) = isubs[i]
        mr, mc, mcx, mcy = msubs[i]
        if (r0, c0) != (r1, c1):
            return f"point {i}: the two channel subscripts address different cells {isubs[i]}"
        if (ch0, ch1) != (mcx, mcy):
            return f"point {i}: channels impl {(ch0, ch1)} model {(mcx, mcy)}"
        for nm, q, got, mod, size in (("row", Y / ps, r0, mr, c["h"]), ("col", X / ps, c0, mc, c["w"])):
            tie = (q - math.floor(q)) == F(1, 2)
            any_tie = any_tie or tie
            if tie:          # float32 linspace decides; either neighbour (clipped) is the code's torch.round
                okset = {min(max(math.floor(q), 0), size - 1), min(max(math.floor(q) + 1, 0), size - 1)}
                if got not in okset:
                    return f"point {i}: {nm} impl {got} not in {sorted(okset)} (boundary value {q})"
            elif got != mod:
                return f"point {i}: {nm} impl {got} model {mod} (value/stride = {float(q)})"
        # the values read are the tensor entries at those subscripts
        want = [float(c["paf"][r0][c0][ch0]), float(c["paf"][r0][c0][ch1])]
        if any(abs(a - b) > 1e-7 for a, b in zip(want, ilines[i])):
            return f"point {i}: get_paf_lines returned {ilines[i]}, tensor holds {want} at {isubs[i]}"
    S, len2 = jfrac(S), jfrac(len2)
    if len2 == 0:
        if not isnan(iscore):
            return f"zero-length line: impl score {iscore}, model NaN"
        if any(b is not None for b in mb):
            return "zero-length line: model comparisons not None"
        return None
    if any_tie:
        return None              # S depends on which neighbour the float code took; subscripts were checked
    L = math.sqrt(float(len2))
    want = float(S) / (n * L) + float(c["wt"]) * min(0.0, float(c["M"]) / L - 1.0)
    if not abs(want - iscore) <= 3e-5 + 3e-5 * abs(want):
        return f"score impl {iscore} model {want} (S={S}, len2={len2})"
    for tau, b in zip(c["taus"], mb):
        if abs(want - float(tau)) > 1e-4 and b != (iscore >= float(tau)):
            return f"score >= {tau}: model {b}, impl score {iscore}"
    return None


def layout_check(im: Impl, rng, model_pairs, h, w, E):
    """(i) the model's writer/reader offsets agree and are what torch's reshape/permute do;
    (ii) the real generate_pafs puts edge k's x/y component of cell (i, j) [= position
    (j*s, i*s)] into flattened channel 2k / 2k+1 (compared with the independent reference)."""
    torch = im.torch
    T = torch.arange(E * 2 * h * w).reshape(E, 2, h, w)          # value = writer offset
    flat = T.reshape(2 * E, h, w)                                # generate_pafs(flatten_channels=True)
    rd = flat.unsqueeze(0).permute(0, 2, 3, 1)[0]                # forward: permute(0, 2, 3, 1); pafs[sample]
    it = iter(model_pairs)
    for k in range(E):
        for c in range(2):
            for i in range(h):
                for j in range(w):
                    wo, ro = next(it)
                    if wo != ro:
                        return f"model: writer offset {wo} != reader offset {ro} at {(k, c, i, j)}"
                    if int(T[k, c, i, j]) != wo:
                        return f"model writer offset {wo} != torch layout {int(T[k, c, i, j])} at {(k, c, i, j)}"
                    if int(rd[i, j, 2 * k + c]) != wo:
                        return f"torch reader [row,col,2k+c] reads {int(rd[i, j, 2 * k + c])}, writer wrote {wo}"
    return None


def writer_check(im: Impl, rng):
    """Real generate_pafs (flattened) against the independent reference ideal_paf."""
    torch = im.torch
    s = rng.choice([1, 2, 4])
    H, W = s * rng.randint(3, 6), s * rng.randint(3, 7)
    n_nodes = rng.randint(2, 4)
    edges = random_tree(rng, n_nodes)
    sc = {"edges": edges, "ps": s, "sigma_paf": rng.choice([F(3), F(15)]), "registration": "target"}
    g = {"f": F(1), "off": F(0), "hp": -(-H // s), "wp": -(-W // s), "Hin": H, "Win": W}
    animals = [[(dy(rng, 1, W - 2, 4), dy(rng, 1, H - 2, 4)) if rng.random() < 0.85 else None for _ in range(n_nodes)]
               for _ in range(rng.randint(1, 2))]
    pts = truth_tensor(torch, animals).unsqueeze(0)
    et = torch.tensor(edges, dtype=torch.int32).reshape(-1, 2)
    out = im.em.generate_pafs(pts.clone(), (H, W), float(sc["sigma_paf"]), s, et, True)
    if tuple(out.shape) != (2 * len(edges), g["hp"], g["wp"]):
        return f"generate_pafs shape {tuple(out.shape)}", 0
    o = out.tolist()
    n = 0
    for k in range(len(edges)):
        for i in range(g["hp"]):
            for j in range(g["wp"]):
                vx, vy = ideal_paf(sc, g, animals, k, j * s, i * s)
                n += 1
                if abs(o[2 * k][i][j] - vx) > 2e-5 or abs(o[2 * k + 1][i][j] - vy) > 2e-5:
                    return (f"generate_pafs channel {2 * k}/{2 * k + 1} cell {(i, j)} = "
                            f"{(o[2 * k][i][j], o[2 * k + 1][i][j])}, edge {k} at (x={j * s}, y={i * s}) is {(vx, vy)}; "
                            f"edges {edges} animals {[[None if p is None else (float(p[0]), float(p[1])) for p in a] for a in animals]}"), n
    return None, n


# ------------------------------------------------------------------ scenes <-> JSON
def scene_json(sc):
    j = {k: v for k, v in sc.items() if k != "frames"}
    for k in ("eff", "scale", "sigma_cms", "sigma_paf"):
        j[k] = str(sc[k])
    j["edges"] = [list(e) for e in sc["edges"]]
    j["frames"] = [[[None if p is None else [str(p[0]), str(p[1])] for p in a] for a in fr] for fr in sc["frames"]]
    return j


def scene_from_json(j):
    sc = dict(j)
    for k in ("eff", "scale", "sigma_cms", "sigma_paf"):
        sc[k] = F(j[k])
    sc["edges"] = [tuple(e) for e in j["edges"]]
    sc["frames"] = [[[None if p is None else (F(p[0]), F(p[1])) for p in a] for a in fr] for fr in j["frames"]]
    return sc


def scene_selectors(sc):
    """Which known-finding selectors a scene falls under (None = in the generator's domain)."""
    g = input_geometry(sc)
    if sel_coarse(sc):
        return "c03_coarse_paf"
    for fr in sc["frames"]:
        for a in fr:
            if sel_coincident(sc, g, a):
                return "c03_coincident_parts"
    for fr in sc["frames"]:
        for a in fr:
            if any(sel_band(sc, g, p) for p in a if visible(p)) or sel_paf_dropped(sc, g, a):
                return "c03_border_band"
    return None


def sel_coarse(sc):
    """F21: (cs + ps)^4 > 32 sigma_paf^2 (worst-case ideal edge weight exp(-4))."""
    return (sc["cs"] + sc["ps"]) ** 4 > 32 * sc["sigma_paf"] ** 2


def canon_instances(insts):
    key = lambda inst: [(-1.0, -1.0) if (p is None or isnan(p[0])) else (round(p[0], 1), round(p[1], 1)) for p in inst]
    return sorted(insts, key=key)


def compare_scene(sc, g, b, model, res):
    """Composed model (expected instances with exact coordinates / rough cells) against forward."""
    tie, band, coinc, minst = model
    animals = sc["frames"][b]
    py_tie = any(is_tie(c, sc["cs"]) for a in animals for p in a if visible(p) for c in to_input(g, p))
    py_band = any(sel_band(sc, g, p) for a in animals for p in a if visible(p))
    py_coinc = any(sel_coincident(sc, g, a) for a in animals)
    if (tie, band, coinc) != (py_tie, py_band, py_coinc):
        return f"selectors: Coq (tie, band, coincident) = {(tie, band, coinc)}, harness {(py_tie, py_band, py_coinc)}"
    if tie or band or coinc or "raises" in res:
        return None
    want = [[None if p is None else (float(jfrac(p[0])), float(jfrac(p[1]))) for p in inst] for inst in minst]
    got = [[None if isnan(p[0]) else (p[0], p[1]) for p in inst] for inst in res["instances"][b]]
    if len(want) != len(got):
        return f"frame {b}: model expects {len(want)} instances, forward returned {len(got)}"
    f = float(g["f"])
    tol = COORD_ATOL if sc["refinement"] is None else (PATCH - 1) / 2 * sc["cs"] / f + COORD_ATOL
    used = set()
    for wi in want:                       # order-free: the instance order is not part of the property
        hit = None
        for gi_idx, gi in enumerate(got):
            if gi_idx in used:
                continue
            if all((wp is None) == (gp is None) and
                   (wp is None or (abs(wp[0] - gp[0]) <= tol and abs(wp[1] - gp[1]) <= tol))
                   for wp, gp in zip(wi, gi)):
                hit = gi_idx
                break
        if hit is None:
            return f"frame {b}: model instance {wi} has no counterpart in forward's output {got} (tol {tol:.4g})"
        used.add(hit)
    return None


def compare_registration(sc, g, res):
    """The affine map the stub measured from the pixels it was given (original = a * pixel + b)
    against the factors the decode divides by: 1/a = eff_scale * input_scale on both axes, and
    -b/a = the exact half-pixel-centre registration offset of the resize chain."""
    f = float(g["f"])
    eff, scale = F(sc["eff"]), F(sc["scale"])
    off = float(((eff - 1) * scale + (scale - 1)) / 2)
    for b, ft in enumerate(res.get("fits", [])):
        for ax, bx, nm in ((ft["ax"], ft["bx"], "x"), (ft["ay"], ft["by"], "y")):
            if abs(1.0 / ax - f) > 1e-3 * f:
                return f"frame {b}: the image was resized by {1.0 / ax:.6g} on {nm}, forward divides by {f:.6g}"
            if abs(-bx / ax - off) > 5e-3:
                return f"frame {b}: content offset {-bx / ax:.5g} on {nm}, half-pixel model {off:.5g}"
        if abs(res["effs"][b] - float(eff)) > 1e-9:
            return f"frame {b}: apply_sizematcher returned eff_scale {res['effs'][b]}, scene says {float(eff)}"
    return None


def compare_scores(sc, g, res):
    """Every real candidate line score against the independent float64 reference evaluated at
    the real peak coordinates (interval when a sample point sits on a cell boundary)."""
    worst = 0.0
    for b, animals in enumerate(sc["frames"]):
        pk = res["peaks"][b]
        for ei, (s, d), ls in zip(res["edge_inds"][b], res["edge_peak_inds"][b], res["line_scores"][b]):
            lo, hi = ideal_line_score(sc, g, animals, ei, tuple(pk[s]), tuple(pk[d]))
            if isnan(lo) or isnan(ls):
                if isnan(lo) != isnan(ls):
                    return f"frame {b} edge {ei} candidate {(s, d)}: impl {ls} reference {lo}", worst
                continue
            dv = max(lo - ls, ls - hi, 0.0)
            worst = max(worst, dv)
            if dv > 2e-4:
                return (f"frame {b} edge {ei} candidate {pk[s]} -> {pk[d]}: impl score {ls}, "
                        f"reference [{lo}, {hi}]"), worst
    return None, worst


def alt1_term(src_ids, dst_ids, tab):
    t = core.clist(tab, lambda r: core.clist(r, lambda x: f"(Some {cqq(F(x))})"))
    return (f"CAlt1 {core.clist(src_ids, str)}%nat {core.clist(dst_ids, str)}%nat {t} {cqq(MIN_LINE)}")


# ------------------------------------------------------------------ known findings: corpus witnesses
def witness_fails(sc, res, selector):
    """Does the defect still show on this witness?  (reason or None)"""
    if selector == "c03_coincident_parts":
        # the pose is below the resolution of the grid; what the property's domain still demands
        # is that inference returns: the 0/0 line score makes scipy's assignment raise
        return f"forward raised {res['raises']}: {res.get('msg', '')}" if "raises" in res else None
    return oracle(sc, res)


def replay_corpus(run, im):
    d = core.CORPUS / "C03"
    n = 0
    for f in sorted(d.glob("*.json")) if d.exists() else []:
        w = json.load(open(f))
        sc = scene_from_json(w["scene"])
        sel = w.get("selector")
        res = run_scene(im, sc)
        n += 1
        if sel:
            got = scene_selectors(sc)
            bad = witness_fails(sc, res, sel)
            if bad:
                # a witness that still fails must be covered by the selector it is filed under
                # (if it is not, the violation below is reported without a selector, i.e. as a VIOLATION)
                run.obligation(f"corpus witness {f.name} falls under its selector {sel}", got == sel, f"harness selector says {got}")
                run.violation("failing-input", {"case": scene_json(sc), "oracle": bad, "witness": f.name},
                              selector=sel if got == sel else None)
            else:
                run.obligation(f"corpus witness {f.name}: the defect is gone, and the property holds on it",
                               not oracle(sc, res) or got is not None, str(oracle(sc, res)))
                run.notes.append(f"known-finding witness {f.name} ({sel}) no longer fails")
        else:                               # a minimised earlier failure: must pass now
            bad = oracle(sc, res)
            if bad:
                run.violation("failing-input", {"case": scene_json(sc), "oracle": bad, "witness": f.name})
    return n


# ------------------------------------------------------------------ the check
def check(run: core.Run) -> int:
    run.build_and_prove(PROP_FILES)
    im = Impl()
    detect_paf_variants(run)
    rng = run.rng
    thorough = run.tier == "thorough"

    # ---- 1. unit correspondence: make_line_subs / get_paf_lines / score_paf_lines -------------
    n_unit = 6000 if thorough else 1000
    ucases = [gen_unit_case(rng) for _ in range(n_unit)]
    layouts = [(rng.randint(1, 4), rng.randint(1, 5), rng.randint(1, 3)) for _ in range(12 if thorough else 4)]
    terms = [unit_term(c) for c in ucases] + [f"CLayout {core.cz(h)} {core.cz(w)} {core.cz(E)}" for h, w, E in layouts]
    model = core.coq_eval_sharded(PREAMBLE, terms, "run", "rres", shard=150, jobs=12)
    u_bad = 0
    for c, m in zip(ucases, model):
        run.case({k: str(v) for k, v in c.items()}, nontrivial=c["n"] >= 2 and c["src"] != c["dst"])
        try:
            diff = unit_compare(c, m, unit_impl(im, c))
        except Exception as e:
            diff = f"implementation raised {type(e).__name__}: {e}"
        if diff:
            u_bad += 1
            if u_bad <= 3:
                run.log(f"unit disagreement: {diff}")
            run.proof_broken.append("correspondence line subscripts / scores: " + diff + " ; case " +
                                    json.dumps({k: str(v) for k, v in c.items() if k != "paf"})[:400])
    run.obligation("correspondence: line_subs / score_parts / score_geb (Coq) == make_line_subs / get_paf_lines / "
                   "score_paf_lines (/repo) on every unit case", u_bad == 0, f"{u_bad} disagreements")
    l_bad = [layout_check(im, rng, m, h, w, E) for (h, w, E), m in zip(layouts, model[n_unit:])]
    l_bad = [x for x in l_bad if x]
    run.obligation("correspondence: writer_offset == reader_offset == torch reshape/permute layout", not l_bad,
                   "; ".join(l_bad[:2]))
    w_bad, w_cells = [], 0
    for _ in range(60 if thorough else 12):
        bad, n = writer_check(im, rng)
        w_cells += n
        if bad:
            w_bad.append(bad)
    run.obligation("generate_pafs writes edge k's x/y component of cell (i,j)=(y/s,x/s) into channel 2k/2k+1 "
                   "(independent reference)", not w_bad, "; ".join(w_bad[:1]))
    if w_bad:
        run.proof_broken.append("writer layout: " + w_bad[0][:600])

    # ---- 2. known findings / corpus ----------------------------------------------------------
    n_corpus = replay_corpus(run, im)

    # ---- 3. end-to-end scenes ----------------------------------------------------------------
    n_sc = 8000 if thorough else 400
    scenes = [gen_scene(rng, thorough, crowded=(i % 8 == 5)) for i in range(n_sc)]
    results, premises, seps, geos = [], [], [], []
    sterms, sindex, aterms, aindex = [], [], [], []
    for si, sc in enumerate(scenes):
        g = input_geometry(sc)
        res = run_scene(im, sc, from_config=(si % 2 == 1))
        results.append(res)
        seps.append(ideal_separation(sc)[0])
        if "raises" in res:
            geos.append(None)
        else:
            try:
                geos.append(geo_premise(sc, res) if si < GEO_MAX_SCENES else None)
            except Exception as e:
                geos.append({"structural": False, "holds": False, "edges": 0, "edges_hold": 0, "edges_structural": 0,
                             "via_margin": 0, "via_saturated": 0,
                             "bound_bad": [f"geometric premise cannot be evaluated ({type(e).__name__}: {e})"]})
        if "raises" in res:
            premises.append((False, {"raised": res["raises"], "tables": []}))
        else:
            try:
                premises.append(measure_premise(sc, res))
            except Exception as e:          # output so malformed that it cannot be analysed
                premises.append((False, {"analysis_error": f"{type(e).__name__}: {e}", "tables": []}))
            for t in premises[-1][1]["tables"]:
                aterms.append(alt1_term(t[0], t[1], t[2]))
                aindex.append((si, t[3]))
        for b, animals in enumerate(sc["frames"]):
            sterms.append(scene_term(sc, g, animals))
            sindex.append((si, b))
    if len(aterms) > 4000:                       # alt1 in Coq on a deterministic subsample
        keep = sorted(rng.sample(range(len(aterms)), 4000))
        aterms, aindex = [aterms[i] for i in keep], [aindex[i] for i in keep]
    smodel = core.coq_eval_sharded(PREAMBLE, sterms + aterms, "run", "rres", shard=200, jobs=12)
    amodel = smodel[len(sterms):]
    scene_diff = {}
    for (si, b), m in zip(sindex, smodel):
        try:
            d = compare_scene(scenes[si], input_geometry(scenes[si]), b, m, results[si])
        except Exception as e:
            d = f"frame {b}: output cannot be compared ({type(e).__name__}: {e})"
        if d and si not in scene_diff:
            scene_diff[si] = d
    a_bad = [(si, a1, m) for (si, a1), m in zip(aindex, amodel) if bool(m) != bool(a1)]
    run.obligation("premise (alternative 1) decided in Coq (table_alt1) == harness on the real score tables",
                   not a_bad, f"{len(a_bad)} tables differ")
    dist = {}
    n_prem = n_alt1 = n_rej = n_out = score_bad = e2e_bad = reg_bad = 0
    worst_score = 0.0
    tmin, cmax = None, None
    lemma_contra = 0
    for si, (sc, res, (prem, det), sep) in enumerate(zip(scenes, results, premises, seps)):
        g = input_geometry(sc)
        for key in (f"cs{sc['cs']}", f"ps{sc['ps']}", f"scale{sc['scale']}", f"eff{sc['eff']}", f"batch{len(sc['frames'])}",
                    f"refine_{sc['refinement']}", f"nodes{sc['n_nodes']}", f"reg_{sc['registration']}",
                    f"sigma_paf{sc['sigma_paf']}", f"sigma_cms{sc['sigma_cms']}",
                    f"animals_per_frame{max(len(f_) for f_ in sc['frames'])}",
                    "peaks_gt16" if max(sum(visible(p) for a in f_ for p in a) for f_ in sc["frames"]) > 16 else "peaks_le16"):
            dist[key] = dist.get(key, 0) + 1
        n_vis = sum(visible(p) for fr in sc["frames"] for a in fr for p in a)
        run.case(scene_json(sc), nontrivial=n_vis >= 2)
        n_prem += prem
        n_alt1 += bool(det.get("alt1")) and prem
        n_rej += (not sep)
        lemma_contra += bool(det.get("alt1_implies_alt2_failed"))
        if det.get("true_min") is not None:
            tmin = det["true_min"] if tmin is None else min(tmin, det["true_min"])
        if det.get("cross_max") is not None:
            cmax = det["cross_max"] if cmax is None else max(cmax, det["cross_max"])
        try:
            bad = oracle(sc, res)
        except Exception as e:
            bad = f"output cannot be interpreted ({type(e).__name__}: {e})"
        sdiff = None
        if "raises" not in res:
            try:
                sdiff, w = compare_scores(sc, g, res)
                worst_score = max(worst_score, w)
            except Exception as e:
                sdiff = f"scores cannot be compared ({type(e).__name__}: {e})"
        in_domain = sep or prem          # ideal separation holds, or the theorem's premise holds on the real scores
        if not in_domain:
            scene_diff.pop(si, None)     # not well-separated: the expected instances are not what the theorem promises
        rdiff = compare_registration(sc, g, res) if "raises" not in res else None
        if rdiff:
            reg_bad += 1
        diffs = [d for d in (scene_diff.get(si), sdiff, rdiff) if d]
        if scene_diff.get(si):
            e2e_bad += 1
        if sdiff:
            score_bad += 1
        if bad and in_domain:
            run.violation("failing-input", {"case": scene_json(sc), "oracle": bad, "correspondence": diffs,
                                            "premise_measured": {k: v for k, v in det.items() if k != "tables"},
                                            "ideal_separation": sep})
        elif bad:
            n_out += 1                   # not well-separated: neither the reference nor the real scores separate
        if diffs and not (bad and in_domain):
            run.proof_broken.append(f"correspondence end-to-end: {diffs[0][:500]} ; scene {json.dumps(scene_json(sc))[:700]}")
    run.obligation("correspondence: expected_instances / decode (Coq) == BottomUpInferenceModel.forward (/repo) on every scene",
                   e2e_bad == 0, f"{e2e_bad} scenes differ")
    run.obligation("correspondence: every real line score == independent float64 reference of ideal PAFs sampled as "
                   "make_line_subs does", score_bad == 0, f"{score_bad} scenes differ")
    run.obligation("preprocessing: the pixels the network receives are the original image resized by exactly "
                   "eff_scale * input_scale (measured by the stub from the ramp), registration offset as modelled",
                   reg_bad == 0, f"{reg_bad} scenes differ")
    run.obligation("lemma check: alternative 1 implies alternative 2 (unique optimum) on every real table",
                   lemma_contra == 0, f"{lemma_contra} scenes")
    # ---- geometric premise (c03_reassembly_from_geometry): derived bounds vs real scores, premise => measured premise
    geo_bad, geo_scene_holds, geo_contra, big_frames = [], 0, [], 0
    geo_edges = geo_edges_struct = geo_edges_hold = geo_margin = geo_sat = 0
    for si, (sc, res, (prem, det), gp) in enumerate(zip(scenes, results, premises, geos)):
        if "raises" not in res:
            big_frames += sum(len(pk) > 16 for pk in res["peaks"])
        if gp is None:
            continue
        geo_edges += gp["edges"]
        geo_edges_struct += gp["edges_structural"]
        geo_edges_hold += gp["edges_hold"]
        geo_margin += gp["via_margin"]
        geo_sat += gp["via_saturated"]
        for msg in gp["bound_bad"]:
            geo_bad.append(f"scene {si}: {msg}")
        if gp["holds"]:
            geo_scene_holds += 1
            if not prem:
                geo_contra.append(si)
    for msg in geo_bad[:3]:
        run.log("derived bound broken: " + msg)
    if geo_bad:
        run.proof_broken.append("ideal-PAF model (IdealPaf.v) vs generate_pafs/score_paf_lines: " + geo_bad[0][:600])
    run.obligation("ideal-PAF model tie: every REAL true / cross line score respects the bound derived in Coq "
                   "(c03_ideal_true_score_bound, c03_ideal_cross_score_bound) from the scene geometry",
                   not geo_bad, f"{len(geo_bad)} scores outside; {geo_bad[:1]}")
    run.obligation("c03_reassembly_from_geometry: whenever its geometric premise holds on a scene, score separation "
                   "(the measured premise of c03_reassembly_partial) holds on the real scores",
                   not geo_contra, f"scenes {geo_contra[:5]}")
    run.obligation("generator strength: the geometric premise of c03_reassembly_from_geometry holds on >= 25 % of the "
                   "edge tables (documented sub-class) and frames with > 16 detected peaks are generated on purpose",
                   geo_edges_hold >= 0.25 * max(1, geo_edges) and big_frames >= (40 if thorough else 8),
                   f"{geo_edges_hold}/{geo_edges} edge tables, {geo_scene_holds}/{n_sc} whole scenes, "
                   f"{big_frames} frames with > 16 peaks")
    frac = n_prem / max(1, n_sc)
    run.obligation("generator strength: the premise of c03_reassembly_partial (score separation, every visible keypoint "
                   "detected once) holds on the REAL scores in >= 95 % of the generated scenes", frac >= 0.95,
                   f"holds in {n_prem}/{n_sc}")
    run.coverage.update({
        "unit_cases": n_unit, "layout_cases": len(layouts), "writer_cells_checked": w_cells, "corpus_witnesses": n_corpus,
        "scenes": n_sc, "frames": len(sterms), "input_distribution": dist,
        "premise_holds_real_scores": n_prem, "premise_alt1_holds": n_alt1, "alt1_tables_checked_in_coq": len(aterms),
        "geometric_premise": {"edge_tables": geo_edges, "structural_part_holds": geo_edges_struct,
                              "premise_holds": geo_edges_hold, "via_margin": geo_margin, "via_saturated_only": geo_sat,
                              "whole_scenes": geo_scene_holds, "R2_rule": "w(R2) = 1e-3", "eps": GEO_EPS},
        "frames_with_more_than_16_peaks": big_frames,
        "scenes_not_separated_by_reference": n_rej, "oracle_failures_outside_domain": n_out,
        "min_true_pair_score": tmin, "max_cross_pair_score": cmax, "worst_score_vs_reference": worst_score,
        "rule": "unit case = (PAF tensor, src, dst, edge, n_points, stride, max length, weight); scene = (skeleton, "
                "sizes, scales, strides, refinement, sigmas, animals of every frame); non-trivial = a real line / >= 2 "
                "visible keypoints; distinct by full content",
        "tolerance": {"coordinates_px": COORD_ATOL, "score": 3e-5, "score_vs_reference": 2e-4},
        "domain": f"general position: keypoints >= {TIE_GUARD} cell from a cell boundary, edge-adjacent visible parts >= "
                  f"{MIN_PART_CELLS} cells apart, outside the border band (F10), lattice spacing >= 3x extent; "
                  "well-separated = ideal score separation with margin 0.1 by an implementation-independent reference",
    })
    for sc in scenes[:3]:
        run.sample(scene_json(sc), limit=3)
    run.trusted += [
        "stub network (harness/c03_stub.py): fits the pixel->original affine map from the ramp image and returns the "
        "repo's own generate_multiconfmaps / generate_pafs (C01/C05) at the mapped keypoints",
        "scipy linear_sum_assignment, kornia dilation / crop_and_resize, torchvision resize: oracles (contracts are "
        "Section hypotheses of the reassembly theorem; exercised end to end)",
        "float32 linspace inside make_line_subs decides sample points exactly on a PAF-cell boundary: either neighbour "
        "is accepted there",
        "independent float64 reference of the ideal PAF line integrals (harness) defines 'well-separated' with margin 0.1",
    ]
    run.assumptions += [
        "'ideal maps for a frame' = the training targets of this repo: keypoints * eff_scale * input_scale "
        "(85 % of scenes); 15 % use content registration with the C04 resize term added to the bound",
        "C08 contract (grouping = connected components of accepted matches) and the assignment oracle contract are "
        "hypotheses of c03_reassembly_partial / c03_reassembly_from_geometry; score separation is measured per scene "
        "AND derived from the scene geometry (geo_premise) for the sub-class reported under coverage.geometric_premise",
    ]
    return run.finish(explanation=(
        "decode, channel addressing and the line-score comparison are proved for all inputs; exact reassembly is "
        "proved from score separation + the C08 grouping contract; separation is measured on every scene and, for the "
        "geometric sub-class (c03_reassembly_from_geometry), derived from the ideal-PAF geometry whose bounds are "
        "checked against every real score"))


def replay(run: core.Run, path: str) -> int:
    im = Impl()
    detect_paf_variants()
    rep = json.load(open(path))
    sc = scene_from_json(rep["case"] if "case" in rep else rep["scene"])
    res = run_scene(im, sc)
    bad = oracle(sc, res)
    print(json.dumps({"oracle": bad, "selector": scene_selectors(sc),
                      "instances": res.get("instances"), "raises": res.get("raises")}, default=str)[:3000])
    return 1 if bad else 0
