"""C15 — keypoint similarity (OKS) and instance matching obey their mathematical contracts.

Model: coq/theories/C15/Oks.v (per-keypoint terms hold the exact rational
*argument* of exp; matching on rational score matrices); theorems:
coq/theories/C15/Props.v (OKS over Coq's reals; matching/greedy/IoU closed).
Tie: correspondence with compute_oks, compute_instance_area, match_instances
(duck-typed frames), match_frame_pairs (lists of duck-typed frame pairs, model
coq/theories/C15/Frames.v), greedy_matching, hungarian_matching (by contract, against
the brute-force optimum), compute_iou, compute_cosine_sim,
compute_euclidean_distance on generated inputs.
Oracle: the property statement evaluated on the implementation's own outputs
(range, identity, gt-missing ignored, pr-missing = complete miss, monotone in
the displacement, translation, permutation; one-to-one + conservation).

Findings handled here:
  F22  compute_oks raises IndexError whenever n_pr != 1   (selector oks_npr_ne_1)
  F51  match_instances raises ValueError for a frame with predictions but no gt
       instance                                            (selector match_zero_gt)
The harness detects which behaviour the code has (witness run) and passes it to
the model as fixed_F22 / fixed_F51; once fixed, the matrix form is checked at
full strength and any recurrence is a VIOLATION again.
"""
from __future__ import annotations

import json
import math
import random
import re
import warnings
from fractions import Fraction as F

from .. import core

PROP_FILES = [core.THEORIES / "C15" / "Props.v"]
PREAMBLE = ("From SV Require Import C15.Oks.\nFrom Coq Require Import List QArith.\n"
            "Import ListNotations.\nOpen Scope Q_scope.\n")
RENDER = "rresult"
PREAMBLE_F = ("From SV Require Import C15.Oks C15.Frames.\nFrom Coq Require Import List QArith.\n"
              "Import ListNotations.\nOpen Scope Q_scope.\n")
RENDER_F = "rfresult"
PREAMBLE_A = ("From SV Require Import C15.Oks C15.Contract.\nFrom Coq Require Import List QArith.\n"
              "Import ListNotations.\nOpen Scope Q_scope.\n")
ATOL, RTOL = 1e-12, 1e-9          # float64 paths
SEL_F22 = "oks_npr_ne_1"
SEL_F51 = "match_zero_gt"
DEFAULT_SD = F(1, 40)             # 0.025


# ---------------------------------------------------------------- json helpers
_FR = re.compile(r"^-?\d+(/\d+)?$")


def enc(x):
    if isinstance(x, F):
        return str(x)
    if isinstance(x, bool) or x is None or isinstance(x, (int, str)):
        return x
    if isinstance(x, (list, tuple)):
        return [enc(v) for v in x]
    if isinstance(x, dict):
        return {k: enc(v) for k, v in x.items()}
    return str(x)


def dec(x):
    if isinstance(x, str) and _FR.match(x):
        return F(x)
    if isinstance(x, list):
        return [dec(v) for v in x]
    if isinstance(x, dict):
        return {k: dec(v) for k, v in x.items()}
    return x


# ---------------------------------------------------------------- generation
def gen_point(rng, n_ed, R, p_nan):
    if rng.random() < p_nan:
        if rng.random() < 0.75:
            return [None] * n_ed
        p = [F(rng.randrange(0, 8 * R), 8) for _ in range(n_ed)]
        p[rng.randrange(n_ed)] = None                 # half-missing point (one NaN coordinate)
        return p
    return [F(rng.randrange(0, 8 * R), 8) for _ in range(n_ed)]


def gen_pose(rng, n_nodes, n_ed, R, p_nan, shape=None):
    shape = shape or rng.choice(["free"] * 6 + ["single", "collinear", "allmiss", "coincident"])
    ps = [gen_point(rng, n_ed, R, p_nan) for _ in range(n_nodes)]
    if shape == "single":                             # one visible point: bbox area 0
        keep = rng.randrange(n_nodes)
        ps = [p if i == keep else [None] * n_ed for i, p in enumerate(ps)]
        if None in ps[keep]:
            ps[keep] = [F(rng.randrange(0, 8 * R), 8) for _ in range(n_ed)]
    elif shape == "collinear":                        # zero extent along one axis
        k = rng.randrange(n_ed)
        v = F(rng.randrange(0, 8 * R), 8)
        ps = [[(v if (i == k and c is not None) else c) for i, c in enumerate(p)] for p in ps]
    elif shape == "allmiss":
        ps = [[None] * n_ed for _ in ps]
    elif shape == "coincident":
        q = [F(rng.randrange(0, 8 * R), 8) for _ in range(n_ed)]
        ps = [list(q) for _ in ps]
    return ps


def visible(p):
    return all(c is not None for c in p)


def n_vis(pose):
    return sum(visible(p) for p in pose)


def noisy_copy(rng, pose, amp, p_drop, n_ed, R):
    """A prediction for `pose`: each visible keypoint displaced by a dyadic offset."""
    out = []
    for p in pose:
        if rng.random() < p_drop:
            out.append([None] * n_ed)
        elif not visible(p):
            out.append(gen_point(rng, n_ed, R, 0.3))
        else:
            out.append([c + F(rng.randint(-amp, amp), 8) for c in p])
    return out


def gen_sd(rng, n_nodes):
    r = rng.random()
    vals = [F(1, 40), F(1, 16), F(1, 8), F(1, 4), F(1, 2), F(1), F(2)]
    if r < 0.35:
        return None
    if r < 0.7:
        return ["s", rng.choice(vals)]
    return ["v", [rng.choice(vals) for _ in range(n_nodes)]]


def gen_sc(rng, n_gt):
    r = rng.random()
    vals = [F(0), F(1, 2), F(3), F(10), F(100), F(2500)]
    if r < 0.55:
        return None
    if r < 0.8:
        return ["s", rng.choice(vals)]
    return ["v", [rng.choice(vals) for _ in range(n_gt)]]


def gen_oks(rng):
    n_ed = 2 if rng.random() < 0.8 else 3
    n_nodes = rng.randint(1, 5)
    R = rng.choice([2, 4, 16, 64, 400])
    p_nan = rng.choice([0, 0, 0.2, 0.5])
    n_gt = rng.choice([0, 1, 1, 2, 2, 3, 4])
    n_pr = 1 if rng.random() < 0.55 else rng.choice([0, 2, 2, 3, 4])
    gts = [gen_pose(rng, n_nodes, n_ed, R, p_nan) for _ in range(n_gt)]
    prs = []
    for j in range(n_pr):
        r = rng.random()
        if gts and r < 0.55:
            prs.append(noisy_copy(rng, rng.choice(gts), rng.choice([1, 2, 4, 16]), rng.choice([0, 0.2]), n_ed, R))
        elif gts and r < 0.65:
            prs.append([list(p) for p in rng.choice(gts)])
        else:
            prs.append(gen_pose(rng, n_nodes, n_ed, R, p_nan, shape="free"))
    two_d = [n_gt == 1 and rng.random() < 0.3, n_pr == 1 and rng.random() < 0.3]
    # image-sized coordinates and float32 arrays (what inference produces): every coordinate of the
    # case is shifted by a large dyadic offset, exactly representable in float32 (k/8 < 2^21)
    f32 = rng.random() < 0.3
    if rng.random() < 0.35 and R <= 400:
        off = [F(rng.choice([512, 1000, 4096, 20000, -512, -1000, -4096, -20000])) for _ in range(n_ed)]
        sh = lambda poses: [[[None if v is None else v + off[d] for d, v in enumerate(p)] for p in pose] for pose in poses]
        gts, prs = sh(gts), sh(prs)
    if f32:
        return {"kind": "oks", "n_ed": n_ed, "n_nodes": n_nodes, "gts": gts, "prs": prs,
                "sc": gen_sc(rng, n_gt), "sd": gen_sd(rng, n_nodes), "coco": rng.random() < 0.6,
                "two_d": two_d, "sub": rng.randrange(1 << 30), "f32": True}
    return {"kind": "oks", "n_ed": n_ed, "n_nodes": n_nodes, "gts": gts, "prs": prs,
            "sc": gen_sc(rng, n_gt), "sd": gen_sd(rng, n_nodes), "coco": rng.random() < 0.6,
            "two_d": two_d, "sub": rng.randrange(1 << 30)}


def gen_area(rng):
    n_ed = rng.choice([2, 2, 3])
    n_nodes = rng.randint(1, 5)
    R = rng.choice([2, 16, 400])
    ps = [gen_pose(rng, n_nodes, n_ed, R, rng.choice([0, 0.3, 0.6])) for _ in range(rng.randint(1, 4))]
    if rng.random() < 0.5:                             # negative / image-sized coordinates (crop-relative, translated)
        off = [F(rng.choice([-20000, -1000, -64, -3, 512, 4096])) for _ in range(n_ed)]
        ps = shift_poses(ps, off)
    return {"kind": "area", "n_ed": n_ed, "n_nodes": n_nodes, "ps": ps, "two_d": len(ps) == 1 and rng.random() < 0.4}


def shift_poses(poses, off):
    return [[[None if v is None else v + off[d] for d, v in enumerate(p)] for p in pose] for pose in poses]


def gen_match(rng):
    n_nodes = rng.randint(1, 4)
    R = rng.choice([4, 16, 64])
    n_gt = rng.choice([0, 1, 2, 2, 3, 3, 4])
    p_nan = rng.choice([0, 0, 0.25])
    gts = [gen_pose(rng, n_nodes, 2, R, p_nan, shape=rng.choice(["free"] * 8 + ["single", "allmiss"]))
           for _ in range(n_gt)]
    if gts and rng.random() < 0.15:                    # two animals on top of each other
        gts[-1] = [list(p) for p in gts[0]]
    n_pr = rng.choice([0, 1, 2, 2, 3, 3, 4, 5])
    prs = []
    for _ in range(n_pr):
        r = rng.random()
        if gts and r < 0.35:
            prs.append([list(p) for p in rng.choice(gts)])
        elif gts and r < 0.85:
            prs.append(noisy_copy(rng, rng.choice(gts), rng.choice([1, 1, 2, 4]), rng.choice([0, 0.2]), 2, R))
        else:
            prs.append(gen_pose(rng, n_nodes, 2, R, p_nan, shape="free"))
    scores = [F(rng.randint(0, 8), 8) for _ in range(n_pr)]       # many ties
    gen = rng.random() < 0.5                           # evaluate Oks.match_instances_gen (pscore list)
    if rng.random() < 0.3:
        # "arbitrary scores": predicted instances without a `score` attribute (the hasattr filter of
        # match_instances shifts the indices) and NaN scores (sorted last by argsort(-scores))
        gen = True
        scores = [("noscore" if r < 0.35 else "nan" if r < 0.6 else s)
                  for s, r in zip(scores, [rng.random() for _ in scores])]
    if rng.random() < 0.3:
        off = [F(rng.choice([-20000, -1000, -64, 512, 4096])) for _ in range(2)]
        gts, prs = shift_poses(gts, off), shift_poses(prs, off)
    thr = rng.choice([F(0), F(0), F(0), F(1, 4), F(1, 2), F(7, 8), F(1)])
    sd = rng.choice([None, None, F(1, 8), F(1, 2), F(1)])
    sc = rng.choice([None, None, F(10), F(100)])
    return {"kind": "match", "n_nodes": n_nodes, "gts": gts, "prs": prs, "scores": scores,
            "thr": thr, "sd": sd, "sc": sc, "gen": gen}

FRAME_SHAPES = ["normal"] * 8 + ["empty_pr"] * 4 + ["empty_gt"] * 2 + ["both_empty"] * 2 + ["below"] * 4


def gen_frames(rng):
    """A list of frame pairs for match_frame_pairs (the frames of one evaluation): every pair
    has 0..4 gt and 0..5 predicted instances; shapes: normal, predicted frame empty, gt frame
    empty, both empty, predictions that cannot be matched (all keypoints missing, or far away so
    that the OKS underflows to 0 <= threshold, or exact copies under threshold 1)."""
    n_nodes = rng.randint(1, 4)
    R = rng.choice([4, 16, 64])
    p_nan = rng.choice([0, 0, 0.25])
    thr = rng.choice([F(0), F(0), F(0), F(1, 4), F(1, 2), F(7, 8), F(1)])
    sd = rng.choice([None, None, F(1, 8), F(1, 2), F(1)])
    sc = rng.choice([None, None, F(10), F(100)])
    frames = []
    for _ in range(rng.choice([1, 2, 2, 3, 3, 4, 5, 6])):
        shape = rng.choice(FRAME_SHAPES)
        n_gt = 0 if shape in ("empty_gt", "both_empty") else rng.choice([1, 2, 2, 3, 4])
        n_pr = 0 if shape in ("empty_pr", "both_empty") else rng.choice([1, 2, 2, 3, 4, 5])
        gts = [gen_pose(rng, n_nodes, 2, R, p_nan, shape=rng.choice(["free"] * 8 + ["single", "allmiss"]))
               for _ in range(n_gt)]
        prs = []
        for _ in range(n_pr):
            r = rng.random()
            if shape == "below":
                if thr == 1 and gts and r < 0.5:
                    prs.append([list(p) for p in rng.choice(gts)])          # OKS = 1 is not above 1
                elif r < 0.6 or not gts:
                    prs.append([[None, None] for _ in range(n_nodes)])      # nothing predicted: OKS 0
                else:                                                      # far away: exp underflows to 0
                    prs.append(shift_poses([noisy_copy(rng, rng.choice(gts), 2, 0, 2, R)], [F(10 ** 7), F(-10 ** 7)])[0])
            elif gts and r < 0.35:
                prs.append([list(p) for p in rng.choice(gts)])
            elif gts and r < 0.85:
                prs.append(noisy_copy(rng, rng.choice(gts), rng.choice([1, 1, 2, 4]), rng.choice([0, 0.2]), 2, R))
            else:
                prs.append(gen_pose(rng, n_nodes, 2, R, p_nan, shape="free"))
        scores = [F(rng.randint(0, 8), 8) for _ in range(n_pr)]
        if rng.random() < 0.2:
            off = [F(rng.choice([-1000, -64, 512, 4096])) for _ in range(2)]
            gts, prs = shift_poses(gts, off), shift_poses(prs, off)
        frames.append({"shape": shape, "gts": gts, "prs": prs, "scores": scores})
    return {"kind": "frames", "n_nodes": n_nodes, "frames": frames, "thr": thr, "sd": sd, "sc": sc,
            "defaults": thr == 0 and sd is None and sc is None and rng.random() < 0.5}


def gen_cost(rng, hung):
    n, m = rng.randint(0 if not hung else 1, 4), rng.randint(0 if not hung else 1, 4)
    distinct = rng.random() < 0.6
    if distinct:
        vals = rng.sample(range(-20, 40), n * m)
    else:
        vals = [rng.randint(-2, 4) for _ in range(n * m)]
    C = [[F(vals[i * m + j], 4) for j in range(m)] for i in range(n)]
    if not hung and rng.random() < 0.3:
        for _ in range(rng.randint(1, 2)):
            if n and m:
                C[rng.randrange(n)][rng.randrange(m)] = None
    if hung == "inf":                                  # infinite costs (None): a track without candidates etc.
        for _ in range(rng.choice([1, 1, 2, 3, n * m])):
            C[rng.randrange(n)][rng.randrange(m)] = None
        if rng.random() < 0.2:
            C[rng.randrange(n)] = [None] * m           # a whole row without finite cost
        return {"kind": "hunginf", "C": C, "n": n, "m": m}
    return {"kind": "hung" if hung else "greedy", "C": C, "n": n, "m": m}


def gen_iou(rng):
    def box():
        x, y = F(rng.randint(-40, 80), 8), F(rng.randint(-40, 80), 8)
        w, h = F(rng.choice([0, 0, 1, 3, 8, 40, 100]), 8), F(rng.choice([0, 1, 5, 16, 64]), 8)
        return [x, y, x + w, y + h]
    a = box()
    b = list(a) if rng.random() < 0.1 else box()
    return {"kind": "iou", "a": a, "b": b}


def gen_vec(rng, kind):
    n = rng.randint(1, 6)
    a = [F(rng.randint(-16, 16), 8) for _ in range(n)]
    r = rng.random()
    if r < 0.15:
        b = [x * F(rng.choice([-3, -1, 1, 2, 5]), 2) for x in a]     # parallel / antiparallel
    else:
        b = [F(rng.randint(-16, 16), 8) for _ in range(n)]
    if kind == "cos":
        if not any(a):
            a[0] = F(1, 8)
        if not any(b):
            b[-1] = F(-3, 8)
    return {"kind": kind, "a": a, "b": b}


# ---------------------------------------------------------------- Coq terms
def ccoord(c):
    return "None" if c is None else f"(Some {core.cq(c)})"


def cpose(pose):
    return core.clist(pose, lambda p: core.clist(p, ccoord))


def cposes(ps):
    return core.clist(ps, cpose)


def csd(sd):
    if sd is None:
        return f"(SdScalar {core.cq(DEFAULT_SD)})"
    return f"(SdScalar {core.cq(sd[1])})" if sd[0] == "s" else f"(SdVec {core.clist(sd[1], core.cq)})"


def csc(sc):
    if sc is None:
        return "ScNone"
    return f"(ScScalar {core.cq(sc[1])})" if sc[0] == "s" else f"(ScVec {core.clist(sc[1], core.cq)})"


def cmatrix(M):
    return core.clist(M, lambda r: core.clist(r, lambda v: "None" if v is None else f"(Some {core.cq(v)})"))


def term(c, flags):
    k = c["kind"]
    if k == "oks":
        return (f"COks {core.cbool(flags['F22'])} {c['n_ed']} {c['n_nodes']} {cposes(c['gts'])} {cposes(c['prs'])} "
                f"{csc(c['sc'])} {csd(c['sd'])} {core.cbool(c['coco'])}")
    if k == "area":
        return f"CArea {c['n_ed']} {cposes(c['ps'])}"
    if k == "match":
        if c.get("gen") or any(isinstance(x, str) for x in c["scores"]):
            ps = lambda x: "NoScore" if x == "noscore" else "NanScore" if x == "nan" else f"(Score {core.cq(x)})"
            return (f"CMatchG {core.cbool(flags['F51'])} {len(c['gts'])} {core.clist(c['scores'], ps)} "
                    f"{cmatrix(c['M'])} {core.cq(c['thr'])}")
        return (f"CMatch {core.cbool(flags['F51'])} {len(c['gts'])} {core.clist(c['scores'], core.cq)} "
                f"{cmatrix(c['M'])} {core.cq(c['thr'])}")
    if k == "frames":
        fp = lambda f: f"({core.cnat(len(f['gts']))}, {core.clist(f['scores'], core.cq)}, {cmatrix(f['M'])})"
        return f"CFrames {core.cbool(flags['F51'])} {core.cq(c['thr'])} {core.clist(c['frames'], fp)}"
    if k == "greedy":
        return f"CGreedy {cmatrix(c['C'])}"
    if k == "hung":
        C = c["C"] if c["n"] <= c["m"] else [list(r) for r in zip(*c["C"])]
        return f"CHung {core.clist(C, lambda r: core.clist(r, core.cq))}"
    if k == "hunginf":
        return f"CHungInf {cmatrix(c['C'])}"
    if k == "iou":
        return "CIou (%s, %s, %s, %s) (%s, %s, %s, %s)" % tuple(core.cq(v) for v in c["a"] + c["b"])
    if k == "cos":
        return f"CCos {core.clist(c['a'], core.cq)} {core.clist(c['b'], core.cq)}"
    if k == "euc":
        return f"CEuc {core.clist(c['a'], core.cq)} {core.clist(c['b'], core.cq)}"
    raise ValueError(k)


# ---------------------------------------------------------------- implementation
class Impl:
    def __init__(self):
        import numpy as np
        from sleap_nn import evaluation as ev
        from sleap_nn.tracking import utils as tu
        self.np, self.ev, self.tu = np, ev, tu

    def arr(self, poses, n_nodes, n_ed, two_d=False, f32=False):
        np = self.np
        a = np.array([[[np.nan if v is None else float(v) for v in p] for p in pose] for pose in poses],
                     dtype=np.float64).reshape(len(poses), n_nodes, n_ed)
        if f32:
            a = a.astype(np.float32)      # generated coordinates are k/8 < 2^21: exact in float32
        return a[0] if two_d else a

    def oks(self, gts, prs, c, sc="case", two_d=(False, False)):
        """compute_oks with the case's options -> ('ok', matrix as nested list) | ('raises', kind)."""
        np = self.np
        kw = {}
        sc = c["sc"] if sc == "case" else sc
        if sc is not None:
            kw["scale"] = float(sc[1]) if sc[0] == "s" else np.array([float(v) for v in sc[1]])
        if c["sd"] is not None:
            kw["stddev"] = float(c["sd"][1]) if c["sd"][0] == "s" else np.array([float(v) for v in c["sd"][1]])
        if not c["coco"]:
            kw["use_cocoeval"] = False
        g = self.arr(gts, c["n_nodes"], c["n_ed"], two_d[0], c.get("f32", False))
        p = self.arr(prs, c["n_nodes"], c["n_ed"], two_d[1], c.get("f32", False))
        g0, p0 = g.copy(), p.copy()
        try:
            with warnings.catch_warnings():
                warnings.simplefilter("ignore")
                out = self.ev.compute_oks(g, p, **kw)
        except Exception as e:
            return ("raises", type(e).__name__)
        if not (np.array_equal(g, g0, equal_nan=True) and np.array_equal(p, p0, equal_nan=True)):
            return ("raises", "InputMutated")
        if out.shape != (len(gts), len(prs)):
            return ("raises", f"Shape{out.shape}")
        return ("ok", out.tolist())


class Duck:
    """Duck-typed LabeledFrame / Instance exposing what match_instances reads."""

    class Inst:
        def __init__(self, pts, score=None):
            self._pts = pts
            if score is not None:
                self.score = score

        def numpy(self):
            return self._pts.copy()

    class Backend:
        source_filename = "duck.mp4"

    class Video:
        pass

    def __init__(self, insts, frame_idx=0):
        self.instances = insts
        self.frame_idx = frame_idx
        self.video = Duck.Video()
        self.video.backend = Duck.Backend()
        self.user_instances = insts


def val_of(entry):
    """Real value of a model okv = [terms, nvis] evaluated in float64."""
    terms, nv = entry
    if nv == 0:
        return float("nan")
    s = 0.0
    for t in terms:
        if t is not None:
            s += math.exp(max(-745.0, float(F(t[0], t[1]))))
    return s / nv


F32_ATOL, F32_RTOL = 2e-6, 2e-4        # float32 inputs: the area / scale / distance arithmetic runs in float32


def tol(c):
    return (F32_ATOL, F32_RTOL) if c.get("f32") else (ATOL, RTOL)


def close(a, b, atol=ATOL, rtol=RTOL):
    if a is None or b is None:
        return a is None and b is None
    if math.isnan(a) or math.isnan(b):
        return math.isnan(a) and math.isnan(b)
    return abs(a - b) <= atol + rtol * abs(b)


# ---------------------------------------------------------------- oracles (the property, executable)
def sub_scale(c, idxs):
    sc = c["sc"]
    if sc is not None and sc[0] == "v":
        return ["v", [sc[1][i] for i in idxs]]
    return sc


def d2(g, p):
    return sum((a - b) ** 2 for a, b in zip(g, p))


def oracle_oks(c, impl, out, flags, rng):
    """Returns (reason, selector) or None.  `out` = impl result on the case itself."""
    gts, prs = c["gts"], c["prs"]
    n_gt, n_pr = len(gts), len(prs)
    if out[0] == "raises":
        if n_pr != 1 and out[1] == "IndexError":
            return (f"compute_oks raises IndexError for n_pr = {n_pr}", SEL_F22)
        return (f"compute_oks raises {out[1]}", None)
    M = out[1]
    eps = 2e-5 if c.get("f32") else 1e-12
    ta, tr_ = tol(c)
    dom = [n_vis(g) >= 1 for g in gts]
    for i in range(n_gt):
        for j in range(n_pr):
            v = M[i][j]
            if dom[i] and not (math.isfinite(v) and -eps <= v <= 1 + eps):
                return (f"oks[{i}][{j}] = {v} outside [0,1]", None)
    can_matrix = flags["F22"]

    def pair(i, pose):                                 # OKS of gt i with one prediction (column call)
        r = impl.oks(gts, [pose], c)
        return None if r[0] == "raises" else r[1][i][0]

    # identical poses -> 1
    for i in range(n_gt):
        if dom[i]:
            v = pair(i, gts[i])
            if v is None or abs(v - 1) > eps:
                return (f"identical poses: oks(gt{i}, gt{i}) = {v} != 1", None)
    for i in range(n_gt):
        if not dom[i]:
            continue
        g = gts[i]
        for j in range(n_pr):
            p = prs[j]
            base = M[i][j]
            # keypoints missing in gt are ignored: alter the prediction there
            miss = [k for k in range(len(g)) if not visible(g[k])]
            if miss:
                p2 = [list(q) for q in p]
                for k in miss:
                    p2[k] = [None] * c["n_ed"] if rng.random() < 0.4 else \
                        [F(rng.randint(-800, 800), 8) for _ in range(c["n_ed"])]
                v = pair(i, p2)
                if v is None or not close(v, base, ta, tr_):
                    return (f"gt-missing keypoints {miss} influence oks[{i}][{j}]: {base} -> {v}", None)
            vis = [k for k in range(len(g)) if visible(g[k])]
            k = rng.choice(vis)
            # missing prediction = complete miss (same as infinitely far), never larger than before
            p2 = [list(q) for q in p]
            p2[k] = [None] * c["n_ed"]
            p3 = [list(q) for q in p]
            p3[k] = [g[k][0] + F(10 ** 12)] + list(g[k][1:])
            v2, v3 = pair(i, p2), pair(i, p3)
            if v2 is None or v3 is None or not close(v2, v3, ta, tr_) or v2 > base + eps:
                return (f"prediction keypoint {k} missing: oks {v2}, infinitely far {v3}, before {base}", None)
            others = n_vis(g) - 1
            if v2 > others / n_vis(g) + eps:
                return (f"missing prediction keypoint {k} still contributes: {v2} > {others}/{n_vis(g)}", None)
            # moving one predicted keypoint farther from its target never increases oks
            if visible(p[k]):
                lam = rng.choice([F(3, 2), F(2), F(5), F(9, 8)])
                if d2(g[k], p[k]) == 0:
                    q = [g[k][0] + F(rng.choice([1, 3, 16]), 8)] + list(g[k][1:])
                elif rng.random() < 0.5:
                    q = [a + lam * (b - a) for a, b in zip(g[k], p[k])]
                else:
                    q = [b + F(rng.randint(-16, 16), 8) for b in p[k]]
                if d2(g[k], q) >= d2(g[k], p[k]):
                    p4 = [list(x) for x in p]
                    p4[k] = q
                    v4 = pair(i, p4)
                    if v4 is None or v4 > base + eps:
                        return (f"moving predicted keypoint {k} farther increases oks[{i}][{j}]: {base} -> {v4}", None)
            # (round 6, c15_oks_monotone_all) SEVERAL predicted keypoints farther at once (along the ray from the
            # target, or to NaN = infinitely far) never increases oks; own rng so the other draws are unchanged
            r2 = random.Random(c.get("sub", 0) * 7919 + i * 31 + j)
            p5, changed = [list(x) for x in p], 0
            for kk in vis:
                u = r2.random()
                if u < 0.25:
                    p5[kk] = [None] * c["n_ed"]
                    changed += 1
                elif u < 0.75 and visible(p[kk]):
                    lam = r2.choice([F(9, 8), F(3, 2), F(2), F(7)])
                    p5[kk] = [a + lam * (b - a) for a, b in zip(g[kk], p[kk])] if d2(g[kk], p[kk]) else \
                        [g[kk][0] + F(r2.choice([1, 5, 24]), 8)] + list(g[kk][1:])
                    changed += 1
            if changed >= 2:
                v5 = pair(i, p5)
                if v5 is None or v5 > base + eps:
                    return (f"moving {changed} predicted keypoints farther / to NaN increases oks[{i}][{j}]: {base} -> {v5}", None)
            # (c15_oks_one_iff) oks = 1 exactly when every visible gt keypoint has a present prediction at distance 0
            hits = [visible(p[kk]) and d2(g[kk], p[kk]) == 0 for kk in vis]
            if all(hits) and abs(base - 1) > eps:
                return (f"every visible gt keypoint is predicted exactly but oks[{i}][{j}] = {base} != 1", None)
            if any(not visible(p[kk]) for kk in vis) and base > 1 - 1 / len(vis) + eps:
                return (f"a visible gt keypoint has no prediction but oks[{i}][{j}] = {base} > 1 - 1/{len(vis)}", None)
    # translation of both poses
    if n_gt and n_pr:
        big = rng.random() < 0.4          # image-sized translations (float32: up to 2^12 so that k/8 stays exact)
        t = [F(rng.choice([-4096, -1000, 512, 1000, 4096])) if big else F(rng.randint(-64, 64), 8)
             for _ in range(c["n_ed"])]
        tr = lambda poses: [[[None if v is None else v + t[d] for d, v in enumerate(p)] for p in pose] for pose in poses]
        if can_matrix or n_pr == 1:
            r = impl.oks(tr(gts), tr(prs), c)
            if r[0] == "raises":
                return (f"translated input raises {r[1]}", None)
            for i in range(n_gt):
                for j in range(n_pr):
                    if dom[i] and not close(r[1][i][j], M[i][j], atol=max(1e-10, ta), rtol=max(1e-7, tr_)):
                        return (f"translation by {enc(t)} changes oks[{i}][{j}]: {M[i][j]} -> {r[1][i][j]}", None)
    # reordering instances permutes the matrix
    if n_gt >= 2 or (n_pr >= 2 and can_matrix):
        pg = list(range(n_gt))
        rng.shuffle(pg)
        pp = list(range(n_pr))
        if can_matrix:
            rng.shuffle(pp)
        if can_matrix or n_pr == 1:
            r = impl.oks([gts[i] for i in pg], [prs[j] for j in pp], c, sc=sub_scale(c, pg))
            if r[0] == "raises":
                return (f"permuted input raises {r[1]}", None)
            for a, i in enumerate(pg):
                for b, j in enumerate(pp):
                    if not close(r[1][a][b], M[i][j], ta, tr_):
                        return (f"reordering instances does not permute the matrix at gt {i} pr {j}", None)
    # (round 6, c15_oks_keypoint_reorder) reordering the KEYPOINTS of every pose, the stddev vector with them, leaves
    # every entry unchanged (float summation order changes: tolerance)
    if n_gt and n_pr and c["n_nodes"] >= 2 and (can_matrix or n_pr == 1):
        r3 = random.Random(c.get("sub", 0) * 104729 + 17)
        kp = list(range(c["n_nodes"]))
        r3.shuffle(kp)
        if all(len(x) == c["n_nodes"] for x in gts + prs):
            c2 = dict(c)
            if c["sd"] is not None and c["sd"][0] == "v":
                c2["sd"] = ["v", [c["sd"][1][k] for k in kp]]
            r = impl.oks([[g[k] for k in kp] for g in gts], [[p[k] for k in kp] for p in prs], c2)
            if r[0] == "raises":
                return (f"keypoint-permuted input raises {r[1]}", None)
            for i in range(n_gt):
                for j in range(n_pr):
                    if dom[i] and not close(r[1][i][j], M[i][j], max(ta, 1e-12), max(tr_, 1e-9)):
                        return (f"reordering keypoints by {kp} changes oks[{i}][{j}]: {M[i][j]} -> {r[1][i][j]}", None)
    return None


def oracle_match(c, res):
    """res = ('ok', pairs [(g, p, oks)], missed [g]) | ('raises', kind)."""
    n_gt, n_pr = len(c["gts"]), len(c["prs"])
    if res[0] == "raises":
        if n_gt == 0 and n_pr > 0 and res[1] == "ValueError":
            return ("match_instances raises ValueError for a frame with predictions and no gt instance", SEL_F51)
        return (f"match_instances raises {res[1]}", None)
    _, pairs, missed = res
    gs = [g for g, _, _ in pairs]
    ps = [p for _, p, _ in pairs]
    if any(g is None for g in gs + missed) or any(p is None for p in ps):
        return ("returned an instance that is not in the frame", None)
    if len(set(gs)) != len(gs):
        return ("a ground-truth instance is matched twice", None)
    if len(set(ps)) != len(ps):
        return ("a predicted instance is matched twice", None)
    if sorted(gs + missed) != list(range(n_gt)):
        return (f"matched {gs} + missed {missed} do not account for every gt instance exactly once", None)
    return None

def oracle_frames(c, res, per_frame):
    """The property over the frames of an evaluation, on the implementation's own output.
    res = ('ok', pairs [((k, g), (k', p), oks)], missed [(k, g)]) | ('raises', kind);
    per_frame[k] = result of match_instances on frame pair k alone (run_match)."""
    frames = c["frames"]
    if res[0] == "raises":
        if res[1] == "ValueError" and any(not f["gts"] and f["prs"] for f in frames):
            return ("match_frame_pairs raises ValueError for a frame pair with predictions and no gt instance", SEL_F51)
        return (f"match_frame_pairs raises {res[1]}", None)
    _, pairs, missed = res
    gs = [g for g, _, _ in pairs]
    ps = [p for _, p, _ in pairs]
    if any(g is None for g in gs + missed) or any(p is None for p in ps):
        return ("returned an instance that is in none of the frames", None)
    if any(g[0] != p[0] for g, p, _ in pairs):
        return ("a ground-truth instance is paired with a prediction of another frame", None)
    if len(set(gs)) != len(gs) or len(set(missed)) != len(missed) or set(gs) & set(missed):
        return ("a ground-truth instance is reported twice (matched twice, missed twice, or both)", None)
    if len(set(ps)) != len(ps):
        return ("a predicted instance is matched twice", None)
    all_gt = [(k, i) for k, f in enumerate(frames) for i in range(len(f["gts"]))]
    if len(pairs) + len(missed) != len(all_gt) or sorted(gs + missed) != all_gt:
        lost = sorted(set(all_gt) - set(gs) - set(missed))
        return (f"matched ({len(pairs)}) + missed ({len(missed)}) do not account for the {len(all_gt)} gt instances "
                f"of the {len(frames)} frame pairs; unaccounted (frame, instance): {lost[:8]}", None)
    # the list result is the per-frame results laid end to end, in frame order
    want_p, want_m = [], []
    for k, r in enumerate(per_frame):
        if r[0] != "ok":
            return (f"match_instances raises {r[1]} on frame pair {k} alone but match_frame_pairs returned", None)
        want_p += [((k, g), (k, p)) for g, p, _ in r[1]]
        want_m += [(k, g) for g in r[2]]
    if [(g, p) for g, p, _ in pairs] != want_p or missed != want_m:
        return ("match_frame_pairs is not the concatenation of match_instances over the frame pairs in order", None)
    return None


def is_greedy_run(C, rows, cols):
    """Contract of greedy_matching: one-to-one, maximal, each pick has minimal cost
    among the edges still compatible with the earlier picks (NaN = last)."""
    n, m = len(C), len(C[0]) if C else 0
    if len(rows) != len(cols):
        return "length mismatch"
    if len(set(rows)) != len(rows) or len(set(cols)) != len(cols):
        return "a row or a column is used twice"
    if len(rows) != min(n, m):
        return f"{len(rows)} assignments for a {n}x{m} matrix"
    key = lambda v: (1, 0) if v is None else (0, v)
    ur, uc = set(), set()
    for r, cc in zip(rows, cols):
        if not (0 <= r < n and 0 <= cc < m):
            return "index out of range"
        best = min(key(C[i][j]) for i in range(n) for j in range(m) if i not in ur and j not in uc)
        if key(C[r][cc]) != best:
            return f"edge ({r},{cc}) is not a cheapest remaining edge"
        ur.add(r)
        uc.add(cc)
    return None


# ---------------------------------------------------------------- runners
def run_match(c, impl):
    np = impl.np
    gi = [Duck.Inst(impl.arr([g], c["n_nodes"], 2)[0]) for g in c["gts"]]
    # "noscore": an instance without a `score` attribute; "nan": score NaN
    fs = lambda x: None if x == "noscore" else float("nan") if x == "nan" else float(x)
    pi = [Duck.Inst(impl.arr([p], c["n_nodes"], 2)[0], fs(s)) for p, s in zip(c["prs"], c["scores"])]
    kw = {"threshold": float(c["thr"])}
    if c["sd"] is not None:
        kw["stddev"] = float(c["sd"])
    if c["sc"] is not None:
        kw["scale"] = float(c["sc"])
    try:
        with warnings.catch_warnings():
            warnings.simplefilter("ignore")
            pos, fn = impl.ev.match_instances(Duck(gi), Duck(pi), **kw)
    except Exception as e:
        return ("raises", type(e).__name__)
    gid = {id(x): i for i, x in enumerate(gi)}
    pid = {id(x): i for i, x in enumerate(pi)}
    pairs = [(gid.get(id(a.instance)), pid.get(id(b.instance)), float(o)) for a, b, o in pos]
    missed = [gid.get(id(a.instance)) for a in fn]
    return ("ok", pairs, missed)

def frame_case(c, f):
    """Frame pair f of a frames case as a stand-alone match case."""
    return {"kind": "match", "n_nodes": c["n_nodes"], "gts": f["gts"], "prs": f["prs"], "scores": f["scores"],
            "thr": c["thr"], "sd": c["sd"], "sc": c["sc"]}


def run_frames(c, impl):
    """match_frame_pairs on a list of duck-typed frame pairs; instances are reported as
    (position of the frame pair, index in the frame)."""
    pairs_in, gid, pid = [], {}, {}
    keep = []
    for k, f in enumerate(c["frames"]):
        gi = [Duck.Inst(impl.arr([g], c["n_nodes"], 2)[0]) for g in f["gts"]]
        pi = [Duck.Inst(impl.arr([p], c["n_nodes"], 2)[0], float(s)) for p, s in zip(f["prs"], f["scores"])]
        gid.update({id(x): (k, i) for i, x in enumerate(gi)})
        pid.update({id(x): (k, i) for i, x in enumerate(pi)})
        keep += gi + pi
        pairs_in.append((Duck(gi, frame_idx=3 * k + 1), Duck(pi, frame_idx=3 * k + 1)))
    kw = {}
    if not c.get("defaults"):
        kw["threshold"] = float(c["thr"])
    if c["sd"] is not None:
        kw["stddev"] = float(c["sd"])
    if c["sc"] is not None:
        kw["scale"] = float(c["sc"])
    n_in = [(len(a.instances), len(b.instances)) for a, b in pairs_in]
    try:
        with warnings.catch_warnings():
            warnings.simplefilter("ignore")
            pos, fn = impl.ev.match_frame_pairs(pairs_in, **kw)
    except Exception as e:
        return ("raises", type(e).__name__)
    if len(pairs_in) != len(c["frames"]) or [(len(a.instances), len(b.instances)) for a, b in pairs_in] != n_in:
        return ("raises", "InputMutated")
    pairs = [(gid.get(id(a.instance)), pid.get(id(b.instance)), float(o)) for a, b, o in pos]
    missed = [gid.get(id(a.instance)) for a in fn]
    return ("ok", pairs, missed)


def oks_float_matrix(c, impl):
    """The OKS of every (gt, prediction) pair as match_instances computes it
    (compute_oks with one prediction), exact rationals of the float64 results."""
    cc = {"n_nodes": c["n_nodes"], "n_ed": 2, "coco": True,
          "sd": None if c["sd"] is None else ["s", c["sd"]], "sc": None if c["sc"] is None else ["s", c["sc"]]}
    M = [[None] * len(c["prs"]) for _ in c["gts"]]
    for j, p in enumerate(c["prs"]):
        if not c["gts"]:
            break
        r = impl.oks(c["gts"], [p], cc)
        if r[0] == "raises":
            return None
        for i in range(len(c["gts"])):
            v = r[1][i][0]
            M[i][j] = None if math.isnan(v) else F(v)
    return M


def detect_flags(impl):
    """Which behaviour does the code under check have?  (witness runs of F22 / F51)"""
    c = {"n_nodes": 2, "n_ed": 2, "coco": True, "sd": None, "sc": None}
    g = [[[F(0), F(0)], [F(4), F(0)]], [[F(1), F(1)], [F(5), F(3)]]]
    r = impl.oks(g, g, c)
    f22 = r[0] == "ok"
    m = {"kind": "match", "n_nodes": 2, "gts": [], "prs": [g[0]], "scores": [F(1, 2)], "thr": F(0), "sd": None,
         "sc": None}
    f23 = run_match(m, impl)[0] == "ok"
    return {"F22": f22, "F51": f23}


# ---------------------------------------------------------------- the check
def gen_cases(rng, thorough):
    n = 30000 if thorough else 1500
    mix = [("oks", 0.36), ("match", 0.30), ("area", 0.06), ("greedy", 0.08), ("hung", 0.05), ("hunginf", 0.04),
           ("iou", 0.05), ("cos", 0.04), ("euc", 0.03), ("frames", 0.10)]
    cases = []
    for kind, w in mix:
        for _ in range(max(4, int(n * w))):
            if kind == "oks":
                cases.append(gen_oks(rng))
            elif kind == "match":
                cases.append(gen_match(rng))
            elif kind == "area":
                cases.append(gen_area(rng))
            elif kind == "hunginf":
                cases.append(gen_cost(rng, "inf"))
            elif kind in ("greedy", "hung"):
                cases.append(gen_cost(rng, kind == "hung"))
            elif kind == "iou":
                cases.append(gen_iou(rng))
            elif kind == "frames":
                cases.append(gen_frames(rng))
            else:
                cases.append(gen_vec(rng, kind))
    return cases


def load_corpus():
    d = core.CORPUS / "C15"
    return [dec(json.load(open(f))) for f in sorted(d.glob("*.json"))] if d.exists() else []


def eval_case(c, m, impl, flags, rng):
    """Run the implementation on one case, compare with the model value `m`,
    evaluate the oracle.  Returns (diff or None, (reason, selector) or None, impl result)."""
    import random
    np = impl.np
    k = c["kind"]
    diff = bad = None
    if k == "oks":
        out = impl.oks(c["gts"], c["prs"], c, two_d=tuple(c.get("two_d", (False, False))))
        if m is None:
            if not (out[0] == "raises" and out[1] == "IndexError"):
                diff = f"model: IndexError, impl: {out[0]} {out[1] if out[0] == 'raises' else ''}"
        elif out[0] == "raises":
            diff = f"impl raises {out[1]}, model returns a matrix"
        else:
            for i, row in enumerate(m):
                for j, e in enumerate(row):
                    if not close(out[1][i][j], val_of(e), *tol(c)):
                        diff = f"oks[{i}][{j}]: impl {out[1][i][j]} model {val_of(e)}"
        bad = oracle_oks(c, impl, out, flags, random.Random(c.get("sub", 0)))
        return diff, bad, out
    if k == "area":
        a = impl.arr(c["ps"], c["n_nodes"], c["n_ed"], c["two_d"])
        with warnings.catch_warnings():
            warnings.simplefilter("ignore")
            out = impl.ev.compute_instance_area(a).tolist()
        want = [None if v is None else float(F(*v)) for v in m]
        if len(out) != len(want) or any(not close(None if math.isnan(o) else o, w) for o, w in zip(out, want)):
            diff = f"area impl {out} model {want}"
        for o, ps in zip(out, c["ps"]):
            if n_vis(ps) >= 1 and not (math.isfinite(o) and o >= 0):
                bad = (f"bounding-box area {o} of a pose with a visible keypoint", None)
        return diff, bad, out
    if k == "match":
        res = run_match(c, impl)
        if m is None:
            if not (res[0] == "raises" and res[1] == "ValueError"):
                diff = f"model: ValueError, impl: {res[:2]}"
        elif res[0] == "raises":
            diff = f"impl raises {res[1]}, model {m}"
        else:
            mp = [(g, p, float(F(*v))) for g, p, v in m[0]]
            if [(g, p) for g, p, _ in mp] != [(g, p) for g, p, _ in res[1]] or m[1] != res[2] or \
                    any(a[2] != b[2] for a, b in zip(mp, res[1])):
                diff = f"match impl {res[1:]} model {(mp, m[1])}"
        bad = oracle_match(c, res)
        return diff, bad, res
    if k == "frames":
        res = run_frames(c, impl)
        if m is None:
            if not (res[0] == "raises" and res[1] == "ValueError"):
                diff = f"model: ValueError, impl: {res[:2]}"
        elif res[0] == "raises":
            diff = f"impl raises {res[1]}, model {m}"
        else:
            mp = [((kk, g), (kk, p), float(F(*v))) for kk, (g, p, v) in m[0]]
            mm = [tuple(x) for x in m[1]]
            if mp != res[1] or mm != res[2]:
                diff = f"match_frame_pairs impl {res[1:]} model {(mp, mm)}"
        bad = oracle_frames(c, res, [run_match(frame_case(c, f), impl) for f in c["frames"]])
        return diff, bad, res
    if k == "greedy":
        C = np.array([[np.nan if v is None else float(v) for v in r] for r in c["C"]],
                     dtype=float).reshape(c["n"], c["m"])
        rows, cols = impl.tu.greedy_matching(C)
        rows, cols = [int(x) for x in rows], [int(x) for x in cols]
        flat = [v for r in c["C"] for v in r]
        unique = len(set(flat)) == len(flat)
        if unique and [list(e) for e in zip(rows, cols)] != m:
            diff = f"greedy impl {list(zip(rows, cols))} model {m}"
        mr = is_greedy_run(c["C"], [e[0] for e in m], [e[1] for e in m])
        if mr:
            diff = f"model output is not a greedy run: {mr}"
        g = is_greedy_run(c["C"], rows, cols)
        if g:
            bad = (f"greedy_matching: {g}", None)
        return diff, bad, (rows, cols)
    if k == "hung":
        C = np.array([[float(v) for v in r] for r in c["C"]], dtype=float)
        rows, cols = impl.tu.hungarian_matching(C)
        rows, cols = [int(x) for x in rows], [int(x) for x in cols]
        tot = sum(c["C"][r][cc] for r, cc in zip(rows, cols))
        opt = F(*m) if m is not None else None
        if len(set(rows)) != len(rows) or len(set(cols)) != len(cols) or len(rows) != min(c["n"], c["m"]):
            bad = ("hungarian_matching: not a one-to-one assignment of min(n,m) pairs", None)
        elif opt is None or tot != opt:
            bad = (f"hungarian_matching: total cost {tot} is not the optimum {opt}", None)
        return diff, bad, (rows, cols)
    if k == "hunginf":
        C = np.array([[np.inf if v is None else float(v) for v in r] for r in c["C"]], dtype=float)
        C0 = C.copy()
        rows, cols = impl.tu.hungarian_matching(C)
        rows, cols = [int(x) for x in rows], [int(x) for x in cols]
        cnt, opt = m[0], F(*m[1])
        if not np.array_equal(C, C0):
            bad = ("hungarian_matching modified its cost matrix", None)
        elif len(set(rows)) != len(rows) or len(set(cols)) != len(cols) or len(rows) != len(cols):
            bad = ("hungarian_matching: not one-to-one", None)
        elif any(c["C"][r][cc] is None for r, cc in zip(rows, cols)):
            bad = ("hungarian_matching: an infinite-cost pair is reported as a match", None)
        elif len(rows) != cnt:
            bad = (f"hungarian_matching: {len(rows)} finite pairs, the largest possible number is {cnt}", None)
        elif sum((c["C"][r][cc] for r, cc in zip(rows, cols)), F(0)) != opt:
            bad = (f"hungarian_matching: total cost is not the optimum {opt} among {cnt}-pair assignments", None)
        return diff, bad, (rows, cols)
    if k == "iou":
        out = float(impl.tu.compute_iou(tuple(float(v) for v in c["a"]), tuple(float(v) for v in c["b"])))
        i, u = F(*m[0]), F(*m[1])
        if not close(out, float(i / u)):
            diff = f"iou impl {out} model {float(i / u)}"
        if not (0 <= out <= 1 + 1e-12):
            bad = (f"iou {out} outside [0,1]", None)
        elif c["a"] == c["b"] and abs(out - 1) > 1e-12:
            bad = (f"iou of a box with itself = {out}", None)
        return diff, bad, out
    a = np.array([float(v) for v in c["a"]])
    b = np.array([float(v) for v in c["b"]])
    if k == "cos":
        out = float(impl.tu.compute_cosine_sim(a, b))
        dt, na, nb = (F(*v) for v in m)
        want = float(dt) / (math.sqrt(na) * math.sqrt(nb))
        if not close(out, want, atol=1e-12):
            diff = f"cosine impl {out} model {want}"
        if not (-1 - 1e-12 <= out <= 1 + 1e-12):
            bad = (f"cosine similarity {out} outside [-1,1]", None)
        return diff, bad, out
    out = float(impl.tu.compute_euclidean_distance(a, b))
    want = -math.sqrt(F(*m))
    if not close(out, want):
        diff = f"euclid impl {out} model {want}"
    if out > 0 or (c["a"] == c["b"]) != (out == 0):
        bad = (f"negative euclidean distance {out}", None)
    return diff, bad, out


def nontrivial(c):
    k = c["kind"]
    if k == "oks":
        return len(c["gts"]) >= 1 and len(c["prs"]) >= 1 and any(n_vis(g) for g in c["gts"])
    if k == "match":
        return len(c["gts"]) >= 1 and len(c["prs"]) >= 1
    if k in ("greedy", "hung", "hunginf"):
        return c["n"] >= 2 and c["m"] >= 2
    if k == "frames":
        return len(c["frames"]) >= 2 and any(f["gts"] and f["prs"] for f in c["frames"])
    return True

def attach_matrices(c, impl):
    """The float64 OKS matrices (from compute_oks itself) the matching model runs on."""
    if c["kind"] == "match":
        c["M"] = oks_float_matrix(c, impl)
    elif c["kind"] == "frames":
        for f in c["frames"]:
            f["M"] = oks_float_matrix(frame_case(c, f), impl)


def no_matrix(c):
    return (c["kind"] == "match" and c["M"] is None) or \
        (c["kind"] == "frames" and any(f["M"] is None for f in c["frames"]))


def strip(c):
    """The case without the derived matrices (what is recorded / replayed)."""
    d = {k: v for k, v in c.items() if k != "M"}
    if c["kind"] == "frames":
        d["frames"] = [{k: v for k, v in f.items() if k != "M"} for f in c["frames"]]
    return d


def contract_term(c, out):
    """Coq term `acase` = (input, REAL answer) for Contract.arun, or None when the call has no answer to check
    (raised / not a matcher).  The checker is the validity contract of c15_hungarian_answer[_inf] /
    c15_match_answer_contract; optimality is relative to the references proved in C15/Assign.v."""
    k = c["kind"]
    pair = lambda rc: f"({core.cnat(rc[0])}, {core.cnat(rc[1])})"
    if k == "hunginf" and isinstance(out, tuple):
        return f"AHungInf {cmatrix(c['C'])} {core.clist(list(zip(out[0], out[1])), pair)}"
    if k == "hung" and isinstance(out, tuple):
        con = "AHungT" if c["n"] > c["m"] else "AHung"     # n > m: coqc transposes the original matrix / swaps the pairs
        return f"{con} {core.clist(c['C'], lambda r: core.clist(r, core.cq))} {core.clist(list(zip(out[0], out[1])), pair)}"
    if k == "match" and out and out[0] == "ok":
        if any(g is None or p is None for g, p, _ in out[1]) or any(g is None for g in out[2]):
            return None                                    # already reported by oracle_match
        try:
            ms = [f"({core.cnat(g)}, {core.cnat(p)}, {core.cq(F(float(o)))})" for g, p, o in out[1]]
        except (ValueError, OverflowError):
            return "AMatch 1%nat 0%nat [] 0 [] []"         # NaN / inf OKS reported for a pair: rejected (false)
        return (f"AMatch {core.cnat(len(c['gts']))} {core.cnat(len(c['prs']))} {cmatrix(c['M'])} {core.cq(c['thr'])} "
                f"{core.clist(ms)} {core.clist(out[2], core.cnat)}")
    return None


def eval_model(cases, flags):
    """Model values in case order: Oks.run for single calls, Frames.frun for frame lists."""
    single = [i for i, c in enumerate(cases) if c["kind"] != "frames"]
    lists = [i for i, c in enumerate(cases) if c["kind"] == "frames"]
    out = [None] * len(cases)
    if single:
        vals = core.coq_eval_sharded(PREAMBLE, [term(cases[i], flags) for i in single], "run", RENDER, shard=120, jobs=12)
        for i, v in zip(single, vals):
            out[i] = v
    if lists:
        vals = core.coq_eval_sharded(PREAMBLE_F, [term(cases[i], flags) for i in lists], "frun", RENDER_F, shard=60, jobs=12)
        for i, v in zip(lists, vals):
            out[i] = v
    return out


def check(run: core.Run) -> int:
    run.build_and_prove(PROP_FILES)
    core.impl_env_setup()
    impl = Impl()
    thorough = run.tier == "thorough"
    flags = detect_flags(impl)
    run.log(f"code behaviour: fixed_F22={flags['F22']} fixed_F51={flags['F51']}")
    corpus = load_corpus()
    cases = corpus + gen_cases(run.rng, thorough)
    for c in cases:
        attach_matrices(c, impl)
    bad_m = [c for c in cases if no_matrix(c)]
    for c in bad_m:
        run.violation("failing-input", {"case": enc(strip(c)), "oracle": "compute_oks raised on a single prediction"})
    cases = [c for c in cases if not no_matrix(c)]
    model = eval_model(cases, flags)
    disagree, dist, nfail = 0, {}, 0
    stats = {"oks_entries": 0, "oks_mid": 0, "match_pairs": 0}
    answers = []
    for c, m in zip(cases, model):
        dist[c["kind"]] = dist.get(c["kind"], 0) + 1
        run.case(enc(strip(c)), nontrivial(c))
        try:
            diff, bad, out = eval_case(c, m, impl, flags, run.rng)
        except Exception as e:
            diff, bad, out = None, (f"harness/implementation error {type(e).__name__}: {e}", None), None
        if c["kind"] in ("hung", "hunginf", "match"):
            try:
                t = contract_term(c, out)
            except Exception:
                t = None
            if t is not None:
                answers.append((c, t, out))
        if c["kind"] == "oks" and out and out[0] == "ok":
            vals = [v for r in out[1] for v in r]
            stats["oks_entries"] += len(vals)
            stats["oks_mid"] += sum(1 for v in vals if 0.01 < v < 0.99)
        if c["kind"] == "match" and out and out[0] == "ok":
            stats["match_pairs"] += len(out[1])
            sp = [x for x in c["scores"] if isinstance(x, str)]
            stats["match_frames_with_scoreless_instance"] = stats.get("match_frames_with_scoreless_instance", 0) + ("noscore" in sp)
            stats["match_frames_with_nan_score"] = stats.get("match_frames_with_nan_score", 0) + ("nan" in sp)
            stats["match_gen_model"] = stats.get("match_gen_model", 0) + bool(c.get("gen") or sp)
            # observation (not a property clause): the hasattr filter hides the last instances of the frame
            k = sum(1 for x in c["scores"] if x != "noscore")
            if any(p >= k for _, p, _ in out[1]):
                bad = bad or ("a prediction beyond the first k (k = number of scored instances) was matched: "
                              "the harness's reading of the score filter is wrong", None)
        if c["kind"] == "frames":
            for f in c["frames"]:
                stats["frame_" + f["shape"]] = stats.get("frame_" + f["shape"], 0) + 1
            stats["frame_lists_with_gt_but_empty_prediction_frame"] = stats.get(
                "frame_lists_with_gt_but_empty_prediction_frame", 0) + any(f["gts"] and not f["prs"] for f in c["frames"])
            if out and out[0] == "ok":
                stats["frame_list_pairs"] = stats.get("frame_list_pairs", 0) + len(out[1])
                stats["frame_list_missed"] = stats.get("frame_list_missed", 0) + len(out[2])
        if diff:
            disagree += 1
            if disagree <= 3:
                run.log(f"model/impl disagree: {diff} on {json.dumps(enc(c))[:400]}")
        if bad:
            nfail += 1
            run.violation("failing-input", {"case": enc(strip(c)), "oracle": bad[0], "correspondence": diff,
                                            "impl": enc(out) if not isinstance(out, tuple) else str(out)[:2000]},
                          selector=bad[1])
        elif diff:
            run.proof_broken.append(f"correspondence C15 ({c['kind']}): {diff}; case {json.dumps(enc(strip(c)))[:800]}")
    run.obligation("correspondence: Oks.run / Frames.frun (Coq, vm_compute) == evaluation.py / tracking/utils.py (/repo) on every case",
                   disagree == 0, f"{disagree} disagreements")
    # contract stage: the REAL answers of hungarian_matching / match_instances are checked by the Coq checkers of
    # C15/Contract.v (hypothesis of c15_hungarian_answer, c15_hungarian_answer_inf, c15_match_answer_contract)
    rejected = 0
    if answers:
        verdicts = core.coq_eval_sharded(PREAMBLE_A, [t for _, t, _ in answers], "arun", "racase", shard=120, jobs=12)
        for (c, t, out), ok in zip(answers, verdicts):
            stats["contract_" + c["kind"]] = stats.get("contract_" + c["kind"], 0) + 1
            if ok is not True and ok != "true":
                rejected += 1
                run.violation("failing-input", {"case": enc(strip(c)), "impl": str(out)[:2000],
                                                "oracle": "the Coq contract checker (Contract.arun: one-to-one, conservation, "
                                                          "threshold / no infinite pair, optimal w.r.t. the proved reference) "
                                                          "rejects the real answer"})
    run.obligation("contract: Contract.arun (Coq, vm_compute) accepts every real answer of hungarian_matching / match_instances",
                   rejected == 0, f"{rejected} of {len(answers)} answers rejected")
    run.coverage.update({
        "input_distribution": dist, "disagreements": disagree, "oracle_failures": nfail, "stats": stats,
        "corpus_cases": len(corpus), "code_behaviour": flags,
        "rule": "case = (function, full input); non-trivial = at least one gt with a visible keypoint and one "
                "prediction (oks/match), matrices >= 2x2 (greedy/hungarian), >= 2 frame pairs one of which has gt and "
                "predictions (frames); distinct by full case content",
        "tolerance": {"atol": ATOL, "rtol": RTOL, "indices": "exact", "matched OKS values": "bit-exact"},
    })
    for k in ("oks", "match", "greedy", "frames"):
        for c in cases:
            if c["kind"] == k:
                run.sample(enc(strip(c)))
                break
    run.trusted += [
        "numpy float64 kernels (exp, nanmin/nanmax, sum, argsort) are modelled by exact rationals / the exact argument of "
        "exp and compared within float64 tolerance; match_instances is modelled on the float64 OKS matrix taken from "
        "compute_oks itself (exact rationals), so ties and thresholds are compared exactly",
        "scipy.optimize.linear_sum_assignment is an oracle: its contract (one-to-one, min(n,m) pairs, optimal total "
        "cost = brute-force optimum computed by the Coq model) is checked on every generated matrix",
        "numpy's unstable argsort in greedy_matching: ties are compared by contract (valid greedy run), exact otherwise",
    ]
    run.assumptions += [
        "coordinates finite or NaN, stddev > 0, scale >= 0, scores finite",
        "OKS theorems assume >= 1 visible gt keypoint (all-missing gt gives 0/0 = NaN; model None, compared)",
    ]
    return run.finish()


def replay(run: core.Run, path: str) -> int:
    core.impl_env_setup()
    impl = Impl()
    flags = detect_flags(impl)
    rep = json.load(open(path))
    c = dec(rep["case"] if "case" in rep else rep)
    attach_matrices(c, impl)
    if no_matrix(c):
        print(json.dumps({"oracle": "compute_oks raised on a single prediction"}))
        return 1
    m = eval_model([c], flags)[0]
    diff, bad, out = eval_case(c, m, impl, flags, run.rng)
    print(json.dumps({"oracle": bad, "correspondence": diff, "impl": str(out)[:1000]}))
    return 1 if (bad and not (bad[1] and run.selector_known(bad[1]))) else 0
