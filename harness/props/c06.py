"""C06 — multi-peak detection returns exactly the strict local maxima above threshold.

Model: coq/theories/C06/Peaks.v (kornia dilation NMS as used, torch.where order,
zero-padded integer-centred crops, integral regression); theorems: C06/Props.v.
Tie: correspondence of Peaks.run (vm_compute in coqc) with find_local_peaks_rough,
find_local_peaks, crop_bboxes+make_centered_bboxes, integral_regression on generated
batches of exactly representable maps.
Oracle: the property statement (brute-force neighbour scan, once-only, indices,
values, locality by re-running single maps, refinement keeps count/order/indices and
stays within half a patch) evaluated on the implementation's outputs.
"""
from __future__ import annotations

import json
import math
from fractions import Fraction as F

from .. import core
from .. import c06_maps as M

PROP_FILES = [core.THEORIES / "C06" / "Props.v"]
PREAMBLE = ("From SV Require Import C06.Peaks.\nFrom Coq Require Import List QArith.\n"
            "Import ListNotations.\nOpen Scope Q_scope.\n")
RENDER = "rresult"
ATOL, RTOL = 2e-5, 3e-4
SEL_F9 = "F9_patch_negative_or_peak_nonpositive"
PATCHES = [3, 5, 7]


# ---------------------------------------------------------------- generation
BIG = [F(2 ** 38), F(2 ** 38 - 16384), F(2 ** 38 - 32768), F(2 ** 37), F(2 ** 30 + 128)]   # exact in float32; <= VMAX = 2^38
LOW = [F(-9999), F(-19999, 2), F(-9000), F(-9984)]                                          # > BORDER = -1e4


def gen_domain_edge(rng):
    """Values at the two ends of the stated value domain -1e4 < v <= 2^38 (Peaks.in_value_domain): the centre term
    v - 1e4 of the dilation still differs from v in float32 (ulp(2^38) / 2 = 8192 < 1e4), and border cells still
    exceed the geodesic border value.  float32 / float64 only (float16 ends at 65504)."""
    H, W = rng.choice([(1, 1), (1, 3), (3, 1), (2, 2), (3, 3), (3, 4), (4, 5)])
    B, C = rng.randint(1, 2), rng.randint(1, 2)
    hi = rng.random() < 0.5
    pool = BIG if hi else LOW
    bg = [F(0), F(1), F(2 ** 37)] if hi else [F(-9999), F(-9990), F(-5000)]
    cms = [[[[rng.choice(bg) if rng.random() < 0.7 else rng.choice(pool) for _ in range(W)] for _ in range(H)]
            for _ in range(C)] for _ in range(B)]
    vals = sorted(set(M.all_values(cms)))
    thr = rng.choice([vals[0] - 1, vals[0], vals[len(vals) // 2], F(1, 2) if hi else F(-9999)])
    return {"kind": "rough", "cms": cms, "thr": thr, "family": "domain_edge_high" if hi else "domain_edge_low",
            "dtype": rng.choice(["float32", "float32", "float64"])}


def gen_outside(rng):
    """OUTSIDE the value domain (v <= -1e4 = kornia's geodesic border / centre constant): the model is still
    compared with the code (this is what exercises the constant BORDER and the `v + BORDER` centre term), the
    property's oracle is not applied."""
    H, W = rng.choice([(1, 1), (1, 3), (3, 1), (2, 2), (3, 3), (3, 4)])
    pool = [F(-10000), F(-9999), F(-20001, 2), F(-19999, 2), F(-20000), F(-30000), F(-10001), F(-15000), F(0)]
    cms = [[[[rng.choice(pool) for _ in range(W)] for _ in range(H)] for _ in range(rng.randint(1, 2))]]
    return {"kind": "rough_outside", "cms": cms, "thr": rng.choice([F(-40000), F(-20000), F(-10000), F(-9999)]),
            "family": "outside_value_domain", "dtype": rng.choice(["float32", "float64"])}


def gen_case(rng, thorough):
    big = 10 if thorough else 8
    t0 = rng.random()
    if t0 < 0.09:       # non-dyadic thresholds (0.1, 0.2, 0.3, 0.7), cells exactly at / next to dtype(threshold)
        cms, thr, dt = M.gen_thr_edge(rng)
        if t0 < 0.05 or (dt == "float16" and (len(cms[0][0]) == 1 or len(cms[0][0][0]) == 1)):
            return {"kind": "rough", "cms": cms, "thr": thr, "family": "thr_edge", "dtype": dt}
        return {"kind": "refine", "cms": cms, "thr": thr, "p": M.gen_patch_size(rng), "family": "thr_edge", "dtype": dt}
    if t0 < 0.15:
        return gen_domain_edge(rng)
    if t0 < 0.18:
        return gen_outside(rng)
    t = rng.random()
    if t < 0.32:
        cms, fam = M.gen_batch(rng, big)
        return {"kind": "rough", "cms": cms, "thr": M.gen_threshold(rng, cms), "family": fam,
                "dtype": M.gen_dtype(rng)}
    if t < 0.76:
        cms, fam = M.gen_batch(rng, big)
        return {"kind": "refine", "cms": cms, "thr": M.gen_threshold(rng, cms), "p": M.gen_patch_size(rng),
                "family": fam, "dtype": M.gen_dtype(rng, cms, refine=True)}
    if t < 0.79:
        cms, fam = M.gen_batch(rng, big)
        return {"kind": "refine_none", "cms": cms, "thr": M.gen_threshold(rng, cms), "family": fam,
                "dtype": M.gen_dtype(rng)}
    if t < 0.81:        # any other refinement string: the grid-aligned peaks are returned unchanged
        cms, fam = M.gen_batch(rng, big)
        return {"kind": "refine_other", "cms": cms, "thr": M.gen_threshold(rng, cms), "family": fam,
                "p": M.gen_patch_size(rng), "dtype": "float32"}
    if t < 0.90:
        H, W = rng.randint(2, big), rng.randint(2, big)
        n = rng.randint(1, 4)
        imgs = [M.gen_map(rng, H, W, rng.choice(["random_dyadic", "mixed_sign", "random_int"])) for _ in range(n)]
        k = rng.randint(1, 5)
        centres = [(rng.randrange(W), rng.randrange(H)) for _ in range(k)]
        if rng.random() < 0.5:                      # corners / borders
            centres[0] = rng.choice([(0, 0), (W - 1, 0), (0, H - 1), (W - 1, H - 1)])
        inds = [rng.randrange(n) for _ in range(k)]
        return {"kind": "crop", "imgs": imgs, "centres": centres, "inds": inds, "p": M.gen_patch_size(rng)}
    if t < 0.97:
        h, w = rng.randint(1, 7), rng.randint(1, 7)
        n = rng.randint(1, 3)
        lo = rng.choice([0, 0, -8])
        Ps = [[[F(rng.randint(lo, 16), 8) for _ in range(w)] for _ in range(h)] for _ in range(n)]
        if rng.random() < 0.15:
            Ps[0] = [[F(0)] * w for _ in range(h)]  # zero sum: NaN
        if rng.random() < 0.5:
            xv = [F(j) - F(w - 1, 2) for j in range(w)]
            yv = [F(i) - F(h - 1, 2) for i in range(h)]
        else:
            xv = [F(rng.randint(-16, 16), 4) for _ in range(w)]
            yv = [F(rng.randint(-16, 16), 4) for _ in range(h)]
        return {"kind": "intreg", "xv": xv, "yv": yv, "Ps": Ps}
    return {"kind": "box", "x": F(rng.randint(-40, 80), 4), "y": F(rng.randint(-40, 80), 4),
            "bh": rng.randint(1, 9), "bw": rng.randint(1, 9)}


def thr_cmp(c):
    """The threshold rounded to the map's dtype (M.thr_in_dtype): what the code compares with, what the model is given
    and what the theorems and the oracle call `thr`."""
    return M.thr_in_dtype(c["thr"], c.get("dtype", "float32"))


def term(c):
    k = c["kind"]
    if k in ("rough", "refine_none", "refine_other", "rough_outside"):     # the threshold as the code compares it
        return f"CRough {M.cms_lit(c['cms'])} {core.cq(thr_cmp(c))}"
    if k == "refine":       # the patch by its size p (odd: integer-centred window; even: half-pixel samples)
        return f"CRefineP {M.cms_lit(c['cms'])} {core.cq(thr_cmp(c))} {c['p']}%nat"
    if k == "crop":
        cs = core.clist(c["centres"], lambda xy: f"({xy[0]}%nat, {xy[1]}%nat)")
        return (f"CCropP {core.clist(c['imgs'], M.cmap_lit)} {cs} {core.clist(c['inds'], core.cnat)} "
                f"{c['p']}%nat")
    if k == "intreg":
        return (f"CIntReg {core.clist(c['xv'], core.cq)} {core.clist(c['yv'], core.cq)} "
                f"{core.clist(c['Ps'], M.cmap_lit)}")
    if k == "box":
        return f"CBox {core.cq(c['x'])} {core.cq(c['y'])} {c['bh']}%nat {c['bw']}%nat"
    raise ValueError(k)


def case_json(c):
    j = {k: v for k, v in c.items() if k not in ("cms", "thr", "imgs", "xv", "yv", "Ps", "x", "y")}
    if "cms" in c:
        j["cms"] = M.cms_json(c["cms"])
        j["thr"] = str(c["thr"])
    if "imgs" in c:
        j["imgs"] = M.cms_json([c["imgs"]])[0]
        j["centres"] = [list(t) for t in c["centres"]]
    if "Ps" in c:
        j["Ps"] = M.cms_json([c["Ps"]])[0]
        j["xv"] = [str(v) for v in c["xv"]]
        j["yv"] = [str(v) for v in c["yv"]]
    if c["kind"] == "box":
        j["x"], j["y"] = str(c["x"]), str(c["y"])
    return j


def case_from_json(j):
    c = dict(j)
    if "cms" in j:
        c["cms"] = M.cms_from_json(j["cms"])
        c["thr"] = F(j["thr"])
    if "imgs" in j:
        c["imgs"] = M.cms_from_json([j["imgs"]])[0]
        c["centres"] = [tuple(t) for t in j["centres"]]
    if "Ps" in j:
        c["Ps"] = M.cms_from_json([j["Ps"]])[0]
        c["xv"] = [F(v) for v in j["xv"]]
        c["yv"] = [F(v) for v in j["yv"]]
    if j["kind"] == "box":
        c["x"], c["y"] = F(j["x"]), F(j["y"])
    return c


# ---------------------------------------------------------------- implementation
def peaks_out(res):
    pts, vals, si, ci = res
    return [[p[0], p[1], v, int(s), int(c)] for p, v, s, c in
            zip(pts.tolist(), vals.tolist(), si.tolist(), ci.tolist())]


def impl_rough(cms, thr, mods, dtype="float32"):
    torch, pf, _ = mods
    return peaks_out(pf.find_local_peaks_rough(M.to_tensor(cms, torch, dtype), threshold=float(thr)))


def run_impl(c, mods):
    torch, pf, mcb = mods
    k = c["kind"]
    dt = c.get("dtype", "float32")
    if k in ("rough", "rough_outside"):
        return impl_rough(c["cms"], c["thr"], mods, dt)
    if k == "refine_none":
        return peaks_out(pf.find_local_peaks(M.to_tensor(c["cms"], torch, dt), threshold=float(c["thr"]),
                                             refinement=None))
    if k == "refine_other":
        return peaks_out(pf.find_local_peaks(M.to_tensor(c["cms"], torch, dt), threshold=float(c["thr"]),
                                             refinement="local", integral_patch_size=c["p"]))
    if k in ("refine", "refine_oracle_only"):
        return peaks_out(pf.find_local_peaks(M.to_tensor(c["cms"], torch, dt), threshold=float(c["thr"]),
                                             refinement="integral", integral_patch_size=c["p"]))
    if k == "crop":
        imgs = M.to_tensor([[m] for m in c["imgs"]], torch)
        bb = mcb(torch.tensor([[float(x), float(y)] for x, y in c["centres"]], dtype=torch.float32),
                 c["p"], c["p"])
        out = pf.crop_bboxes(imgs, bb, torch.tensor(c["inds"], dtype=torch.long))
        return out[:, 0].tolist()
    if k == "intreg":
        Ps = M.to_tensor([[P] for P in c["Ps"]], torch)
        xh, yh = pf.integral_regression(Ps, torch.tensor([float(v) for v in c["xv"]], dtype=torch.float32),
                                        torch.tensor([float(v) for v in c["yv"]], dtype=torch.float32))
        return [[a, b] for a, b in zip(xh[:, 0].tolist(), yh[:, 0].tolist())]
    if k == "box":
        bb = mcb(torch.tensor([[float(c["x"]), float(c["y"])]], dtype=torch.float32), c["bh"], c["bw"])
        return bb[0].tolist()
    raise ValueError(k)


# ---------------------------------------------------------------- the property, executable
def oracle_rough(cms, thr, out, mods, locality=True, dtype="float32"):
    """C06 first sentence, clause by clause (`thr` = the caller's threshold; the statement is read with the
    threshold as the code compares it: rounded to the map's dtype).  Returns None or a reason."""
    tc = M.thr_in_dtype(thr, dtype)
    B, C = len(cms), len(cms[0])
    H, W = len(cms[0][0]), len(cms[0][0][0])
    seen = set()
    for (x, y, v, s, c) in out:
        if x != int(x) or y != int(y) or not (0 <= x < W and 0 <= y < H and 0 <= s < B and 0 <= c < C):
            return f"peak {(x, y, s, c)} outside the batch"
        x, y = int(x), int(y)
        if (x, y, s, c) in seen:
            return f"peak {(x, y, s, c)} reported twice"                      # c06_nodup
        seen.add((x, y, s, c))
        if F(v) != cms[s][c][y][x]:
            return f"peak {(x, y, s, c)}: value {v} is not the map value {cms[s][c][y][x]}"   # c06_value
    want = {(x, y, s, c) for s in range(B) for c in range(C)
            for (x, y, _) in M.strict_local_maxima(cms[s][c], tc)}
    if seen - want:
        return f"reported {sorted(seen - want)[:3]}: not a strict local maximum above threshold"   # c06_sound
    if want - seen:
        return f"missed {sorted(want - seen)[:3]}: strict local maxima above threshold"            # c06_complete
    if locality and (B > 1 or C > 1):
        for s in range(B):
            for c in range(C):
                alone = impl_rough([[cms[s][c]]], thr, mods, dtype)
                here = [[x, y, v, 0, 0] for (x, y, v, s2, c2) in out if (s2, c2) == (s, c)]
                if alone != here:
                    return (f"map (sample {s}, channel {c}): peaks in the batch {here[:4]} differ from the "
                            f"peaks of the map alone {alone[:4]}")                                # c06_locality
    return None


def oracle_refine(cms, thr, p, out, mods, dtype="float32"):
    """C06 second sentence.  Returns the list of (reason, selector) of the failing clauses."""
    rough = impl_rough(cms, thr, mods, dtype)
    ts = M.tol_scale(dtype)
    if [(v, s, c) for (_, _, v, s, c) in out] != [(v, s, c) for (_, _, v, s, c) in rough]:
        return [("refinement changed the number, order, values or indices of the peaks", None)]   # c06_refine_keeps_indices
    fails = []
    for (x, y, v, s, c), (x0, y0, _, _, _) in zip(out, rough):
        ok = (math.isfinite(x) and math.isfinite(y) and
              abs(x - x0) <= p / 2 and abs(y - y0) <= p / 2)
        if not ok:                                                            # c06_refine_bound_partial
            r = p // 2      # the cells a p x p patch reads lie within radius p // 2 (odd and even p)
            sel = SEL_F9 if M.selector_F9(cms[s][c], int(x0), int(y0), r) else None
            fails.append((f"peak at cell {(x0, y0)} of map ({s},{c}) moved to {(x, y)}: more than half a patch "
                          f"(p={p})", sel))
    # locality of the refined peaks: every map alone gives the same refined points      c06_refine_uses_own_map
    B, C = len(cms), len(cms[0])
    if B > 1 or C > 1:
        torch, pf, _ = mods
        for s in range(B):
            for c in range(C):
                alone = peaks_out(pf.find_local_peaks(M.to_tensor([[cms[s][c]]], torch, dtype), threshold=float(thr),
                                                      refinement="integral", integral_patch_size=p))
                here = [(x, y) for (x, y, _, s2, c2) in out if (s2, c2) == (s, c)]
                cells = [(x0, y0) for (x0, y0, _, s2, c2) in rough if (s2, c2) == (s, c)]
                if len(alone) != len(here):
                    fails.append((f"map ({s},{c}): {len(here)} refined peaks in the batch, {len(alone)} alone", None))
                    continue
                r = p // 2
                for (xa, ya, _, _, _), (xb, yb), (x0, y0) in zip(alone, here, cells):
                    if M.selector_F9(cms[s][c], int(x0), int(y0), r):
                        continue            # division by a small / cancelling sum: ill-conditioned in float
                    if not (abs(xa - xb) <= 1e-4 * ts * (1 + abs(xa)) and abs(ya - yb) <= 1e-4 * ts * (1 + abs(ya))):
                        fails.append((f"map ({s},{c}) peak at {(x0, y0)}: refined to {(xb, yb)} in the batch, "
                                      f"{(xa, ya)} when the map is processed alone", None))
    return fails


# ---------------------------------------------------------------- correspondence
def close(a, b, tol):
    return abs(a - b) <= tol


def compare(c, model, out):
    k = c["kind"]
    skipped = 0
    if k in ("rough", "refine_none", "refine_other", "rough_outside"):
        want = [[x, y, float(core.frac(v)), s, ch] for (x, y, v, s, ch) in model]
        if want != [[int(x), int(y), v, s, ch] for (x, y, v, s, ch) in out]:
            return f"peaks differ: impl {out[:6]} model {want[:6]}", 0
        return None, 0
    if k == "refine":
        if len(model) != len(out):
            return f"{len(out)} refined peaks, model {len(model)}", 0
        p, ts = c["p"], M.tol_scale(c.get("dtype", "float32"))
        r = p // 2
        # the grid cell of the i-th peak: brute-force maxima in torch.where order (sample, y, x, channel)
        rough = sorted((s, y, x, ch) for s, smp in enumerate(c["cms"]) for ch, m in enumerate(smp)
                       for (x, y, _) in M.strict_local_maxima(m, thr_cmp(c)))
        if len(rough) != len(model):
            return f"model reports {len(model)} peaks, brute force {len(rough)}", 0
        for i, ((pt, v, s, ch), (x, y, vo, so, co)) in enumerate(zip(model, out)):
            if (s, ch) != (so, co) or float(core.frac(v)) != vo:
                return f"peak {i}: impl (val,s,c)={(vo, so, co)} model {(float(core.frac(v)), s, ch)}", 0
            if pt is None:          # zero patch sum: the model's None stands for "inf, NaN or — kornia's bilinear crop
                skipped += 1        # is not exact, so the float sum may be ~1e-16 instead of 0 — an arbitrary huge
                continue            # number": nothing to compare (a check for non-finiteness was tried: false alarms)
            mx, my = float(core.frac(pt[0])), float(core.frac(pt[1]))
            (_, gy, gx, _) = rough[i]
            # conditioning of the division by the patch sum (float32 crop values carry ~2e-6 relative error)
            sm, ab = M.patch_condition_p(c["cms"][s][ch], gx, gy, p)
            cond = float(ab / abs(sm)) if sm != 0 else 1e9
            for a, b in ((mx, x), (my, y)):
                tol = ts * (ATOL + RTOL * abs(a) + 2e-5 * cond * (abs(a) + r + 1))
                if not (math.isfinite(b) and close(a, b, tol)):
                    return f"peak {i} of map ({s},{ch}): impl {(x, y)} model {(mx, my)}", 0
        return None, skipped
    if k == "crop":
        if len(model) != len(out):
            return "number of crops differs", 0
        for i, (mp, op) in enumerate(zip(model, out)):
            if len(mp) != len(op) or any(len(a) != len(b) for a, b in zip(mp, op)):
                return f"crop {i}: shape differs", 0
            for a_row, b_row in zip(mp, op):
                for a, b in zip(a_row, b_row):
                    if not close(float(core.frac(a)), b, 1e-4):
                        return f"crop {i}: impl {op} model {[[float(core.frac(a)) for a in r_] for r_ in mp]}", 0
        return None, 0
    if k == "intreg":
        for i, (mo, (xh, yh)) in enumerate(zip(model, out)):
            if mo is None:
                if math.isfinite(xh) and math.isfinite(yh):
                    return f"patch {i}: zero sum but impl returned finite {(xh, yh)}", 0
                continue
            P = c["Ps"][i]
            sm = sum(v for row in P for v in row)
            ab = sum(abs(v) for row in P for v in row)
            cond = float(ab / abs(sm))
            for a, b in ((float(core.frac(mo[0])), xh), (float(core.frac(mo[1])), yh)):
                if not (math.isfinite(b) and close(a, b, ATOL + RTOL * abs(a) + 1e-6 * cond * (abs(a) + 8))):
                    return f"patch {i}: impl {(xh, yh)} model {mo}", 0
        return None, 0
    if k == "box":
        want = [[float(core.frac(a)), float(core.frac(b))] for a, b in model]
        return (None if want == out else f"impl {out} model {want}"), 0
    raise ValueError(k)


# ---------------------------------------------------------------- one case
def check_case(run, c, model, mods, stats):
    """Runs the implementation, the oracle and the comparison for one case."""
    k = c["kind"]
    try:
        out = run_impl(c, mods)
    except Exception as e:          # the functions are total on the property's domain
        run.violation("failing-input", {"case": case_json(c), "impl_error": f"{type(e).__name__}: {e}"})
        return
    bad = []
    dt = c.get("dtype", "float32")
    if k in ("rough", "refine_none", "refine_other"):
        r = oracle_rough(c["cms"], c["thr"], out, mods, dtype=dt)
        bad = [(r, None)] if r else []
    elif k in ("refine", "refine_oracle_only"):
        bad = oracle_refine(c["cms"], c["thr"], c["p"], out, mods, dtype=dt)
    diff = None
    if model is not None:
        diff, skipped = compare(c, model, out)
        stats["skipped_zero_sum"] += skipped
        if diff:
            stats["disagree"] += 1
    for reason, sel in bad:
        run.violation("failing-input", {"case": case_json(c), "oracle": reason, "correspondence": diff,
                                        "observed": out[:20]}, selector=sel)
        if sel is None:
            stats["oracle_fail"] += 1
    if diff:
        run.proof_broken.append(f"correspondence C06 model vs implementation: {diff}; case "
                                f"{json.dumps(case_json(c))[:700]}")


def oracle_nan(fl, thr, mods):
    """find_local_peaks_rough on a float batch with NaN cells against the IEEE reading of the
    property (brute force), plus locality.  Returns None or a reason."""
    torch, pf, _ = mods
    t = torch.tensor(fl, dtype=torch.float32)
    out = peaks_out(pf.find_local_peaks_rough(t, threshold=thr))
    B, C = len(fl), len(fl[0])
    want = sorted((s, y, x, c, v) for s in range(B) for c in range(C)
                  for (x, y, v) in M.strict_local_maxima_ieee(fl[s][c], thr))
    got = [(s, int(y), int(x), c, v) for (x, y, v, s, c) in out]
    if got != want:
        return f"reported {got[:5]}, brute force with IEEE comparisons (torch.where order) {want[:5]}"
    for s in range(B):
        for c in range(C):
            alone = peaks_out(pf.find_local_peaks_rough(torch.tensor([[fl[s][c]]], dtype=torch.float32), threshold=thr))
            here = [[x, y, v, 0, 0] for (x, y, v, s2, c2) in out if (s2, c2) == (s, c)]
            if alone != here:
                return f"map ({s},{c}) with NaN cells elsewhere in the batch: in the batch {here[:4]}, alone {alone[:4]}"
    return None


def load_corpus():
    d = core.CORPUS / "C06"
    return [case_from_json(json.load(open(f))) for f in sorted(d.glob("*.json"))] if d.exists() else []


def check(run: core.Run) -> int:
    run.build_and_prove(PROP_FILES)
    core.impl_env_setup()
    import torch
    from sleap_nn.inference import peak_finding as pf
    from sleap_nn.data.instance_cropping import make_centered_bboxes as mcb
    mods = (torch, pf, mcb)
    thorough = run.tier == "thorough"
    n = 4000 if thorough else 700
    cases = load_corpus()
    n_corpus = len(cases)
    while len(cases) < n:
        cases.append(gen_case(run.rng, thorough))
    if thorough:       # ALL 3x3 maps over {0,1,2}, nine per batch (B = C = 3), thresholds below/at/between values
        maps = list(M.all_3x3_maps())
        thrs = [F(-1), F(0), F(1, 2), F(1), F(3, 2), F(2)]
        for i in range(0, len(maps), 9):
            blk = maps[i:i + 9]
            cases.append({"kind": "rough", "cms": [blk[0:3], blk[3:6], blk[6:9]], "thr": thrs[(i // 9) % len(thrs)],
                          "family": "exhaustive_3x3"})
        for i in range(0, len(maps), 9):
            blk = maps[i:i + 9]
            cases.append({"kind": "refine", "cms": [blk[0:3], blk[3:6], blk[6:9]], "thr": F(-1) if i % 2 else F(1, 2),
                          "p": (3, 2, 4)[(i // 9) % 3], "family": "exhaustive_3x3"})
    model = core.coq_eval_sharded(PREAMBLE, [term(c) for c in cases], "run", RENDER, shard=80, jobs=12)
    stats = {"disagree": 0, "oracle_fail": 0, "skipped_zero_sum": 0}
    dist = {}
    for c, m in zip(cases, model):
        for key in (c["kind"], "family:" + c.get("family", "-"), f"p={c.get('p', '-')}", "dtype:" + c.get("dtype", "-")):
            dist[key] = dist.get(key, 0) + 1
        if "cms" in c:
            dist[f"B{len(c['cms'])}C{len(c['cms'][0])}"] = dist.get(f"B{len(c['cms'])}C{len(c['cms'][0])}", 0) + 1
            npk = len(m)
            dist["peaks_total"] = dist.get("peaks_total", 0) + npk
            run.case(case_json(c), nontrivial=(npk >= 1 and len(c["cms"][0][0]) * len(c["cms"][0][0][0]) >= 2))
        else:
            run.case(case_json(c), nontrivial=True)
        check_case(run, c, m, mods, stats)
    # maps holding NaN cells (oracle only; the Coq model has no NaN): the property read with IEEE comparisons —
    # a cell is reported iff v > thr and v > every in-bounds neighbour, both false when a side is NaN; so a NaN
    # cell is never a peak and suppresses its up-to-eight neighbours, every other cell is unaffected
    n_nan = 200 if thorough else 40
    for _ in range(n_nan):
        cms, fam = M.gen_batch(run.rng, 8)
        thr = M.gen_threshold(run.rng, cms)
        fl, cells = M.with_nans(run.rng, cms)
        dist["rough_with_nan_cells(oracle only)"] = dist.get("rough_with_nan_cells(oracle only)", 0) + 1
        bad = oracle_nan(fl, float(thr), mods)
        if bad:
            stats["oracle_fail"] += 1
            run.violation("failing-input", {"case": {"kind": "rough_nan", "cms_float": fl, "thr": str(thr),
                                                     "nan_cells": cells, "family": fam}, "oracle": bad})
    run.obligation("correspondence: Peaks.run (Coq, vm_compute) == find_local_peaks_rough / find_local_peaks / "
                   "crop_bboxes∘make_centered_bboxes / integral_regression (/repo) on every case",
                   stats["disagree"] == 0, f"{stats['disagree']} disagreements")
    # observations outside the property's domain (logged, never a verdict)
    try:
        pf.find_local_peaks(torch.tensor([[[[0., 0, 0], [0, 1, 0], [0, 0, 0]]]]), threshold=0.5,
                            refinement="integral", integral_patch_size=1)
        run.notes.append("observation: integral_patch_size=1 did not raise")
    except Exception as e:
        run.notes.append(f"observation: integral_patch_size=1 raises {type(e).__name__} inside kornia (degenerate box)")
    try:
        pf.find_local_peaks(torch.tensor([[[[0., 1, 0]]]], dtype=torch.float16), threshold=0.5,
                            refinement="integral", integral_patch_size=3)
        run.notes.append("observation: float16 map with a singleton axis: integral refinement did not raise")
    except Exception as e:
        run.notes.append(f"observation: float16 map with a singleton axis (1x3): integral refinement raises {type(e).__name__} "
                         f"inside kornia's crop_and_resize (float16 underflow of its epsilon); float32/float64 are fine; "
                         f"such cases are kept out of the generated stream")
    o = impl_rough([[[[F(-20000)]]]], F(-30000), mods)
    run.obligation("c06_border_value_observation holds of the code: [[-20000]] with threshold -30000 yields no peak "
                   "(a border cell <= -1e4, kornia's geodesic border value, is never reported)", o == [], f"impl -> {o}")
    # the upper end of the value domain (Peaks.VMAX = 2^38): beyond it float32 absorbs the centre term v - 1e4
    # (ulp/2 = 16384 > 1e4), so an isolated maximum is dropped; float64 absorbs beyond 2^67; +inf always.  Logged.
    obs = []
    for dt, v in (("float32", 2.0 ** 38), ("float32", 2.0 ** 38 + 32768), ("float32", float("inf")),
                  ("float64", 2.0 ** 38 + 32768), ("float64", 2.0 ** 67), ("float64", 2.0 ** 67 + 32768)):
        t = torch.zeros(1, 1, 3, 3, dtype=getattr(torch, dt))
        t[0, 0, 1, 1] = v
        obs.append(f"{dt} {v:.6g} -> {len(pf.find_local_peaks_rough(t, threshold=0.5)[0])} peak(s)")
    run.notes.append("observation (outside the value domain v <= 2^38 of c06_complete): an isolated maximum on a zero 3x3 "
                     "map: " + "; ".join(obs))
    in_dom = len(pf.find_local_peaks_rough(torch.tensor([[[[0., 0, 0], [0, 2.0 ** 38, 0], [0, 0, 0]]]]), threshold=0.5)[0])
    run.obligation("the value domain of c06_complete reaches its stated upper end on the code: an isolated float32 "
                   "maximum 2^38 is reported", in_dom == 1, f"{in_dom} peaks")
    run.coverage.update({
        "input_distribution": dist, "disagreements": stats["disagree"],
        "refined_peaks_skipped_zero_patch_sum": stats["skipped_zero_sum"], "corpus_cases": n_corpus,
        "rule": "case = (entry point, batch of maps, threshold, patch size); non-trivial = at least one peak "
                "reported and the map has >= 2 cells; distinct by full case content",
        "tolerance": {"atol": ATOL, "rtol": RTOL, "note": "indices, counts, order, rough coordinates and values exact; "
                      "refined coordinates within atol+rtol|a| widened by the conditioning sum|P|/|sum P| of the division"},
    })
    for c in cases[n_corpus:n_corpus + 3]:
        run.sample(case_json(c))
    run.trusted += [
        "kornia.morphology.dilation (geodesic border = -1e4, centre + -1e4, max over the 3x3 window) modelled from its "
        "source; kornia crop_and_resize modelled as exact pixels on integer-cornered boxes (odd patch sizes) and as the "
        "mean of the 2x2 surrounding cells at half-pixel positions (even patch sizes), 0 outside the map "
        "(determined empirically; tied on every run for H,W >= 2; for H = 1 or W = 1 kornia replicates the singleton "
        "axis, which yields the same offsets: tied at the find_local_peaks level)",
        "torch.where order on the (B,H,W,C) permutation; float32 sums/divisions compared within tolerance",
    ]
    run.assumptions += ["map values are finite, > -1e4 (kornia's geodesic border / centre constant) and <= 2^38 (beyond it the "
                        "float32 centre term v - 1e4 equals v and the code drops an isolated maximum; float64: 2^67) — "
                        "Peaks.in_value_domain, a hypothesis of c06_complete; values <= -1e4 are compared model-vs-code "
                        "only (kind rough_outside); NaN cells: oracle only; "
                        "rectangular batches with B,C,H,W >= 1; float32 / float64 / float16 inputs",
                        "`thr` in the model, the theorems and the oracle is the threshold AS THE CODE COMPARES IT: the "
                        "caller's Python float rounded to the map's dtype (float32(0.2) = 0.2000000030, float16(0.2) = "
                        "0.19995); the harness passes that exact rational (c06_maps.thr_in_dtype)",
                        "integral_patch_size >= 2, odd or even (size 1 is a single cell, not a patch: kornia raises on the "
                        "degenerate box; logged as an observation)"]
    return run.finish()


def replay(run: core.Run, path: str) -> int:
    core.impl_env_setup()
    import torch
    from sleap_nn.inference import peak_finding as pf
    from sleap_nn.data.instance_cropping import make_centered_bboxes as mcb
    mods = (torch, pf, mcb)
    rep = json.load(open(path))
    if rep["case"].get("kind") == "rough_nan":
        bad = oracle_nan(rep["case"]["cms_float"], float(F(rep["case"]["thr"])), mods)
        print(json.dumps({"oracle": bad}, default=str))
        return 1 if bad else 0
    c = case_from_json(rep["case"])
    out = run_impl(c, mods)
    bad = None
    if c["kind"] in ("rough", "refine_none", "refine_other"):
        bad = oracle_rough(c["cms"], c["thr"], out, mods, dtype=c.get("dtype", "float32"))
    elif c["kind"] in ("refine", "refine_oracle_only"):
        bad = oracle_refine(c["cms"], c["thr"], c["p"], out, mods, dtype=c.get("dtype", "float32"))
    print(json.dumps({"oracle": bad, "observed": out[:20]}, default=str))
    return 1 if bad else 0
